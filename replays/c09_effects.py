"""BOUNDED stand-in / replay driver for C09: library functions applied to
mutable host lists, dicts and sets in both yaql.convertInputData modes; the
host data is compared (deeply) before and after, the result is then mutated
in place to expose aliasing, the host's context chain must keep its
variables and functions (except `$`), and evaluating the statement again
gives an equal result."""
import copy
import json
import warnings
warnings.simplefilter('ignore')
import yaql
from yaql.language import exceptions


def fresh_doc():
    return {'l': [3, 1, 2], 'd': {'a': 1, 'b': [1, 2], 'c': {'x': [0]}},
            's': {1, 2}, 'n': [[1, 2], [3]], 'dl': [{'k': [1]}, {'k': [2]}],
            'm1': {'k': {'x': [1]}, 'q': [1]}, 'm2': {'k': {'y': [2]},
                                                     'q': [2, 3]}}


EXPRS = [
    '$', '$.l', '$.d', '$.s', '$.n', '$.dl', '$.l.orderBy($)', '$.l.reverse()',
    '$.l.delete(0)', '$.l.insert(1, 9)', '$.l.replace(0, 9)', '$.l + [4]',
    '$.l.append(7)', '$.l.toList()', '$.l.select($)', '$.n.selectMany($)',
    '$.n.select($.toList())', '$.d.set(z, 1)', '$.d.delete(a)',
    '$.d.deleteAll([a, b])', '$.d + {q => 1}', '$.d.keys()', '$.d.values()',
    '$.d.items()', '$.d.get(b)', '$.d.b', '$.d.c.x', '$.m1.mergeWith($.m2)',
    '$.m1.mergeWith($.m2, maxLevels => 1)', '$.s.union(set(3))', '$.s.add(4)',
    '$.s.remove(1)', '$.s.toList()', '$.dl.select($.k)', '$.dl.where($.k[0] > 1)',
    '$.l.distinct()', '$.l.skip(1)', '$.l.take(2)', '$.l.memorize()',
    '$.n.first()', '$.n.last()', '$.l.splitAt(1)', '$.l.zip($.l)',
    '$.l.groupBy($ mod 2)', '$.l.toSet()', '$.l.len()', '$.l.sum()',
    'let(x => $.l) -> $x', '$.d.toList()', '[$.l, $.d]', '{k => $.l}',
    '$.n.flatten()', '$.l.enumerate()', '$.l.accumulate($1 + $2)',
    '$.dl.toDict($.k[0], $)', '$.l.replaceMany(0, [7, 8])',
    '$.l.insertMany(1, [7, 8])', '$.l.slice(2)', '$.l.sliceWhere($ > 1)',
    '$.n.select($).first().append(5)', '$.l.defaultIfEmpty([0])',
    '$.l.concat($.l)', '$.d.c', '$.n[0]', '$.l[0]', '$.d[a]',
]


def scramble(v, seen=None):
    """Mutate every mutable container reachable from v in place."""
    seen = seen if seen is not None else set()
    if id(v) in seen:
        return
    seen.add(id(v))
    if isinstance(v, list):
        for x in list(v):
            scramble(x, seen)
        v.append('SCRAMBLED')
    elif isinstance(v, dict):
        for x in list(v.values()):
            scramble(x, seen)
        v['SCRAMBLED'] = True
    elif isinstance(v, set):
        v.add('SCRAMBLED')


def main():
    cases, skipped = 0, []
    for conv in (True, False):
        engine = yaql.YaqlFactory().create(
            options={'yaql.convertInputData': conv})
        base = yaql.create_context()
        base['$host'] = 'v'
        host_ctx = base.create_child_context()
        host_ctx['$mine'] = [1]
        for text in EXPRS:
            cases += 1
            doc = fresh_doc()
            before = copy.deepcopy(doc)
            keys_before = (sorted(host_ctx.keys()), sorted(base.keys()))
            try:
                st = engine(text)
                res = st.evaluate(data=doc, context=host_ctx)
            except (exceptions.YaqlException, TypeError, KeyError) as e:
                if doc != before:
                    return fail(cases, text, conv, 'host data changed (and '
                                'the evaluation raised %s)' % type(e).__name__,
                                before, doc)
                skipped.append(text)
                continue
            if doc != before:
                return fail(cases, text, conv, 'host data changed by the '
                            'evaluation', before, doc)
            keys_after = (sorted(k for k in host_ctx.keys() if k != '$1'),
                          sorted(base.keys()))
            if keys_after != (sorted(k for k in keys_before[0] if k != '$1'),
                              keys_before[1]):
                return fail(cases, text, conv, 'the host context chain '
                            'gained / lost variables', keys_before,
                            keys_after)
            try:
                res2 = st.evaluate(data=copy.deepcopy(before),
                                   context=host_ctx)
            except Exception as e:      # noqa
                return fail(cases, text, conv, 'second evaluation of the '
                            'same statement raised %s' % type(e).__name__,
                            res, None)
            if res2 != res:
                return fail(cases, text, conv, 'second evaluation of the '
                            'same statement differs', res, res2)
            scramble(res)
            if doc != before:
                return fail(cases, text, conv, 'the result aliases mutable '
                            'host data (mutating the result changed the '
                            'input)', before, doc)
    # a host-assembled chain without '#finalize': evaluation must not leave
    # functions behind in it
    from yaql.language import contexts as C
    from yaql.standard_library import queries, collections, common
    engine = yaql.YaqlFactory().create()
    bare = C.Context()
    for m in (queries, collections, common):
        m.register(bare)
    probe = ['#finalize', '#iter', 'len', 'select']
    fbefore = {n: len(bare.collect_functions(n)) and sorted(
        len(l) for l in bare.collect_functions(n)) for n in probe}
    cases += 1
    try:
        engine('[1, 2].select($ + 1)').evaluate(context=bare)
    except exceptions.YaqlException:
        pass
    fafter = {n: len(bare.collect_functions(n)) and sorted(
        len(l) for l in bare.collect_functions(n)) for n in probe}
    if fafter != fbefore:
        return fail(cases, '[1, 2].select($ + 1)', True, 'the host context '
                    'gained / lost functions', fbefore, fafter)
    # variables defined ABOVE the supplied context stay where they are, and
    # re-binding them is seen by the next evaluation
    base = yaql.create_context()
    base['$limit'] = 1
    mid = base.create_child_context()
    leaf = mid.create_child_context()
    st = engine('$limit + 1')
    cases += 1
    r1 = st.evaluate(context=leaf)
    if sorted(mid.keys()) or sorted(leaf.keys()):
        return fail(cases, '$limit + 1', True, 'intermediate host contexts '
                    'gained variables', [], [sorted(mid.keys()),
                                             sorted(leaf.keys())])
    base['$limit'] = 10
    r2 = st.evaluate(context=leaf)
    if (r1, r2) != (2, 11):
        return fail(cases, '$limit + 1', True, 're-bound variable not seen '
                    'by the next evaluation', (2, 11), (r1, r2))
    # the same statement with the same (mutable) document object, modified
    # by the host in between
    for conv in (True, False):
        eng = yaql.YaqlFactory().create(
            options={'yaql.convertInputData': conv})
        st = eng('$.l.len()')
        doc = {'l': [1, 2]}
        cases += 1
        r1 = st.evaluate(data=doc, context=yaql.create_context())
        doc['l'].append(3)
        r2 = st.evaluate(data=doc, context=yaql.create_context())
        if (r1, r2) != (2, 3):
            return fail(cases, '$.l.len()', conv, 'statement reuse: the '
                        'second evaluation does not see the document as it '
                        'is now', (2, 3), (r1, r2))
    print(json.dumps(dict(status='ok', cases=cases,
                          invalid_expressions=sorted(set(skipped)))))


def fail(cases, text, conv, what, a, b):
    print(json.dumps(dict(status='failed', cases=cases, expression=text,
                          convertInputData=conv, detail=what,
                          before=repr(a)[:400], after=repr(b)[:400])))


main()
