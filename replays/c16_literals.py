"""BOUNDED stand-in for C16: literal spellings are read back as the values
they spell.  Bound: all strings of length <= 3 over an alphabet biased to
quotes, backslashes and escape look-alikes, 300 seeded random longer ones,
every escape form, integers 10**k +- 1 for k up to 4000 and a digit-length
sweep, decimal literals, keywords."""
import itertools
import json
import os
import random
import sys
import warnings
warnings.simplefilter('ignore')
import yaql
from yaql.language import expressions

ENGINE = yaql.YaqlFactory().create()
CTX = yaql.create_context()


def quote(s, q):
    return q + ''.join('\\' + c if c in ('\\', q) else c for c in s) + q


def value_of(text):
    st = ENGINE(text)
    v = st.evaluate(context=CTX.create_child_context())
    e = st.expression
    if isinstance(e, expressions.Constant) and e.value != v:
        raise AssertionError('Constant.value %r != evaluated %r' % (e.value,
                                                                    v))
    return v


def fail(**kw):
    print(json.dumps(dict(status='failed', **kw), default=repr))
    sys.exit(0)


def main():
    rnd = random.Random(int(os.environ.get('VERIF_SEED', '0') or 0))
    alpha = ['\\', "'", '"', '`', 'n', 'x', 'u', 'U', 'N', '0', '7', 'a',
             '{', '}', ' ', 'é', '\U0001F600']
    strings = [''.join(p) for n in range(0, 4)
               for p in itertools.product(alpha[:9], repeat=n)]
    strings += [''.join(rnd.choice(alpha) for _ in range(rnd.randint(4, 12)))
                for _ in range(3000 if os.environ.get('VERIF_TIER') ==
                               'thorough' else 300)]
    # raw code points that are not in a Unicode normal form, case variants
    # of operator words, every kind of non-ASCII letter: a literal spells
    # exactly its own code points
    strings += ['\u212b', '\u2126', '\u037e', '\uf900', 'e\u0301',
                '\u1100\u1161', '\u0958', '\U0001d15e', 'A\u030a',
                '\ufb01', '\u00c5', '\u1e9b\u0323', 'AND', 'Or', 'NOT',
                'In', 'Mod', 'TRUE', 'Null', '\u0130', '\u00df']
    n = 0
    for s in strings:
        for q in ("'", '"'):
            n += 1
            try:
                got = value_of(quote(s, q))
            except Exception as e:      # noqa
                fail(kind='quoted', quote=q, string=s, error=repr(e))
            if got != s:
                fail(kind='quoted', quote=q, string=s, got=got)
        # verbatim style: defined for strings without a back quote preceded
        # by a backslash and not ending in a backslash (known finding)
        if not s.endswith('\\') and '\\`' not in s and not (
                '\\' in s and '`' in s):
            n += 1
            text = '`' + s.replace('`', '\\`') + '`'
            try:
                got = value_of(text)
            except Exception as e:      # noqa
                fail(kind='verbatim', string=s, error=repr(e))
            if got != s:
                fail(kind='verbatim', string=s, got=got)
    escapes = {'\\n': '\n', '\\t': '\t', '\\\\': '\\', "\\'": "'",
               '\\"': '"', '\\a': '\a', '\\b': '\b', '\\f': '\f',
               '\\r': '\r', '\\v': '\v', '\\x41': 'A', '\\x4a': 'J',
               '\\x4A': 'J', '\\u00e9': 'é', '\\u00E9': 'é',
               '\\U0001F600': '\U0001F600', '\\U0001f600': '\U0001F600',
               '\\101': 'A', '\\7': '\x07', '\\N{BULLET}': '•',
               '\\q': '\\q', '\\ ': '\\ '}
    # consecutive escapes are decoded one by one: \uXXXX is the code point
    # XXXX also when it is a surrogate followed by another surrogate escape
    for hi in (0xD800, 0xD83D, 0xDBFF):
        for lo in (0xDC00, 0xDE00, 0xDFFF):
            escapes['\\u%04X\\u%04x' % (hi, lo)] = chr(hi) + chr(lo)
    escapes['\\x41\\x42'] = 'AB'
    escapes['\\u0041\\101\\x41'] = 'AAA'
    # identifier-shaped words with underscores / digits denote themselves
    for w in ('_', '_1', '_9_', 'a__b', '_e', 'x1'):
        n += 1
        try:
            got = value_of(w)
        except Exception as e:      # noqa
            fail(kind='keyword', word=w, error=repr(e))
        if got != w:
            fail(kind='keyword', word=w, got=got)
    for esc, val in escapes.items():
        for q in ("'", '"'):
            if esc in ("\\'", '\\"') and esc[1] != q:
                continue
            n += 1
            try:
                got = value_of(q + 'a' + esc + 'b' + q)
            except Exception as e:      # noqa
                fail(kind='escape', escape=esc, error=repr(e))
            if got != 'a' + val + 'b':
                fail(kind='escape', escape=esc, got=got,
                     expected='a' + val + 'b')
    ints = [0, 1, 7, 10, 255, 2 ** 63 - 1, 2 ** 63 + 1]
    ints += [10 ** k + d for k in (3, 17, 100, 999, 1000, 1001, 1500, 2000,
                                   2500, 3999, 4000) for d in (-1, 0, 1)]
    ints += [int('9' * k) for k in (1, 2, 9, 10, 19, 20, 1000, 1001, 4299,
                                    4300)]
    for v in ints:
        n += 1
        try:
            got = value_of(str(v))
        except Exception as e:      # noqa
            fail(kind='integer', digits=len(str(v)), error=repr(e))
        if got != v or type(got) is not int:
            fail(kind='integer', digits=len(str(v)),
                 got_bits=getattr(got, 'bit_length', lambda: None)(),
                 expected_bits=v.bit_length())
    for text in ('0.5', '1.25', '10.0', '3.14159', '0.001', '123456.789',
                 '9007199254740993.0'):
        n += 1
        got = value_of(text)
        if got != float(text) or type(got) is not float:
            fail(kind='decimal', text=text, got=got)
    for text, v in (('true', True), ('false', False), ('null', None)):
        n += 1
        got = value_of(text)
        if got is not v:
            fail(kind='constant', text=text, got=got)
    for w in ('abc', 'a_b', '_x', 'x1', 'nullx', 'trueish', 'été'):
        n += 1
        try:
            got = value_of(w)
        except Exception as e:      # noqa
            fail(kind='keyword', word=w, error=repr(e))
        if got != w:
            fail(kind='keyword', word=w, got=got)
    for w in ('__x', '__class__'):
        n += 1
        try:
            value_of(w)
            fail(kind='dunder-accepted', word=w)
        except yaql.language.exceptions.YaqlParsingException:
            pass
    print(json.dumps(dict(status='ok', cases=n)))


main()
