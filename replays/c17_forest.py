"""BOUNDED stand-in / replay driver for C17: random context forests (plain,
multi and linked contexts nested up to depth 3, values including null,
exclusive registrations) are built with the real classes and every lookup is
compared with an independent reference: a context denotes a list of LAYERS,
nearest first; a variable is the value of the first layer that binds it
(null included), functions are gathered layer by layer until an exclusive
layer."""
import json
import random
import sys
import warnings
warnings.simplefilter('ignore')
from yaql.language import contexts, conventions, specs, utils

CONV = conventions.CamelCaseConvention()

NAMES = ['a', 'b', '$c', '', '$', '1']
FUNCS = ['f', 'g', 'hK']     # 'hK' is also reachable as h_k by convention


def norm(name):
    if not name.startswith('$'):
        name = '$' + name
    return '$1' if name == '$' else name


class Layer:
    def __init__(self, data=None, funcs=None, excl=None):
        self.data = dict(data or {})
        self.funcs = {k: set(v) for k, v in (funcs or {}).items()}
        self.excl = set(excl or ())


def gen(rnd, depth, fds):
    """-> spec tree"""
    kind = rnd.choice(['ctx', 'ctx', 'multi', 'linked']) if depth > 0 \
        else 'ctx'
    if kind == 'ctx':
        parent = gen(rnd, depth - 1, fds) if depth > 0 and rnd.random() < .7 \
            else None
        data = {n: rnd.choice([None, 0, 1, 'x']) for n in NAMES
                if rnd.random() < .35}
        funcs, excl = {}, set()
        for nm in FUNCS:
            pick = [fd for fd in fds[nm] if rnd.random() < .4]
            if pick:
                funcs[nm] = pick
                if rnd.random() < .3:
                    excl.add(nm)
        return ('ctx', parent, data, funcs, excl)
    if kind == 'multi':
        return ('multi', [gen(rnd, depth - 1, fds)
                          for _ in range(rnd.choice([1, 2, 3]))])
    return ('linked', gen(rnd, depth - 1, fds), gen(rnd, depth - 1, fds))


def build(spec):
    """-> (real context, reference layers)"""
    if spec is None:
        return None, []
    if spec[0] == 'ctx':
        _, parent, data, funcs, excl = spec
        p, pl = build(parent)
        c = contexts.Context(p, convention=CONV)
        for k, v in data.items():
            c[k] = v
        own = Layer()
        for k, v in data.items():
            own.data[norm(k)] = v
        for nm, fdl in funcs.items():
            for fd in fdl:
                c.register_function(fd, exclusive=nm in excl)
            own.funcs[nm] = set(fdl)
        own.excl = set(excl)
        return c, [own] + pl
    if spec[0] == 'multi':
        built = [build(s) for s in spec[1]]
        mc = contexts.MultiContext([b[0] for b in built])
        return mc, merge([b[1] for b in built])
    _, parent, linked = spec
    p, pl = build(parent)
    l, ll = build(linked)
    return contexts.LinkedContext(p, l), ll + pl


def merge(chains):
    """Members side by side: the k-th layers are merged (first member wins a
    variable, functions are united, exclusive if any member is)."""
    out = []
    for k in range(max(len(c) for c in chains)):
        lay = Layer()
        for c in chains:
            if k < len(c):
                for n, v in c[k].data.items():
                    lay.data.setdefault(n, v)
                for n, fs in c[k].funcs.items():
                    lay.funcs.setdefault(n, set()).update(fs)
                lay.excl |= c[k].excl
        out.append(lay)
    return out


def ref_get(layers, name, default):
    for lay in layers:
        if norm(name) in lay.data:
            return lay.data[norm(name)]
    return default


def ref_collect(layers, name, pred):
    out = []
    for lay in layers:
        fs = {f for f in lay.funcs.get(name, ()) if pred(f)}
        if fs:
            out.append(fs)
        if name in lay.excl:
            break
    return out


def main():
    import os
    n_forests = int(sys.argv[1]) if len(sys.argv) > 1 else (
        20000 if os.environ.get('VERIF_TIER') == 'thorough' else 1500)
    rnd = random.Random(20260917)
    fds = {}
    for nm in FUNCS:
        fds[nm] = []
        for i in range(3):
            def payload(x=None, _i=i):
                return _i
            payload.__name__ = '%s%d' % (nm, i)
            fds[nm].append(specs.get_function_definition(payload, name=nm))
    cases = 0
    for _ in range(n_forests):
        spec = gen(rnd, 3, fds)
        ctx, layers = build(spec)
        for name in NAMES:
            cases += 1
            got = ctx.get_data(name, 'DEFAULT')
            want = ref_get(layers, name, 'DEFAULT')
            if got != want or (got is None) != (want is None):
                return fail(cases, spec, 'get_data(%r)' % name, got, want)
            got, want = ctx[name], ref_get(layers, name, None)
            if got != want or (got is None) != (want is None):
                return fail(cases, spec, 'ctx[%r]' % name, got, want)
            got = ctx.get_data(name, 'DEFAULT', ask_parent=False)
            want = ref_get(layers[:1], name, 'DEFAULT')
            if got != want or (got is None) != (want is None):
                return fail(cases, spec, 'get_data(%r, ask_parent=False)'
                            % name, got, want)
            if (name in ctx) != (norm(name) in (layers[0].data
                                                if layers else {})):
                return fail(cases, spec, '%r in ctx' % name, name in ctx,
                            not (name in ctx))
        for nm in FUNCS:
            for pred in (lambda f: True, lambda f: f is fds[nm][0]):
                cases += 1
                got = [set(l) for l in ctx.collect_functions(
                    nm, (lambda fd, c, _p=pred: _p(fd)))]
                want = ref_collect(layers, nm, pred)
                if got != want:
                    return fail(cases, spec, 'collect_functions(%r)' % nm,
                                [sorted(f.payload.__name__ for f in l)
                                 for l in got],
                                [sorted(f.payload.__name__ for f in l)
                                 for l in want])
        # the python-style spelling resolves through the naming convention,
        # with the same layering and the same exclusiveness
        cases += 1
        got = [set(l) for l in ctx.collect_functions(
            'h_k', use_convention=True)]
        want = ref_collect(layers, 'hK', lambda f: True)
        if got != want:
            return fail(cases, spec, "collect_functions('h_k', "
                        "use_convention=True)",
                        [sorted(f.payload.__name__ for f in l) for l in got],
                        [sorted(f.payload.__name__ for f in l)
                         for l in want])
        if layers and set(ctx.keys()) != set(layers[0].data):
            return fail(cases, spec, 'keys()', sorted(ctx.keys()),
                        sorted(layers[0].data))
    print(json.dumps(dict(status='ok', cases=cases, forests=n_forests)))


def show(spec):
    if spec is None:
        return None
    if spec[0] == 'ctx':
        return dict(ctx=dict(data=spec[2], funcs={
            k: [f.payload.__name__ for f in v] for k, v in spec[3].items()},
            exclusive=sorted(spec[4]), parent=show(spec[1])))
    if spec[0] == 'multi':
        return dict(multi=[show(s) for s in spec[1]])
    return dict(linked=show(spec[2]), parent=show(spec[1]))


def fail(cases, spec, what, got, want):
    print(json.dumps(dict(status='failed', cases=cases, query=what,
                          observed=repr(got), expected=repr(want),
                          forest=show(spec)), default=str)[:3000])


main()
