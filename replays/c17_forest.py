"""BOUNDED stand-in / replay driver for C17: random context forests (plain,
multi and linked contexts nested up to depth 3, values including null,
exclusive registrations) are built with the real classes and every lookup is
compared with an independent reference: a context denotes a list of LAYERS,
nearest first; a variable is the value of the first layer that binds it
(null included), functions are gathered layer by layer until an exclusive
layer. Each forest is then driven through a HISTORY of writes (assignment,
deletion, child creation, registration - exclusive or not -, function
removal) on random contexts of the forest, and after every step every context
is compared with the reference again."""
import json
import random
import sys
import warnings
warnings.simplefilter('ignore')
from yaql.language import contexts, conventions, specs, utils

CONV = conventions.CamelCaseConvention()

NAMES = ['a', 'b', '$c', '', '$', '1']
FUNCS = ['f', 'g', 'hK']     # 'hK' is also reachable as h_k by convention


def norm(name):
    if not name.startswith('$'):
        name = '$' + name
    return '$1' if name == '$' else name


class Layer:
    def __init__(self, data=None, funcs=None, excl=None):
        self.data = dict(data or {})
        self.funcs = {k: set(v) for k, v in (funcs or {}).items()}
        self.excl = set(excl or ())


def gen(rnd, depth, fds):
    """-> spec tree"""
    kind = rnd.choice(['ctx', 'ctx', 'multi', 'linked']) if depth > 0 \
        else 'ctx'
    if kind == 'ctx':
        parent = gen(rnd, depth - 1, fds) if depth > 0 and rnd.random() < .7 \
            else None
        data = {n: rnd.choice([None, 0, 1, 'x']) for n in NAMES
                if rnd.random() < .35}
        funcs, excl = {}, set()
        for nm in FUNCS:
            pick = [fd for fd in fds[nm] if rnd.random() < .4]
            if pick:
                funcs[nm] = pick
                if rnd.random() < .3:
                    excl.add(nm)
        return ('ctx', parent, data, funcs, excl)
    if kind == 'multi':
        return ('multi', [gen(rnd, depth - 1, fds)
                          for _ in range(rnd.choice([1, 2, 3]))])
    return ('linked', gen(rnd, depth - 1, fds), gen(rnd, depth - 1, fds))


class Ref:
    """Reference denotation of one real context: a chain of GROUPS, nearest
    first; a group is the list of atomic layers that are merged side by side
    (one for a plain context, the members' for a multi-context)."""

    def __init__(self, kind, own=None, parent=None, members=None,
                 linked=None):
        self.kind, self.own, self.parent = kind, own, parent
        self.members, self.linked = members, linked

    def chain(self):
        if self.kind == 'ctx':
            return [[self.own]] + (self.parent.chain() if self.parent
                                   else [])
        if self.kind == 'multi':
            chains = [m.chain() for m in self.members]
            return [sum((c[k] for c in chains if k < len(c)), [])
                    for k in range(max(len(c) for c in chains))]
        return self.linked.chain() + (self.parent.chain() if self.parent
                                      else [])


KNOWN = []      # every (real context, Ref) of the forest under test


def build(spec):
    """-> (real context, Ref)"""
    if spec is None:
        return None, None
    if spec[0] == 'ctx':
        _, parent, data, funcs, excl = spec
        p, pr = build(parent)
        c = contexts.Context(p, convention=CONV)
        for k, v in data.items():
            c[k] = v
        own = Layer()
        for k, v in data.items():
            own.data[norm(k)] = v
        for nm, fdl in funcs.items():
            for fd in fdl:
                c.register_function(fd, exclusive=nm in excl)
            own.funcs[nm] = set(fdl)
        own.excl = set(excl)
        out = c, Ref('ctx', own=own, parent=pr)
    elif spec[0] == 'multi':
        built = [build(s) for s in spec[1]]
        out = (contexts.MultiContext([b[0] for b in built]),
               Ref('multi', members=[b[1] for b in built]))
    else:
        _, parent, linked = spec
        p, pr = build(parent)
        l, lr = build(linked)
        out = contexts.LinkedContext(p, l), Ref('linked', parent=pr,
                                                linked=lr)
    KNOWN.append(out)
    return out


def merge(chain):
    """Groups -> merged layers (first atomic layer wins a variable, functions
    are united, exclusive if any atomic layer is)."""
    out = []
    for group in chain:
        lay = Layer()
        for a in group:
            for n, v in a.data.items():
                lay.data.setdefault(n, v)
            for n, fs in a.funcs.items():
                lay.funcs.setdefault(n, set()).update(fs)
            lay.excl |= a.excl
        out.append(lay)
    return out


def ref_get(layers, name, default):
    for lay in layers:
        if norm(name) in lay.data:
            return lay.data[norm(name)]
    return default


def ref_collect(layers, name, pred):
    out = []
    for lay in layers:
        fs = {f for f in lay.funcs.get(name, ()) if pred(f)}
        if fs:
            out.append(fs)
        if name in lay.excl:
            break
    return out


def compare(ctx, ref, fds):
    """Every query of the property on one context against the reference;
    -> None or (query, observed, expected)."""
    layers = merge(ref.chain())
    for name in NAMES:
        got = ctx.get_data(name, 'DEFAULT')
        want = ref_get(layers, name, 'DEFAULT')
        if got != want or (got is None) != (want is None):
            return 'get_data(%r)' % name, got, want
        got, want = ctx[name], ref_get(layers, name, None)
        if got != want or (got is None) != (want is None):
            return 'ctx[%r]' % name, got, want
        got = ctx.get_data(name, 'DEFAULT', ask_parent=False)
        want = ref_get(layers[:1], name, 'DEFAULT')
        if got != want or (got is None) != (want is None):
            return 'get_data(%r, ask_parent=False)' % name, got, want
        if (name in ctx) != (norm(name) in (layers[0].data
                                            if layers else {})):
            return '%r in ctx' % name, name in ctx, not (name in ctx)
    names = lambda ls: [sorted(f.payload.__name__ for f in l)   # noqa: E731
                        for l in ls]
    for nm in FUNCS:
        for pred in (lambda f: True, lambda f: f is fds[nm][0]):
            got = [set(l) for l in ctx.collect_functions(
                nm, (lambda fd, c, _p=pred: _p(fd)))]
            want = ref_collect(layers, nm, pred)
            if got != want:
                return 'collect_functions(%r)' % nm, names(got), names(want)
        got = ctx.get_functions(nm)
        want = (layers[0].funcs.get(nm, set()), nm in layers[0].excl)
        if (set(got[0]), bool(got[1])) != want:
            return ('get_functions(%r)' % nm, (names([got[0]]), got[1]),
                    (names([want[0]]), want[1]))
    # the python-style spelling resolves through the naming convention,
    # with the same layering and the same exclusiveness
    got = [set(l) for l in ctx.collect_functions('h_k', use_convention=True)]
    want = ref_collect(layers, 'hK', lambda f: True)
    if got != want:
        return ("collect_functions('h_k', use_convention=True)", names(got),
                names(want))
    if layers and set(ctx.keys()) != set(layers[0].data):
        return 'keys()', sorted(ctx.keys()), sorted(layers[0].data)
    return None


def step(rnd, fds, log):
    """One operation of a history on a random context of the forest, applied
    to the real context and to the reference. -> None or a failure."""
    idx = rnd.randrange(len(KNOWN))
    ctx, ref = KNOWN[idx]
    group = ref.chain()[0]      # the context's own (possibly merged) layer
    op = rnd.choice(['set', 'set', 'del', 'child', 'register', 'register',
                     'delete_function', 'delete_function'])
    if op == 'set':
        name, v = rnd.choice(NAMES), rnd.choice([None, 0, 2, 'y'])
        log.append('ctx#%d[%r] = %r' % (idx, name, v))
        ctx[name] = v
        group[0].data[norm(name)] = v
    elif op == 'del':
        name = rnd.choice(NAMES)
        log.append('del ctx#%d[%r]' % (idx, name))
        bound = [a for a in group if norm(name) in a.data]
        try:
            del ctx[name]
            raised = False
        except KeyError:
            raised = True
        if raised != (not bound):
            return ('del ctx[%r]' % name,
                    'KeyError' if raised else 'no error',
                    'no error' if bound else 'KeyError')
        for a in bound:
            del a.data[norm(name)]
    elif op == 'child':
        log.append('ctx#%d.create_child_context() -> ctx#%d' % (
            idx, len(KNOWN)))
        child = ctx.create_child_context()
        if child.parent is not ctx:
            return 'create_child_context().parent', child.parent, ctx
        KNOWN.append((child, Ref('ctx', own=Layer(), parent=ref)))
    elif op == 'register':
        nm = rnd.choice(FUNCS)
        fd, excl = rnd.choice(fds[nm]), rnd.random() < .3
        log.append('ctx#%d.register_function(%s, exclusive=%s)' % (
            idx, fd.payload.__name__, excl))
        ctx.register_function(fd, exclusive=excl)
        group[0].funcs.setdefault(nm, set()).add(fd)
        if excl:
            group[0].excl.add(nm)
    else:
        nm = rnd.choice(FUNCS)
        fd = rnd.choice(fds[nm])
        log.append('ctx#%d.delete_function(%s)' % (idx, fd.payload.__name__))
        ctx.delete_function(fd)
        # (the statement does not say what a removal does to the exclusive
        # mark; the reference keeps the implemented rule: removing any
        # overload of a name lifts the layer's exclusiveness for it)
        for a in group:
            a.funcs.get(nm, set()).discard(fd)
            a.excl.discard(nm)
    return None


def main():
    import os
    n_forests = int(sys.argv[1]) if len(sys.argv) > 1 else (
        20000 if os.environ.get('VERIF_TIER') == 'thorough' else 1500)
    rnd = random.Random(20260917)
    fds = {}
    for nm in FUNCS:
        fds[nm] = []
        for i in range(3):
            def payload(x=None, _i=i):
                return _i
            payload.__name__ = '%s%d' % (nm, i)
            fds[nm].append(specs.get_function_definition(payload, name=nm))
    cases = 0
    steps = 6
    for _ in range(n_forests):
        del KNOWN[:]
        spec = gen(rnd, 3, fds)
        ctx, ref = build(spec)
        cases += 1
        bad = compare(ctx, ref, fds)
        if bad:
            return fail(cases, spec, [], *bad)
        # a history of writes on any context of the forest; after every step
        # every context of the forest is compared again
        log = []
        for _s in range(steps):
            try:
                bad = step(rnd, fds, log)
            except Exception as e:     # noqa
                bad = (log[-1], 'raised %s: %s' % (type(e).__name__, e),
                       'no error')
            if bad:
                return fail(cases, spec, log, *bad)
            for i, (c, r) in enumerate(KNOWN):
                cases += 1
                bad = compare(c, r, fds)
                if bad:
                    return fail(cases, spec, log, 'ctx#%d: %s' % (i, bad[0]),
                                bad[1], bad[2])
    print(json.dumps(dict(status='ok', cases=cases, forests=n_forests)))


def show(spec):
    if spec is None:
        return None
    if spec[0] == 'ctx':
        return dict(ctx=dict(data=spec[2], funcs={
            k: [f.payload.__name__ for f in v] for k, v in spec[3].items()},
            exclusive=sorted(spec[4]), parent=show(spec[1])))
    if spec[0] == 'multi':
        return dict(multi=[show(s) for s in spec[1]])
    return dict(linked=show(spec[2]), parent=show(spec[1]))


def fail(cases, spec, log, what, got, want):
    print(json.dumps(dict(status='failed', cases=cases, query=what,
                          observed=repr(got), expected=repr(want),
                          history=log, note='ctx#k: k-th context built, '
                          'inner contexts first (post-order); children are '
                          'appended', forest=show(spec)),
                     default=str)[:4000])


main()
