"""BOUNDED stand-in / replay driver for C08: an endless instrumented source
is fed to library functions under yaql.limitIterators = N; the evaluation
must terminate, pull at most N + 1 items from the source, and either raise
CollectionTooLargeException or return a result in which no collection has
more than N elements.  With yaql.memoryQuota = Q, expression chains that grow
strings / lists / dicts must raise MemoryQuotaExceededException (repetition:
before allocating) instead of returning an over-sized value."""
import json
import signal
import sys
import tracemalloc
import warnings
warnings.simplefilter('ignore')
import yaql
from yaql.language import exceptions


class Slow(BaseException):
    pass


def on_alarm(*a):
    raise Slow()


signal.signal(signal.SIGALRM, on_alarm)
try:
    import resource
    resource.setrlimit(resource.RLIMIT_AS, (6 << 30, 6 << 30))
except Exception:       # noqa
    pass


class Source:
    """An endless iterator counting what is pulled from it."""

    def __init__(self):
        self.pulled = 0

    def __iter__(self):
        return self

    def __next__(self):
        self.pulled += 1
        return self.pulled - 1


class View:
    """An endless host collection that can be iterated again (not an
    iterator): every walk counts on the same counter."""

    def __init__(self):
        self.pulled = 0

    def __iter__(self):
        while True:
            self.pulled += 1
            yield self.pulled - 1


EXPRS = [
    '$', '$.toList()', '$.len()', '$.sum()', '$.select($ + 1)',
    '$.where($ > 2)', '$.where($ < 0)', '$.orderBy($)', '$.reverse()',
    '$.distinct()', '$.toSet()', '$.last()', '$.max()', '$.min()',
    '$.groupBy($ mod 2)', '$.zip([1, 2])', '[1, 2].zip($)', '$.skip(2)', '$.skipWhile($ < 3)',
    '$.takeWhile($ >= 0)', '$.append(1)', '$.concat([1])', '[1].concat($)',
    '$.enumerate()', '$.accumulate($1 + $2)', '$.memorize()',
    '$.memorize().len()', '$.select([$, $])', '$.selectMany([$, $])',
    '$.delete(1)', '$.insert(1, 9)', '$.replace(1, 9)', '$.insertMany(1, [7])',
    '$.replaceMany(1, [7])', '$.slice(2)', '$.splitAt(2)',
    '$.sliceWhere($ mod 2 = 0)', '$.splitWhere($ mod 3 = 0)',
    '$.toDict($, 1)', '$.join([1], true, [$1, $2])', '[1].join($, true, $2)',
    '$.any($ < 0)', '$.all($ >= 0)', '$.count()', '$.indexOf(-1)',
    '$.lastIndexOf(1)', '$.indexWhere($ < 0)', '$.lastIndexWhere($ > 1)',
    '$.flatten()', 'list($)', 'set($)', 'dict($.select([$, $]))',
    '$.defaultIfEmpty([1])', '$.aggregate($1 + $2)', '$.cycle()',
    '$ + [1]', '$.contains(-1)', '-1 in $', '$.select($).select($).toList()',
    'let(x => $) -> $x.len()', 'generateMany(0, $src)',
    'generateMany(0, [$ + 1], decycle => true)', 'generate(0, true, $ + 1)',
    'sequence()', 'sequence().select($ * 2)', 'repeat(1)', '[1, 2].cycle()',
    'range(1000000).toList()', 'range(1000000).len()',
    '$.take(3).toList()', '$.where($ mod 1000 = 0).take(2)',
    # oversized collections as dict keys / set members of the result
    'dict([[[1, 2, 3, 4, 5, 6] * 2, 1]])', '{([1, 2, 3, 4, 5, 6] * 2) => 1}',
    'set([1, 2, 3, 4, 5, 6] * 2)', '[[1, 2, 3, 4, 5, 6] * 2]',
    '{a => [1, 2, 3, 4, 5, 6] * 2}',
    # producers handing generateMany a lazy stream
    'generateMany(0, $src, depthFirst => true)',
    'generateMany(0, [0].cycle(), decycle => true)',
    'generateMany(0, [0].cycle(), decycle => true, depthFirst => true)',
    'generateMany(0, $src.select(0), decycle => true)',
    # an endless stream that is an ELEMENT of the argument
    '[1, $].flatten()', '[1, [2, $]].flatten()', '[1, $].flatten().take(3)',
    '[1].select($src).flatten()', '[[1], $].selectMany($)',
    '[[1], $].selectMany($).take(3)', '[$].selectMany($).take(2)',
    '[1, $].select($).toList()', '[$, [1]].sum([])', 'list([1, $])',
    'list(1, $)', 'list([1, [2, $]])',
]
N = 10


def sizes(v, out, depth=0):
    if isinstance(v, (list, tuple, set, frozenset, dict)):
        out.append(len(v))
        for x in (v.values() if isinstance(v, dict) else v):
            sizes(x, out, depth + 1)
        if isinstance(v, dict):
            for x in v:
                sizes(x, out, depth + 1)


def main():
    engine = yaql.YaqlFactory().create(options={'yaql.limitIterators': N})
    cases, timed_out = 0, []
    for text in EXPRS:
        for kind in (Source, View):
            if kind is View and ('$src' in text or '$' not in text):
                continue
            cases += 1
            src = kind()
            ctx = yaql.create_context()
            src2 = Source()
            ctx['src'] = src2
            signal.alarm(5)
            try:
                res = engine(text).evaluate(data=src, context=ctx)
                outcome = 'value'
            except exceptions.CollectionTooLargeException:
                outcome, res = 'limit', None
            except exceptions.YaqlException as e:
                outcome, res = 'error:' + type(e).__name__, None
            except (Slow, MemoryError):
                signal.alarm(0)
                print(json.dumps(dict(
                    status='failed', cases=cases, expression=text,
                    limitIterators=N, detail='the evaluation did not '
                    'terminate within 5 s (pulled %d items so far)' % max(
                        src.pulled, src2.pulled))))
                return
            except (StopIteration, TypeError, ValueError, KeyError,
                    IndexError) as e:
                outcome, res = 'error:' + type(e).__name__, None
            finally:
                signal.alarm(0)
            pulled = max(src.pulled, src2.pulled)
            # take(k) style early exits may stop before the limit; nothing
            # may ever pull more than N + 1
            if pulled > N + 1 and '1000' not in text:
                print(json.dumps(dict(
                    status='failed', cases=cases, expression=text,
                    limitIterators=N, outcome=outcome,
                    detail='%d items were pulled from the endless source '
                           '(at most %d allowed)' % (pulled, N + 1))))
                return
            if outcome == 'value':
                sz = []
                sizes(res, sz)
                if sz and max(sz) > N:
                    print(json.dumps(dict(
                        status='failed', cases=cases, expression=text,
                        limitIterators=N, detail='the result contains a '
                        'collection of %d elements' % max(sz))))
                    return
    # ---- memory quota ------------------------------------------------------
    Q = 20000
    eng = yaql.YaqlFactory().create(options={'yaql.memoryQuota': Q})
    grow = ['"ab" * 100000', '100000 * "ab"', '[1, 2] * 100000',
            '100000 * [1, 2]', 'range(100000).toList()',
            '"a".join(range(3000).select(str($)))',
            'range(5000).select([$, $, $]).toList()',
            'range(2000).aggregate($1 + $2 * 0 + 1, 0) * "ab" * 1000',
            'dict(range(5000).select([$, $]))',
            'range(3000).toDict($, str($))',
            '"ab".replace("a", "a" * 50000)',
            'range(100000).select(str($)).sum("")',
            'range(100000).distinct().toList()',
            'range(100000).toSet()']
    big = "'" + 'a' * 40000 + "'"
    # a value larger than Q may not be PASSED ON to a function either
    must_refuse = ['len(%s)' % big, '%s = 1' % big, 'str(%s).len()' % big,
                   '[pow(2, 400000)].len()', 'str(pow(2, 400000)).len()']
    # dicts grown by accumulation: the yaql dict is a wrapper object, its
    # own size is that of its storage
    must_refuse += ['range(3000).aggregate($1.set($2, $2), {}).len()',
                    'range(3000).aggregate($1 + {$2 => $2}, {}).len()',
                    'dict(range(3000).select([$, $])).len()',
                    'range(3000).toDict($, $).keys().len()']
    grow += must_refuse + ['pow(2, 400000)', 'shiftBitsLeft(1, 400000)']
    for text in grow:
        cases += 1
        traced = '*' in text and 'aggregate' not in text
        if traced:
            tracemalloc.start()
        signal.alarm(20)
        try:
            res = eng(text).evaluate(context=yaql.create_context())
            outcome = 'value'
        except exceptions.MemoryQuotaExceededException:
            outcome, res = 'quota', None
        except exceptions.YaqlException as e:
            outcome, res = 'error:' + type(e).__name__, None
        except Slow:
            outcome, res = 'slow', None
        finally:
            signal.alarm(0)
            peak = 0
            if traced:
                peak = tracemalloc.get_traced_memory()[1]
                tracemalloc.stop()
        if text in must_refuse and outcome != 'quota':
            print(json.dumps(dict(
                status='failed', cases=cases, expression=text[:80],
                memoryQuota=Q, detail='a value larger than the quota was '
                'passed to a function: outcome %s' % outcome)))
            return
        if outcome == 'value' and sys.getsizeof(res) > Q:
            print(json.dumps(dict(
                status='failed', cases=cases, expression=text, memoryQuota=Q,
                detail='a value of %d bytes was returned' % sys.getsizeof(
                    res))))
            return
        if '*' in text and 'aggregate' not in text and outcome == 'quota' \
                and peak > 50 * Q:
            print(json.dumps(dict(
                status='failed', cases=cases, expression=text, memoryQuota=Q,
                detail='repetition allocated %d bytes before refusing'
                       % peak)))
            return
    print(json.dumps(dict(status='ok', cases=cases)))


main()
