"""Replay for C06: resolution outcome under every enumeration order of a
layer (Context subclass whose get_functions returns an ordered list)."""
import itertools
import json
import warnings
warnings.simplefilter('ignore')
import yaql
from yaql.language import contexts, specs, yaqltypes


class A:
    pass


class B:
    pass


class C(A, B):
    pass


class Ordered(contexts.Context):
    order = None

    def get_functions(self, name, predicate=None, use_convention=False):
        funcs, excl = super().get_functions(name, predicate, use_convention)
        if Ordered.order is None:
            return funcs, excl
        tagged = sorted(funcs, key=lambda fd: Ordered.order.index(
            fd.payload.__name__) if fd.payload.__name__ in Ordered.order
            else 99)
        return tagged, excl


def outcome(ctx, engine, expr, data):
    try:
        return ('value', engine(expr).evaluate(data=data, context=ctx))
    except Exception as e:      # noqa
        return ('error', type(e).__name__)


def main():
    engine = yaql.YaqlFactory().create()
    problems = []

    # 1. one overload more specific than two mutually incomparable ones
    @specs.parameter('x', C)
    def f1(x):
        return 'f1'

    @specs.parameter('x', A)
    def f2(x):
        return 'f2'

    @specs.parameter('x', B)
    def f3(x):
        return 'f3'
    seen = set()
    for perm in itertools.permutations(['f1', 'f2', 'f3']):
        ctx = Ordered(yaql.create_context())
        for f in (f1, f2, f3):
            ctx.register_function(f, name='foo')
        Ordered.order = list(perm)
        seen.add(outcome(ctx, engine, 'foo($)', C()))
    Ordered.order = None
    if len(seen) != 1:
        problems.append(dict(case='specific-over-two-incomparable',
                             outcomes=sorted(map(str, seen))))

    # 2. no_kwargs and ordinary overload in one layer, keyword call
    @specs.no_kwargs
    def g1(x):
        return 'g1'

    def g2(a):
        return 'g2'
    seen = set()
    for perm in itertools.permutations(['g1', 'g2']):
        ctx = Ordered(yaql.create_context())
        for f in (g1, g2):
            ctx.register_function(f, name='goo')
        Ordered.order = list(perm)
        seen.add(outcome(ctx, engine, 'goo(a => 1)', None))
    Ordered.order = None
    if len(seen) != 1:
        problems.append(dict(case='no_kwargs-mixed-layer',
                             outcomes=sorted(map(str, seen))))
    print(json.dumps(dict(status='failed' if problems else 'ok',
                          problems=problems)))


main()
