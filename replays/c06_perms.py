"""Replay for C06: resolution outcome under every enumeration order of a
layer (Context subclass whose get_functions returns an ordered list)."""
import itertools
import json
import warnings
warnings.simplefilter('ignore')
import yaql
from yaql.language import contexts, specs, yaqltypes


class A:
    pass


class B:
    pass


class C(A, B):
    pass


class Ordered(contexts.Context):
    order = None

    def get_functions(self, name, predicate=None, use_convention=False):
        funcs, excl = super().get_functions(name, predicate, use_convention)
        if Ordered.order is None:
            return funcs, excl
        tagged = sorted(funcs, key=lambda fd: Ordered.order.index(
            fd.payload.__name__) if fd.payload.__name__ in Ordered.order
            else 99)
        return tagged, excl


def outcome(ctx, engine, expr, data):
    try:
        return ('value', engine(expr).evaluate(data=data, context=ctx))
    except Exception as e:      # noqa
        return ('error', type(e).__name__)


def main():
    engine = yaql.YaqlFactory().create()
    problems = []

    # 1. one overload more specific than two mutually incomparable ones
    @specs.parameter('x', C)
    def f1(x):
        return 'f1'

    @specs.parameter('x', A)
    def f2(x):
        return 'f2'

    @specs.parameter('x', B)
    def f3(x):
        return 'f3'
    seen = set()
    for perm in itertools.permutations(['f1', 'f2', 'f3']):
        ctx = Ordered(yaql.create_context())
        for f in (f1, f2, f3):
            ctx.register_function(f, name='foo')
        Ordered.order = list(perm)
        seen.add(outcome(ctx, engine, 'foo($)', C()))
    Ordered.order = None
    if len(seen) != 1:
        problems.append(dict(case='specific-over-two-incomparable',
                             outcomes=sorted(map(str, seen))))

    # 2. no_kwargs and ordinary overload in one layer, keyword call
    @specs.no_kwargs
    def g1(x):
        return 'g1'

    def g2(a):
        return 'g2'
    seen = set()
    for perm in itertools.permutations(['g1', 'g2']):
        ctx = Ordered(yaql.create_context())
        for f in (g1, g2):
            ctx.register_function(f, name='goo')
        Ordered.order = list(perm)
        seen.add(outcome(ctx, engine, 'goo(a => 1)', None))
    Ordered.order = None
    if len(seen) != 1:
        problems.append(dict(case='no_kwargs-mixed-layer',
                             outcomes=sorted(map(str, seen))))
    # 3. systematic: every family of 2 and 3 two-parameter overloads over a
    # small pool of parameter types (a diamond of host classes, `object`,
    # and a lazy Lambda), positional and keyword call, every enumeration
    # order of the layer
    pool = dict(A=lambda: yaqltypes.PythonType(A), B=lambda: yaqltypes.
                PythonType(B), C=lambda: yaqltypes.PythonType(C),
                O=lambda: yaqltypes.PythonType(object),
                L=lambda: yaqltypes.Lambda())
    defs = {}
    for tx in pool:
        for tn in ('C', 'O', 'L'):
            def h(x, n, _t=tx + tn):
                return _t
            h.__name__ = 'h_' + tx + tn
            h = specs.parameter('x', pool[tx]())(h)
            h = specs.parameter('n', pool[tn]())(h)
            defs[h.__name__] = h
    names = sorted(defs)
    fams = list(itertools.combinations(names, 2)) + \
        list(itertools.combinations(names, 3))
    base = yaql.create_context()
    for fam in fams:
        for expr in ('hoo($, $)', 'hoo($, n => $)'):
            seen = set()
            for perm in itertools.permutations(fam):
                ctx = Ordered(base)
                for f in fam:
                    ctx.register_function(defs[f], name='hoo')
                Ordered.order = list(perm)
                seen.add(outcome(ctx, engine, expr, C()))
            Ordered.order = None
            if len(seen) != 1:
                problems.append(dict(case='family', overloads=list(fam),
                                     expression=expr,
                                     outcomes=sorted(map(str, seen))))
                break
        if len(problems) >= 5:
            break
    # 4. a merged layer (MultiContext): ONE implementation registered with
    # different parameter declarations in different members (and twice in
    # one member); every order of the members, every enumeration order
    def impl(x):
        return type(x).__name__

    def variant(t, tag):
        fd = specs.get_function_definition(
            impl, parameter_type_func=lambda n: yaqltypes.PythonType(
                t, False))
        fd.name = 'moo'
        fd.meta['tag'] = tag
        return fd
    for value, text in ((True, 'moo(true)'), (3, 'moo(3)'),
                        ('s', "moo('s')")):
        seen = set()
        for perm in itertools.permutations([(bool, 'b'), (int, 'i'),
                                            (object, 'o')]):
            for split in (1, 2):
                members = []
                for group in (perm[:split], perm[split:]):
                    m = contexts.Context(base)
                    for t, tag in group:
                        m.register_function(variant(t, tag))
                    members.append(m)
                ctx = contexts.MultiContext(members)
                fds = ctx.get_functions('moo')[0]
                if len(fds) != 3:
                    problems.append(dict(
                        case='merged-layer-shared-payload', expression=text,
                        detail='the merged layer holds %d of the 3 '
                               'registered overloads' % len(fds)))
                    break
                seen.add(outcome(ctx, engine, text, None))
            else:
                continue
            break
        if len(seen) > 1:
            problems.append(dict(case='merged-layer-shared-payload',
                                 expression=text,
                                 outcomes=sorted(map(str, seen))))
    print(json.dumps(dict(status='failed' if problems else 'ok',
                          families=len(fams), problems=problems)))


main()
