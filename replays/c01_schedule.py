"""Native replay driver for C01: deterministic token-granularity schedules of
2 concurrent parses on ONE engine + sequential histories, compared with a
fresh engine per text.  Prints one JSON object."""
import itertools
import json
import sys
import threading

import yaql
from ply import lex
from yaql.language import exceptions

TEXTS = ['1 + 2 * 3', 'foo(a, b).bar', '[1, 2) + 40', '$.x > 1 and not $y',
         '', '10 20 + 3', "'a\\tb' + `c`", '1 + ? 2']


def outcome(engine, text):
    try:
        return ('tree', str(engine(text)))
    except exceptions.YaqlParsingException as e:
        return ('error', type(e).__name__, str(e))
    except Exception as e:      # noqa
        return ('foreign', type(e).__name__, str(e))


def fresh(text):
    return outcome(yaql.YaqlFactory().create(), text)


def run_schedule(texts, schedule):
    """schedule: sequence of thread indexes; a thread runs only when it is its
    turn at a token fetch."""
    engine = yaql.YaqlFactory().create()
    n = len(texts)
    turn = threading.Condition()
    state = dict(pos=0, done=[False] * n)
    results = [None] * n
    local = threading.local()
    real_token = lex.Lexer.token

    def token(self):
        i = getattr(local, 'idx', None)
        if i is not None:
            with turn:
                while True:
                    live = [k for k in range(n) if not state['done'][k]]
                    if live == [i]:
                        break
                    while state['pos'] < len(schedule) and \
                            state['done'][schedule[state['pos']]]:
                        state['pos'] += 1
                    if state['pos'] >= len(schedule):
                        break
                    if schedule[state['pos']] == i:
                        state['pos'] += 1
                        turn.notify_all()
                        break
                    if not turn.wait(timeout=5):
                        break
        return real_token(self)

    def worker(i):
        local.idx = i
        results[i] = outcome(engine, texts[i])
        with turn:
            state['done'][i] = True
            turn.notify_all()

    lex.Lexer.token = token
    try:
        ts = [threading.Thread(target=worker, args=(i,)) for i in range(n)]
        for t in ts:
            t.start()
        for t in ts:
            t.join(30)
    finally:
        lex.Lexer.token = real_token
    return results


def main():
    expect = {t: fresh(t) for t in TEXTS}
    # sequential histories on one engine
    engine = yaql.YaqlFactory().create()
    for a, b in itertools.permutations(TEXTS, 2):
        outcome(engine, a)
        got = outcome(engine, b)
        if got != expect[b]:
            print(json.dumps(dict(status='failed', kind='history',
                                  history=[a, b], got=got,
                                  expected=expect[b])))
            return
    pairs = [(TEXTS[0], TEXTS[1]), (TEXTS[1], TEXTS[3]), (TEXTS[0], TEXTS[2])]
    for a, b in pairs:
        for k in range(1, 7):
            for sched in ([0] * k + [1] * 8 + [0] * 8,
                          [0, 1] * 8, [1] * k + [0] * 8 + [1] * 8):
                got = run_schedule([a, b], sched)
                if got[0] != expect[a] or got[1] != expect[b]:
                    print(json.dumps(dict(
                        status='failed', kind='schedule', texts=[a, b],
                        schedule=sched, got=got,
                        expected=[expect[a], expect[b]])))
                    return
    print(json.dumps(dict(status='ok', histories=len(TEXTS) * (len(TEXTS) - 1),
                          schedules=len(pairs) * 18)))


if __name__ == '__main__':
    import warnings
    warnings.simplefilter('ignore')
    main()
