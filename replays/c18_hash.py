"""Replay for C18 (benign-cache contract of FrozenDict.__hash__): a second
thread hashes a shared FrozenDict while the first is in the middle of
computing the hash; both must obtain the sequential value."""
import json
import threading
import warnings
warnings.simplefilter('ignore')
from yaql.language import utils


class Key:
    def __init__(self, n, gate=None):
        self.n, self.gate = n, gate

    def __hash__(self):
        if self.gate is not None:
            g, self.gate = self.gate, None
            g['entered'].set()
            g['resume'].wait(5)
        return hash(('k', self.n))

    def __eq__(self, o):
        return isinstance(o, Key) and o.n == self.n


def main():
    seq = hash(utils.FrozenDict({Key(1): 1, Key(2): 2, Key(3): 3}))
    gate = dict(entered=threading.Event(), resume=threading.Event())
    k2 = Key(2)
    fd = utils.FrozenDict({Key(1): 1, k2: 2, Key(3): 3})
    k2.gate = gate      # armed after construction (dict insertion hashes too)
    out = {}

    def first():
        out['a'] = hash(fd)
    t = threading.Thread(target=first)
    t.start()
    gate['entered'].wait(5)
    out['b'] = hash(fd)         # concurrent reader, mid-computation
    gate['resume'].set()
    t.join(5)
    ok = out.get('a') == seq and out.get('b') == seq
    print(json.dumps(dict(status='ok' if ok else 'failed', sequential=seq,
                          first_thread=out.get('a'),
                          concurrent_reader=out.get('b'))))


main()
