"""BOUNDED stand-in / replay driver for C10: expressions producing every kind
of value the library returns (tuples, frozen dicts, frozensets, dict views,
generators, ordering objects, nested in each other) are evaluated through
every public entry point under the 4 combinations of the output options; the
finalised result must consist of plain data only.  Containers used as dict
keys / set members are left out (known finding: finalisation cannot
succeed there)."""
import itertools
import json
import sys
import warnings
warnings.simplefilter('ignore')
import yaql
from yaql.language import exceptions, utils

DOC = {'a': [1, 2, {'b': (3, 4)}], 'c': {'d': None, 'e': [True, 2.5, 'x']},
       's': 'text', 'n': 7, 'l': [[1, [2, [3]]], {'k': [1]}]}
EXPRS = [
    '$', '$.a', '$.c', '$.l', '[1, 2, 3]', '[[1], [2, [3]]]', '{a => 1}',
    '{a => [1, {b => 2}]}', '[{a => 1}, {b => 2}]', '[$.c, 7]',
    '{k => [{a => 1}]}', 'dict(a => 1, b => [2])', '[1,2].select($ + 1)',
    '[1,2].where($ > 1)', '[3,1,2].orderBy($)', '[3,1,2].orderBy($).thenBy($)',
    '[[1,2],[3,4]].select($.select($ * 2))', 'range(3)', 'range(0, 4, 2)',
    '[1,2,2].distinct()', '[1,2,3].skip(1)', '[1,2,3].take(2)',
    '$.c.keys()', '$.c.values()', '{a => 1}.keys()', '{a => 1}.values()',
    'set(1, 2)', '[1,2].toSet()', 'set(1,2).union(set(3))',
    '[set(1), set(2)]', '{a => set(1, 2)}', '[1,2].zip([3,4])',
    '[[1,2],[3]].selectMany($)', '[1,2,3].groupBy($ mod 2)',
    '[1,2].join([1,2], $1 = $2, [$1, $2])', '[1,2,3].splitAt(1)',
    '[1,2,3,4].sliceWhere($ mod 2 = 0)', '[1,2,3].splitWhere($ = 2)',
    '{a => 1}.set(b, [2])', '{a => 1} + {b => {c => [1]}}',
    '{a => {b => 1}}.mergeWith({a => {c => 2}})', '[1,2].memorize()',
    '[1, 2].select([$, [$]])', '[1,2].accumulate($1 + $2)',
    '[1,2].enumerate()', '[1,2].reverse()', '"a b".split(" ")',
    '{a => 1}.toList()' , '[[a, 1]].toDict($[0], $[1])',
    'let(x => [1, {y => (2)}]) -> $x', '[1,2].toList()', 'list(1, [2].select($))',
    '[1,2].concat([3])', '[1].append(2, [3])', '[1,2,3].delete(1)',
    '[1,2,3].insert(1, [9])', '[1,2,3].replace(1, {a => (1)})',
    '[1,2].generate(false, $)' , 'generate(1, $ < 3, $ + 1)',
    '[1, 2].select({a => $, b => [$]})', '{a => 1}.items()'.replace('.items()', '.keys()'),
]


def plain(v, tuples_ok, sets_ok, path='result'):
    if v is None or isinstance(v, (bool, int, float, str)):
        return None
    if type(v) is dict:
        for k, x in v.items():
            r = plain(k, tuples_ok, sets_ok, path + '<key>') or plain(
                x, tuples_ok, sets_ok, '%s[%r]' % (path, k))
            if r:
                return r
        return None
    if type(v) is list or (tuples_ok and type(v) is tuple) or (
            sets_ok and type(v) is set):
        for i, x in enumerate(v):
            r = plain(x, tuples_ok, sets_ok, '%s[%d]' % (path, i))
            if r:
                return r
        return None
    return '%s is a %s' % (path, type(v).__module__ + '.' + type(v).__name__)


def main():
    cases = 0
    skipped = set()
    for tl, sl in itertools.product((True, False), repeat=2):
        opts = {'yaql.convertTuplesToLists': tl,
                'yaql.convertSetsToLists': sl}
        engine = yaql.YaqlFactory().create(options=opts)
        for text in EXPRS:
            for entry in ('evaluate', 'interface'):
                cases += 1
                ctx = yaql.create_context(
                    convert_tuples_to_lists=tl, convert_sets_to_lists=sl) \
                    if False else yaql.create_context()
                try:
                    if entry == 'evaluate':
                        res = engine(text).evaluate(data=DOC, context=ctx)
                    else:
                        yi = __import__(
                            'yaql.yaql_interface', fromlist=['x']
                        ).YaqlInterface(ctx, engine)
                        ctx['$'] = utils.convert_input_data(DOC)
                        res = yi(text)
                except exceptions.YaqlException:
                    skipped.add(text)   # not a succeeding expression
                    continue
                except Exception as e:      # noqa
                    print(json.dumps(dict(
                        status='failed', cases=cases, expression=text,
                        options=opts, entry=entry,
                        detail='finalisation / evaluation raised %s: %s' % (
                            type(e).__name__, str(e)[:200]))))
                    return
                bad = plain(res, not tl, not sl)
                if bad:
                    print(json.dumps(dict(
                        status='failed', cases=cases, expression=text,
                        options=opts, entry=entry, detail=bad)))
                    return
                # the same statement again: an equal result (C09 reuse)
        # `$` round trip: an equal document
        for doc in (DOC, [DOC, (1, (2,))], {'x': {1, 2}} if sl else [1]):
            cases += 1
            res = engine('$').evaluate(data=doc,
                                       context=yaql.create_context())
            want = json.loads(json.dumps(doc, default=list)) if not (
                isinstance(doc, dict) and 'x' in doc) else {'x': [1, 2]}
            norm = json.loads(json.dumps(res, default=sorted))
            if norm != json.loads(json.dumps(want, default=sorted)) and tl:
                print(json.dumps(dict(
                    status='failed', cases=cases, expression='$',
                    options=opts, detail='round trip: %r -> %r' % (doc, res))
                    [:1500]))
                return
    # host sets of either kind (set / frozenset) round-trip as sets: a set
    # when sets are kept, a list of the same members when they are converted
    for tl, sl in itertools.product((True, False), repeat=2):
        eng = yaql.YaqlFactory().create(options={
            'yaql.convertTuplesToLists': tl, 'yaql.convertSetsToLists': sl})
        for mk in (lambda: {1, 2, 3}, lambda: frozenset({1, 2, 3}),
                   lambda: {'x': frozenset({'a'})}, lambda: [frozenset()],
                   lambda: {'x': {'k': 1}.keys()}):
            cases += 1
            doc = mk()
            res = eng('$').evaluate(data=doc, context=yaql.create_context())

            def canon(v):
                if isinstance(v, (set, frozenset)) or type(v).__name__ in (
                        'dict_keys',):
                    return sorted(canon(t) for t in v) if sl else set(
                        canon(t) for t in v)
                if isinstance(v, dict):
                    return {k: canon(x) for k, x in v.items()}
                if isinstance(v, list):
                    return [canon(t) for t in v] if tl else tuple(
                        canon(t) for t in v)
                return v

            def same(a, b):
                if type(a) is not type(b):
                    return False
                if isinstance(a, dict):
                    return a.keys() == b.keys() and all(
                        same(a[k], b[k]) for k in a)
                if isinstance(a, (list, tuple)):
                    return len(a) == len(b) and (
                        sorted(map(repr, a)) == sorted(map(repr, b)))
                return a == b
            want = canon(doc)
            if not same(res, want):
                print(json.dumps(dict(
                    status='failed', cases=cases, expression='$',
                    options={'yaql.convertTuplesToLists': tl,
                             'yaql.convertSetsToLists': sl},
                    document=repr(doc),
                    detail='round trip of a host set gave %r, expected %r'
                           % (res, want))))
                return
    engine = yaql.YaqlFactory().create()
    # falsy documents are documents too
    for doc in (0, '', [], {}, False, 0.0, ()):
        cases += 1
        res = engine('$').evaluate(data=doc, context=yaql.create_context())
        want = [] if doc == () else doc
        res2 = engine('$').evaluate(context=yaql.create_context(data=doc))
        if res2 != want or type(res2) is not type(want):
            res = res2
        if res != want or type(res) is not type(want):
            print(json.dumps(dict(status='failed', cases=cases,
                                  expression='$', document=repr(doc),
                                  detail='round trip gave %r' % (res,))))
            return
    # documents that are produced on the fly (generators of containers)
    for mk, want in ((lambda: ([i, i + 1] for i in range(6)),
                      [[i, i + 1] for i in range(6)]),
                     (lambda: {'g': ({'k': [i]} for i in range(6))},
                      {'g': [{'k': [i]} for i in range(6)]})):
        cases += 1
        res = engine('$').evaluate(data=mk(), context=yaql.create_context())
        if res != want:
            print(json.dumps(dict(status='failed', cases=cases,
                                  expression='$', document='generator',
                                  detail=('round trip gave %r, expected %r'
                                          % (res, want))[:1200])))
            return
    # function / method style calls through a YaqlInterface
    from yaql import yaql_interface
    for tl, sl in itertools.product((True, False), repeat=2):
        eng = yaql.YaqlFactory().create(options={
            'yaql.convertTuplesToLists': tl, 'yaql.convertSetsToLists': sl})
        yi = yaql_interface.YaqlInterface(yaql.create_context(), eng)
        for label, call in (
                ('yi.on(d).set(k, v)', lambda: yi.on({'a': [1]}).set(
                    'b', (2, 3))),
                ('yi.dict(...)', lambda: yi.dict(a=[1, (2,)])),
                ('yi.on(d).deleteAll(keys)', lambda: yi.on(
                    {'a': (1,), 'b': 2}).deleteAll(['b'])),
                ('yi.list(...)', lambda: yi.list(1, (2, 3))),
                ('yi.on(l).select(...)', lambda: yi.on([1, 2]).toList())):
            cases += 1
            try:
                res = call()
            except exceptions.YaqlException:
                continue
            bad = plain(res, not tl, not sl)
            if bad:
                print(json.dumps(dict(
                    status='failed', cases=cases, expression=label,
                    options=dict(tuples=tl, sets=sl), detail=bad)))
                return
    # one parsed statement, many contexts: finalisation is decided by the
    # context of each evaluation, whatever the statement saw before
    from yaql.language import contexts as C
    for first_bare in (True, False):
        cases += 1
        st = engine('[1, 2].select({a => [$]})')
        bare = C.Context()
        import yaql.standard_library as _sl  # noqa
        full = yaql.create_context()
        bare_ctx = yaql.create_context().create_child_context()
        order = [('bare', None), ('full', full)] if first_bare else \
            [('full', full), ('bare', None)]
        for label, cx in order:
            if cx is None:
                # a hand-assembled context without '#finalize': raw values
                # are expected there and must not poison later evaluations
                cx = C.Context()
                from yaql.standard_library import (queries, collections,
                                                   system, common)
                for m in (queries, collections, system, common):
                    m.register(cx) if m is not system else m.register(
                        cx, True)
                try:
                    st.evaluate(context=cx)
                except Exception:       # noqa
                    pass
                continue
            res = st.evaluate(context=cx)
            bad = plain(res, False, False)
            if bad:
                print(json.dumps(dict(
                    status='failed', cases=cases,
                    expression='[1, 2].select({a => [$]})',
                    history=[o[0] for o in order], detail=bad)))
                return
    print(json.dumps(dict(status='ok', cases=cases,
                          invalid_expressions=sorted(skipped))))


main()
