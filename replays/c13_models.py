"""BOUNDED stand-in for the collection/query functions that are not (fully)
under a deductive contract: every expression below is evaluated by the real
library on all small inputs and compared with an independent Python model of
its documented meaning.  Bound: collections of length <= 3 over {0,1,2} (as
tuple and as one-shot iterator), integer arguments in [-1, 3].
Prints one JSON object: {"status": "ok"|"failed", ...}."""
import functools
import itertools
import json
import sys
import warnings
warnings.simplefilter('ignore')
import yaql

ENGINE = yaql.YaqlFactory().create(options={
    'yaql.convertTuplesToLists': True, 'yaql.convertSetsToLists': False})
CTX = yaql.create_context()


def ev(expr, data):
    try:
        return ('ok', ENGINE(expr).evaluate(data=data,
                                            context=CTX.create_child_context()))
    except Exception as e:      # noqa
        return ('error', type(e).__name__)


def model(fn, *a):
    try:
        r = fn(*a)
        return ('ok', r)
    except StopIteration:
        return ('error', 'StopIteration')
    except Exception as e:      # noqa
        return ('error', type(e).__name__)


def norm(x):
    if isinstance(x, tuple):
        return [norm(t) for t in x]
    if isinstance(x, list):
        return [norm(t) for t in x]
    if isinstance(x, dict):
        return {k: norm(v) for k, v in x.items()}
    return x


import os
THOROUGH = os.environ.get('VERIF_TIER') == 'thorough'
COLLS = [tuple(p) for n in range(0, 5 if THOROUGH else 4)
         for p in itertools.product((0, 1, 2), repeat=n)]
PAIRS = [tuple(p) for n in range(0, 4)
         for p in itertools.product(((0, 'a'), (1, 'b'), (0, 'c'), (1, 'd')),
                                    repeat=n)]
INTS = [-1, 0, 1, 2, 3]


def stable_sort(data, keys):
    """keys: list of (keyfunc, ascending). Stable lexicographic sort."""
    def cmp(a, b):
        for kf, asc in keys:
            x, y = kf(a), kf(b)
            if x < y:
                return -1 if asc else 1
            if x > y:
                return 1 if asc else -1
        return 0
    return sorted(data, key=functools.cmp_to_key(cmp))


def group_by(data, kf, vf=lambda x: x):
    out = {}
    for t in data:
        out.setdefault(kf(t), []).append(vf(t))
    return [[k, v] for k, v in out.items()]


def distinct(data, kf=lambda x: x):
    seen, out = set(), []
    for t in data:
        if kf(t) not in seen:
            seen.add(kf(t))
            out.append(t)
    return out


def split_where(data, pred):
    out, cur = [], []
    for t in data:
        if pred(t):
            out.append(cur)
            cur = []
        else:
            cur.append(t)
    # the library drops a trailing empty part
    if cur or (data and not pred(data[-1])):
        out.append(cur)
    return [list(x) for x in out]


def slice_where(data, pred):
    out = []
    for t in data:
        p = pred(t)
        if out and out[-1][0] == p:
            out[-1][1].append(t)
        else:
            out.append((p, [t]))
    return [x[1] for x in out]


def replace_range(d, position, count, values):
    d = list(d)
    hit = [i for i in range(len(d)) if (
        position <= i < position + count if count >= 0 else i >= position)]
    if not hit:
        return d
    return d[:hit[0]] + list(values) + d[hit[-1] + 1:]


def accumulate(data, fn, *seed):
    it = iter(data)
    if not seed:
        try:
            total = next(it)
        except StopIteration:
            raise TypeError('empty')
    else:
        total = seed[0]
    out = [total]
    for x in it:
        total = fn(total, x)
        out.append(total)
    return out


# (name, expression, model over the document, family of documents)
CASES = [
    ('orderBy', '$.orderBy($[0])',
     lambda d: stable_sort(d, [(lambda t: t[0], True)]), PAIRS),
    ('orderByDescending', '$.orderByDescending($[0])',
     lambda d: stable_sort(d, [(lambda t: t[0], False)]), PAIRS),
    ('orderBy.thenBy', '$.orderBy($[0]).thenBy($[1])',
     lambda d: stable_sort(d, [(lambda t: t[0], True),
                               (lambda t: t[1], True)]), PAIRS),
    ('orderBy.thenByDescending', '$.orderBy($[0]).thenByDescending($[1])',
     lambda d: stable_sort(d, [(lambda t: t[0], True),
                               (lambda t: t[1], False)]), PAIRS),
    ('orderByDescending.thenByDescending',
     '$.orderByDescending($[0]).thenByDescending($[0])',
     lambda d: stable_sort(d, [(lambda t: t[0], False)]), PAIRS),
    ('groupBy', '$.groupBy($[0], $[1])',
     lambda d: group_by(d, lambda t: t[0], lambda t: t[1]), PAIRS),
    ('groupBy/agg', '$.groupBy($[0], $[1], $.len())',
     lambda d: [[k, len(v)] for k, v in group_by(
         d, lambda t: t[0], lambda t: t[1])], PAIRS),
    ('distinct', '$.distinct()', lambda d: distinct(d), COLLS),
    ('distinct/key', '$.distinct($ mod 2)',
     lambda d: distinct(d, lambda x: x % 2), COLLS),
    ('selectMany', '$.selectMany([$, $ + 1])',
     lambda d: [y for x in d for y in (x, x + 1)], COLLS),
    ('where', '$.where($ > 0)', lambda d: [x for x in d if x > 0], COLLS),
    ('select', '$.select($ * 2)', lambda d: [x * 2 for x in d], COLLS),
    ('reverse', '$.reverse()', lambda d: list(reversed(d)), COLLS),
    ('sum', '$.sum(10)', lambda d: sum(d, 10), COLLS),
    ('takeWhile', '$.takeWhile($ < 2)',
     lambda d: list(itertools.takewhile(lambda x: x < 2, d)), COLLS),
    ('skipWhile', '$.skipWhile($ < 2)',
     lambda d: list(itertools.dropwhile(lambda x: x < 2, d)), COLLS),
    ('splitWhere', '$.splitWhere($ = 1)',
     lambda d: split_where(list(d), lambda x: x == 1), COLLS),
    ('sliceWhere', '$.sliceWhere($ = 1)',
     lambda d: slice_where(list(d), lambda x: x == 1), COLLS),
    ('accumulate', '$.accumulate($1 + $2)',
     lambda d: accumulate(d, lambda a, b: a + b), COLLS),
    ('accumulate/seed', '$.accumulate($1 + $2, 5)',
     lambda d: accumulate(d, lambda a, b: a + b, 5), COLLS),
    # merging a dict with an EQUAL dict still merges: lists are united
    # (duplicates dropped), custom mergers are applied
    ('mergeWith/equal', 'let(x => $.toList()) -> '
     'dict(a => $x, b => dict(c => $x))'
     '.mergeWith(dict(a => $x, b => dict(c => $x)))',
     lambda d: {'a': distinct(list(d) + list(d)),
                'b': {'c': distinct(list(d) + list(d))}},
     [c for c in COLLS]),
    ('mergeWith/equal/custom',
     'let(x => $.toList()) -> '
     'dict(a => $x).mergeWith(dict(a => $x), $1 + $2)',
     lambda d: {'a': list(d) + list(d)}, COLLS),
    # results are values: usable as set members, dict keys, distinct keys
    ('groupBy.distinct', '$.groupBy($ mod 2).distinct()',
     lambda d: [[k, [x for x in d if x % 2 == k]]
                for k in distinct([x % 2 for x in d])], COLLS),
    ('insert.toSet', '[$.toList().insert(0, 9)].toSet().len()',
     lambda d: 1, COLLS),
    ('toDict.toSet', '[$.toDict($, 1)].toSet().len()',
     lambda d: 1, COLLS),
    # a null seed / a null first element is a value like any other
    ('accumulate/null-seed', '$.accumulate([$1, $2], null)',
     lambda d: accumulate(d, lambda a, b: [a, b], None), COLLS),
    ('accumulate/null-first', '[null].concat($).accumulate([$1, $2])',
     lambda d: accumulate((None,) + tuple(d), lambda a, b: [a, b]), COLLS),
    ('aggregate/null-seed', '$.aggregate([$1, $2], null)',
     lambda d: functools.reduce(lambda a, b: [a, b], d, None), COLLS),
    ('zip', '$.zip($.select($ + 5))',
     lambda d: [[x, x + 5] for x in d], COLLS),
    ('join', '$.join($, $1 >= $2, [$1, $2])',
     lambda d: [[a, b] for a in d for b in d if a >= b], COLLS),
    ('toSet.union', '$.toSet().union(set(1, 5))',
     lambda d: set(d) | {1, 5}, COLLS),
    ('len', '$.len()', lambda d: len(d), COLLS),
    ('max', '$.max(-5)', lambda d: max(list(d) + [-5]), COLLS),
    ('toDict', '$.toDict($, $ + 1)', lambda d: {x: x + 1 for x in d}, COLLS),
    ('mergeWith', 'dict(a => $.toList(), b => 1).mergeWith(dict(a => [7], c => 2))',
     lambda d: {'a': distinct(list(d) + [7]), 'b': 1, 'c': 2}, COLLS),
    ('memorize/interleaved',
     'let(m => $.memorize()) -> $m.zip($m.skip(1))',
     lambda d: [[d[i], d[i + 1]] for i in range(len(d) - 1)], COLLS),
    ('memorize/twice', 'let(m => $.memorize()) -> [$m.len(), $m.sum(0)]',
     lambda d: [len(d), sum(d)], COLLS),
    ('generate', 'generate(0, $ < 3, $ + 1)', lambda d: [0, 1, 2], [()]),
    ('generateMany', 'generateMany(1, [$ + 1].where($ < 4))',
     lambda d: [1, 2, 3], [()]),
    ('defaultIfEmpty', '$.defaultIfEmpty([9])',
     lambda d: list(d) if d else [9], COLLS),
]
INT_CASES = [
    ('skip', '$[0].skip($[1])', lambda d, n: list(d[max(n, 0):])
     if n >= 0 else 'skip'),
    ('limit', '$[0].limit($[1])', lambda d, n: list(d[:n])
     if n >= 0 else 'skip'),
    ('slice', '$[0].slice($[1])',
     lambda d, n: [list(d[i:i + n]) for i in range(0, len(d), n)]
     if n > 0 else 'skip'),
    ('splitAt', '$[0].splitAt($[1])', lambda d, n: [list(d[:n]),
                                                    list(d[n:])]),
    ('delete', '$[0].delete($[1], 2)',
     lambda d, n: list(d[:n]) + list(d[n + 2:]) if n >= 0 else 'skip'),
    ('insert', '$[0].insert($[1], 9)',
     lambda d, n: list(d[:n]) + [9] + list(d[n:]) if n >= 0 else 'skip'),
    ('replace', '$[0].replace($[1], 9)',
     lambda d, n: (list(d[:n]) + [9] + list(d[n + 1:])) if 0 <= n < len(d)
     else (list(d) if n >= 0 else 'skip')),
    # replace(position, value, count): the elements with an index in
    # [position, position + count) - all from position on for a negative
    # count - give way to ONE value, wherever that range lies
    ('replace/count=2', '$[0].replace($[1], 9, 2)',
     lambda d, n: replace_range(d, n, 2, [9])),
    ('replace/count=-1', '$[0].replace($[1], 9, -1)',
     lambda d, n: replace_range(d, n, -1, [9])),
    ('replace/count=0', '$[0].replace($[1], 9, 0)',
     lambda d, n: replace_range(d, n, 0, [9])),
    ('replaceMany/count=2', '$[0].replaceMany($[1], [8, 9], 2)',
     lambda d, n: replace_range(d, n, 2, [8, 9])),
    ('replaceMany/count=-1', '$[0].replaceMany($[1], [8, 9], -1)',
     lambda d, n: replace_range(d, n, -1, [8, 9])),
    ('indexOf', '$[0].indexOf($[1])',
     lambda d, n: list(d).index(n) if n in d else -1),
    ('lastIndexOf', '$[0].lastIndexOf($[1])',
     lambda d, n: max([i for i, x in enumerate(d) if x == n] or [-1])),
]


def main():
    total = 0
    for name, expr, fn, docs in CASES:
        for d in docs:
            for as_iter in (False, True):
                if as_iter and name in ('zip', 'join'):
                    continue    # `$` is used twice: not a one-shot source
                data = iter(d) if as_iter else d
                got = ev(expr, data)
                exp = model(fn, d)
                total += 1
                if got[0] != exp[0] or (got[0] == 'ok' and
                                        norm(got[1]) != norm(exp[1])):
                    print(json.dumps(dict(
                        status='failed', case=name, expression=expr,
                        data=repr(d), one_shot_iterator=as_iter,
                        got=repr(got), expected=repr(exp), cases=total)))
                    return
    for name, expr, fn in INT_CASES:
        for d in COLLS:
            for n in INTS:
                exp = model(fn, d, n)
                if exp == ('ok', 'skip'):
                    continue
                for as_iter in (False, True):
                    got = ev(expr, [iter(d) if as_iter else d, n])
                    total += 1
                    if got[0] != exp[0] or (got[0] == 'ok' and
                                            norm(got[1]) != norm(exp[1])):
                        print(json.dumps(dict(
                            status='failed', case=name, expression=expr,
                            data=repr((d, n)), one_shot_iterator=as_iter,
                            got=repr(got), expected=repr(exp), cases=total)))
                        return
    print(json.dumps(dict(status='ok', cases=total,
                          operators=len(CASES) + len(INT_CASES))))


main()
