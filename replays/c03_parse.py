"""Replay for C03: parse the given texts (argv[1] = JSON list) and report any
outcome other than a statement or a YAQL parsing error; also probes the
string rules for super-linear matching time."""
import json
import sys
import time
import warnings
warnings.simplefilter('ignore')
import yaql
from yaql.language import exceptions


def main():
    texts = json.loads(sys.stdin.read() or '[]')
    engine = yaql.YaqlFactory().create()
    # error positions are offsets into the text as given, also when it is
    # not in a Unicode normal form / has unusual line ends
    texts = list(texts) + [
        "'\u0958\u0958\u0958' #", "'\u09dc' + \x01", "'e\u0301' ?? 1",
        "'\ufb2a\ufb2a' \x7f", "'a\r\nb' #", "'\u212b' + + )",
        "'\U0001d15e\U0001d15e' #", "1 +\r\n #"]
    # lone surrogates are code points of a Python str like any other
    texts += ["'\\u\ud800abc'", "'\\x\ud800a'", "'\\N{\ud800}'",
              "'a\ud800b'", '"\\x\udfffa"', '\ud800', "`\udc00`"]
    # ill-formed escapes next to / made of non-ASCII characters
    texts += ["'\\N{\u03a9MEGA}'", '"\\N{\u20ac}"', "'\\x\u00e90'",
              "'\u00e9\\xZZ'", "'\\xZZ\u00e9'", "'\\u12\u00e94'",
              "'\U0001f600\\N{nope}'"]
    # deeply nested (but valid) inputs: parsing is iterative, no input may
    # exhaust the interpreter stack
    texts += ['1' + ' + 1' * 400, '-' * 400 + '1', '(' * 300 + '1' + ')' * 300,
              '$' + '.a' * 400, 'f(' * 300 + '1' + ')' * 300,
              '[' * 300 + '1' + ']' * 300, 'not ' * 300 + 'true']
    for t in texts:
        try:
            engine(t)
        except exceptions.YaqlParsingException as e:
            pos = getattr(e, 'position', None)
            bad = None
            if pos is not None and not (0 <= pos < len(t)):
                bad = 'error position %r outside the text (length %d)' % (
                    pos, len(t))
            elif pos is not None and isinstance(
                    e, exceptions.YaqlLexicalException) and \
                    not t.startswith(str(e.value), pos):
                bad = 'lexical error reports %r at %d, the text has %r ' \
                      'there' % (e.value, pos, t[pos])
            if bad:
                print(json.dumps(dict(status='failed', text=t[:200],
                                      length=len(t), detail=bad)))
                return
        except Exception as e:      # noqa
            print(json.dumps(dict(status='failed', text=t[:200],
                                  length=len(t),
                                  escaped='%s: %s' % (type(e).__name__,
                                                      str(e)[:200]))))
            return
    # an engine with a suffix operator (the generated p_unary production
    # sees an operand NODE where a prefix production sees a symbol)
    from yaql.language import factory as F
    f = yaql.YaqlFactory()
    f.insert_operator(None, True, '!', F.OperatorType.SUFFIX_UNARY, True)
    suffix_engine = f.create()
    for t in ('5 !', "'a'!", 'null!', 'abc!', '$!', '(5)!', 'f(1)!',
              '[1, 2]!', '-5!', 'true !', '$.a!', '1.5!'):
        try:
            suffix_engine(t)
        except exceptions.YaqlParsingException:
            pass
        except Exception as e:      # noqa
            print(json.dumps(dict(status='failed', text=t,
                                  engine='suffix operator "!" inserted',
                                  escaped='%s: %s' % (type(e).__name__,
                                                      str(e)[:200]))))
            return
    # backtracking probe: time must not explode with the input length
    for q, fill in [(q, f) for q in ('"', "'", '`')
                    for f in ('\\', 'a', 'a\\\\', ' ')]:
        prev = None
        for n in (12, 16, 20, 24, 28):
            text = q + fill * n
            t0 = time.time()
            try:
                engine(text)
            except exceptions.YaqlParsingException:
                pass
            except Exception as e:      # noqa
                print(json.dumps(dict(status='failed', text=text,
                                      escaped=type(e).__name__)))
                return
            dt = time.time() - t0
            if dt > 2.0:
                print(json.dumps(dict(
                    status='failed', text=text, seconds=round(dt, 2),
                    detail='matching time grows exponentially with the '
                           'number of characters after an unterminated '
                           'quote')))
                return
    print(json.dumps(dict(status='ok', texts=len(texts))))


main()
