"""Replay for C03: parse the given texts (argv[1] = JSON list) and report any
outcome other than a statement or a YAQL parsing error; also probes the
string rules for super-linear matching time."""
import json
import sys
import time
import warnings
warnings.simplefilter('ignore')
import yaql
from yaql.language import exceptions


def main():
    texts = json.loads(sys.stdin.read() or '[]')
    engine = yaql.YaqlFactory().create()
    for t in texts:
        try:
            engine(t)
        except exceptions.YaqlParsingException:
            pass
        except Exception as e:      # noqa
            print(json.dumps(dict(status='failed', text=t[:200],
                                  length=len(t),
                                  escaped='%s: %s' % (type(e).__name__,
                                                      str(e)[:200]))))
            return
    # an engine with a suffix operator (the generated p_unary production
    # sees an operand NODE where a prefix production sees a symbol)
    from yaql.language import factory as F
    f = yaql.YaqlFactory()
    f.insert_operator(None, True, '!', F.OperatorType.SUFFIX_UNARY, True)
    suffix_engine = f.create()
    for t in ('5 !', "'a'!", 'null!', 'abc!', '$!', '(5)!', 'f(1)!',
              '[1, 2]!', '-5!', 'true !', '$.a!', '1.5!'):
        try:
            suffix_engine(t)
        except exceptions.YaqlParsingException:
            pass
        except Exception as e:      # noqa
            print(json.dumps(dict(status='failed', text=t,
                                  engine='suffix operator "!" inserted',
                                  escaped='%s: %s' % (type(e).__name__,
                                                      str(e)[:200]))))
            return
    # backtracking probe: time must not explode with the input length
    for q in ('"', "'", '`'):
        prev = None
        for n in (12, 16, 20, 24):
            text = q + '\\' * n
            t0 = time.time()
            try:
                engine(text)
            except exceptions.YaqlParsingException:
                pass
            except Exception as e:      # noqa
                print(json.dumps(dict(status='failed', text=text,
                                      escaped=type(e).__name__)))
                return
            dt = time.time() - t0
            if dt > 2.0:
                print(json.dumps(dict(
                    status='failed', text=text, seconds=round(dt, 2),
                    detail='matching time grows exponentially with the '
                           'number of backslashes after an unterminated '
                           'quote')))
                return
    print(json.dumps(dict(status='ok', texts=len(texts))))


main()
