"""BOUNDED stand-in for C12 (argument-list spellings): every token string
over {value, ',', named argument} of length <= 8 between `f(` and `)` is
parsed by the real engine and compared with the reference language

    args := e | A | N | A , N | A , , N
    A    := (,)* v ((,)+ v)*        slots separated by commas, empty slots
                                    anywhere but in the last position
    N    := n (, n)*

and, when accepted, with the reference argument list (one entry per slot,
NO_VALUE for an empty slot, then the named arguments in order)."""
import itertools
import json
import re
import warnings
warnings.simplefilter('ignore')
import yaql
from yaql.language import exceptions, expressions, utils

A = r'(?:,)*v(?:(?:,)+v)*'
N = r'n(?:,n)*'
REF = re.compile(r'^(?:|%s|%s|%s,%s|%s,,%s)$' % (A, N, A, N, A, N))


def expected(s):
    """-> list of 'v' / '-' (empty slot) / 'n' entries."""
    if not s:
        return []
    m = re.match(r'^([v,]*?)(,?)((?:n(?:,n)*)?)$', s)
    pos_part = s
    named = []
    if 'n' in s:
        i = s.index('n')
        named = ['n'] * s[i:].count('n')
        pos_part = s[:i]
        if pos_part.endswith(','):
            pos_part = pos_part[:-1]        # the separator before N
        if not pos_part and i > 0:
            pos_part = None
    out = []
    if pos_part:
        for slot in pos_part.split(','):
            out.append('v' if slot == 'v' else '-')
    return out + named


def main():
    engine = yaql.YaqlFactory().create()
    cases = 0
    import os
    for n in range(0, 11 if os.environ.get('VERIF_TIER') == 'thorough'
                   else 9):
        for toks in itertools.product('v,n', repeat=n):
            s = ''.join(toks)
            cases += 1
            k = itertools.count(1)
            text = 'f(' + ' '.join(
                '1' if t == 'v' else (',' if t == ',' else 'k%d => 2' %
                                      next(k)) for t in toks) + ')'
            want = bool(REF.match(s))
            try:
                node = engine(text).expression
                got = True
            except exceptions.YaqlParsingException:
                got = False
            if got != want:
                print(json.dumps(dict(
                    status='failed', cases=cases, text=text,
                    detail='%s by the parser, %s by the reference language'
                    % ('accepted' if got else 'rejected',
                       'accepted' if want else 'rejected'))))
                return
            if got:
                args = node.args
                shape = ['n' if isinstance(
                    a, expressions.MappingRuleExpression) else (
                        '-' if a is utils.NO_VALUE else 'v') for a in args]
                if shape != expected(s):
                    print(json.dumps(dict(
                        status='failed', cases=cases, text=text,
                        detail='argument list %s, reference %s' % (
                            shape, expected(s)))))
                    return
    print(json.dumps(dict(status='ok', cases=cases)))


main()
