"""BOUNDED stand-in / replay driver for C07: a canary host object records
every attribute / item / call that reaches it.  (1) Every registered
function, operator and access form is applied to a NON-yaqlized canary with
attack strings as arguments: nothing may reach it (implicit protocol
methods aside) and its secret may not appear in any result or error text.
(2) For yaqlized canaries, yaqlization settings (switches, whitelist /
blacklist entries as strings, regexes and predicates, remappings in both
forms) are crossed with the member names of a probe class: attribute
access, method call and indexing reach exactly the members the reference
policy allows, identically."""
import itertools
import json
import re
import warnings
warnings.simplefilter('ignore')
import yaql
from yaql import yaqlization
from yaql.language import exceptions

import signal


class _Slow(BaseException):
    pass


def _on_alarm(*a):
    raise _Slow()


signal.signal(signal.SIGALRM, _on_alarm)
slow = []
SECRET = 'SECRET-c07-4c1d'
IMPLICIT = {'__class__', '__eq__', '__hash__', '__str__', '__repr__',
            '__bool__', '__len__', '__iter__', '__format__', '__ne__',
            '__lt__', '__gt__', '__le__', '__ge__', '__contains__',
            '__reduce_ex__', '__deepcopy__', '__dict__', '__getstate__',
            '__init_subclass__', '__subclasshook__', '__yaqlization__',
            '__next__', '__call__', '__getitem__', '__index__', '__int__',
            '__float__', '__add__', '__radd__', '__mul__', '__rmul__',
            '__sub__', '__rsub__', '__neg__', '__pos__', '__invert__',
            '__abs__', '__mod__', '__rmod__', '__truediv__',
            '__rtruediv__', '__and__', '__or__', '__xor__', '__rand__',
            '__ror__', '__rxor__', '__lshift__', '__rshift__',
            '__rlshift__', '__rrshift__', '__floordiv__', '__rfloordiv__',
            '__pow__', '__rpow__', '__enter__', '__exit__', '__trunc__',
            '__round__', '__floor__', '__ceil__', '__sizeof__',
            '__setstate__', '__reduce__', '__copy__', '__slots__',
            '__mro_entries__', '__set_name__', '__fspath__', '__bytes__',
            '__complex__', '__length_hint__', '__reversed__', '__missing__',
            '__class_getitem__', '__instancecheck__', '__subclasscheck__',
            '__await__', '__aiter__', '__anext__', 'keys'}


class Canary(object):
    def __init__(self):
        object.__setattr__(self, 'seen', [])
        object.__setattr__(self, 'secret', SECRET)
        object.__setattr__(self, '_private', SECRET)

    def __getattribute__(self, name):
        if name not in ('seen',) and name not in IMPLICIT:
            object.__getattribute__(self, 'seen').append(name)
        return object.__getattribute__(self, name)

    def method(self):
        return SECRET


ATTACKS = ['{0.secret}', '{0._private}', '{.secret}', '%(secret)s',
           '__class__', '_private', 'secret', '{0.__class__.__init__}']


def names_and_arities(context):
    """Every function name registered anywhere in the context chain."""
    names = set()
    p = context
    while p is not None:
        names.update(getattr(p, '_functions', {}))
        p = p.parent
    return sorted(names)


def main():
    engine = yaql.YaqlFactory().create()
    ctx = yaql.create_context()
    cases = 0
    # endless / clock / random producers add nothing to containment
    skip = {'cycle', 'repeat', 'sequence', 'generate', 'generateMany',
            'range', 'random', 'now'}
    names = [n for n in names_and_arities(ctx)
             if re.match(r'^[a-zA-Z]\w*$', n) and n not in skip]
    ops = ['+', '-', '*', '/', '>', '<', '=', '!=', 'and', 'or', 'in', '=~']
    forms = []
    for n in names:
        forms += ['%s($)' % n, '$.%s()' % n, '%s($, $a)' % n,
                  '$.%s($a)' % n, '%s($a, $)' % n, '$a.%s($)' % n]
    forms += ['$ %s $a' % o for o in ops] + ['$a %s $' % o for o in ops]
    forms += ['$.secret', '$.method()', '$[secret]', '$[0]', '$._private',
              '$?.secret', 'call($a, [$], {})', 'call($a, [], {}, $)',
              'call(len, [], {}, $)', '$.toList()', 'str($)', 'not $',
              '-$', '[$].select($.secret)', 'dict(a => $).a.secret',
              '$.secret.len()', 'def(f, $.secret) -> f($)']
    for text in forms:
        for attack in ATTACKS:
            cases += 1
            c = Canary()
            c2 = ctx.create_child_context()
            c2['a'] = attack
            signal.alarm(3)
            try:
                res = engine(text).evaluate(data=c, context=c2)
                shown = repr(res)
            except _Slow:
                slow.append(text)
                shown = ''
            except Exception as e:      # noqa
                shown = '%s: %s' % (type(e).__name__, e)
            finally:
                signal.alarm(0)
            leaked = [n for n in c.seen]
            if leaked or SECRET in shown:
                print(json.dumps(dict(
                    status='failed', cases=cases, expression=text,
                    argument=attack, detail='a host object that was never '
                    'yaqlized was reached: members %s%s' % (
                        leaked, ', secret in result/error text'
                        if SECRET in shown else ''))))
                return
    # ---- yaqlized objects: settings x member names ------------------------
    class Probe(object):
        def __init__(self):
            self.alpha, self.beta, self._hidden = 'A', 'B', SECRET
            self.exec_count = 0

        def gamma(self):
            return 'G'

        def execute(self, n=0):
            return 'E%s' % n

        def __getitem__(self, k):
            return getattr(self, k)
    members = ['alpha', 'beta', 'gamma', 'execute', '_hidden', 'run']
    entries = {
        'str': lambda n: n, 're': lambda n: re.compile(n[1:3]),
        'pred': lambda n: (lambda x, _n=n: x == _n)}
    configs = []
    for kind in entries:
        configs.append(dict(whitelist=[entries[kind]('alpha')]))
        configs.append(dict(blacklist=[entries[kind]('beta')]))
        configs.append(dict(whitelist=[entries[kind]('alpha'),
                                       entries[kind]('gamma')],
                            blacklist=[entries[kind]('alpha')]))
    configs += [dict(), dict(attribute_remapping={'run': 'execute'}),
                dict(attribute_remapping={'run': ('execute', {'k': 'n'})}),
                dict(yaqlize_attributes=False), dict(yaqlize_methods=False),
                dict(yaqlize_indexer=False)]

    def match(name, entry):
        if name == entry:
            return True
        if hasattr(entry, 'search'):
            return entry.search(name) is not None
        if callable(entry):
            return bool(entry(name))
        return False

    def allowed(name, cfg):
        if name.startswith('_'):
            return False
        wl = cfg.get('whitelist') or []
        bl = list(cfg.get('blacklist') or [])
        for v in (cfg.get('attribute_remapping') or {}).values():
            bl.append(v if isinstance(v, str) else v[0])
        if wl:
            return any(match(name, e) for e in wl)
        return not any(match(name, e) for e in bl)
    for cfg in configs:
        remap = cfg.get('attribute_remapping') or {}
        for name in members:
            for form, switch in (('$.%s' % name, 'yaqlize_attributes'),
                                 ('$.%s()' % name, 'yaqlize_methods'),
                                 ('$[%s]' % name, 'yaqlize_indexer')):
                cases += 1
                p = Probe()
                yaqlization.yaqlize(p, **cfg)
                try:
                    engine(form).evaluate(data=p, context=ctx)
                    reached = True
                except (AttributeError, KeyError, TypeError,
                        exceptions.YaqlException):
                    reached = False
                target = remap.get(name, name)
                if not isinstance(target, str):
                    target = target[0]
                exists = hasattr(Probe(), target if form != '$[%s]' % name
                                 else name)
                is_method = callable(getattr(Probe(), target, None))
                want = allowed(name, cfg) and cfg.get(switch, True) and \
                    exists and (is_method or not form.endswith('()'))
                if form == '$[%s]' % name and name in remap:
                    want = False if not hasattr(Probe(), name) else want
                if reached and not (allowed(name, cfg) and
                                    cfg.get(switch, True)):
                    print(json.dumps(dict(
                        status='failed', cases=cases, expression=form,
                        settings={k: str(v) for k, v in cfg.items()},
                        detail='member %r was reached although the '
                               'settings do not grant it' % name)))
                    return
                tuple_form = not isinstance(remap.get(name, ''), str)
                if tuple_form and not form.endswith('()'):
                    want = False    # (name, arg-map) remaps are for calls
                if not reached and want and not name.startswith('_'):
                    print(json.dumps(dict(
                        status='failed', cases=cases, expression=form,
                        settings={k: str(v) for k, v in cfg.items()},
                        detail='member %r is granted by the settings but '
                               'was refused' % name)))
                    return
    # ---- keys that are not names ------------------------------------------
    class Vault(object):
        def __init__(self):
            self.title, self._slots = 'vault', [SECRET, 'x']

        def __getitem__(self, k):
            if isinstance(k, str):
                return getattr(self, k)
            return self._slots if k is None else self._slots[k]
    for cfg in (dict(whitelist=['title']), dict(blacklist=['other']),
                dict()):
        for key in ('0', '1 - 1', 'null', 'true', '[0]', '0.0'):
            cases += 1
            v = Vault()
            yaqlization.yaqlize(v, **cfg)
            try:
                res = engine('$[%s]' % key).evaluate(data=v, context=ctx)
            except Exception:       # noqa
                continue
            print(json.dumps(dict(
                status='failed', cases=cases, expression='$[%s]' % key,
                settings={k: str(x) for k, x in cfg.items()},
                detail='a non-name key reached the host object: %r'
                       % (res,))))
            return
    # ---- auto-yaqlization marks the returned OBJECT, never its class ------
    class Plain(object):
        def __init__(self):
            self.secret = SECRET

    class Slotted(object):
        __slots__ = ('secret',)

        def __init__(self):
            self.secret = SECRET

    for cls in (Plain, Slotted):
        class Owner(object):
            def make(self, _c=cls):
                return _c()
        cases += 1
        o = Owner()
        yaqlization.yaqlize(o, auto_yaqlize_result=True)
        try:
            engine('$.make()').evaluate(data=o, context=ctx)
        except Exception:       # noqa
            pass
        other = cls()       # never handed out by a yaqlized object
        try:
            res = engine('$.secret').evaluate(data=other, context=ctx)
        except Exception:       # noqa
            continue
        print(json.dumps(dict(
            status='failed', cases=cases, expression='$.secret',
            detail='after one auto-yaqlized result of class %s, EVERY '
                   'instance of the class is reachable: %r' % (
                       cls.__name__, res))))
        return
    print(json.dumps(dict(status='ok', cases=cases, functions=len(names),
                          timed_out=sorted(set(slow)))))


main()
