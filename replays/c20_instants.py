"""BOUNDED native driver for C20: the identities of the property statement,
evaluated by the real engine on boundary values - datetimes at both ends of
the calendar and at offsets up to +-23:59, timespans from one microsecond to
the whole calendar (beyond what a float number of seconds represents
exactly), timestamps, and naive / aware host datetimes fed to the property
functions. Prints one JSON object (status ok|failed)."""
import datetime
import json
import os
import warnings
warnings.simplefilter('ignore')
import yaql
from dateutil import tz

THOROUGH = os.environ.get('VERIF_TIER') == 'thorough'
engine = yaql.YaqlFactory().create()
ctx = yaql.create_context()
UTC = tz.tzutc()
TD = datetime.timedelta
DT = datetime.datetime


def ev(text, **data):
    c = ctx.create_child_context()
    for k, v in data.items():
        c['$' + k] = v
    return engine(text).evaluate(context=c)


def us(t):
    return (t.days * 86400 + t.seconds) * 1000000 + t.microseconds


def instant_us(d):
    if d.tzinfo is None:
        d = d.replace(tzinfo=UTC)
    return us(d - DT(1970, 1, 1, tzinfo=UTC))


def offsets():
    mins = [0, 1, -1, 180, -330, 23 * 60 + 59, -(23 * 60 + 59)]
    if THOROUGH:
        mins += [60, -60, 12 * 60, 345, -720, 14 * 60, 59, -59]
    return [TD(minutes=m) for m in mins]


def datetimes():
    base = [DT(1970, 1, 1), DT(2020, 2, 29, 23, 59, 59, 999999),
            DT(1, 1, 2), DT(9999, 12, 30, 23, 59, 59, 999999),
            DT(1969, 12, 31, 23, 59, 59, 1), DT(2038, 1, 19, 3, 14, 8),
            DT(2000, 1, 1, 0, 0, 0, 500000)]
    if THOROUGH:
        base += [DT(1900, 3, 1), DT(2100, 2, 28, 12), DT(1582, 10, 15),
                 DT(4000, 6, 15, 1, 2, 3, 4)]
    out = []
    for b in base:
        for o in offsets():
            out.append(b.replace(tzinfo=tz.tzoffset(None, int(
                o.total_seconds()))))
    return out


def timespans():
    out = [TD(0), TD(microseconds=1), TD(microseconds=-1), TD(seconds=1),
           TD(days=1), TD(days=-1, microseconds=1), TD(hours=3),
           TD(days=365, seconds=86399, microseconds=999999),
           # longer than a float number of seconds holds to the microsecond
           TD(days=146000, microseconds=1), TD(days=-2500000, microseconds=3),
           TD(days=3652058, seconds=86399, microseconds=999999),
           TD(days=-3652058, microseconds=1),
           TD(days=52000, seconds=1, microseconds=333333)]
    if THOROUGH:
        import random
        r = random.Random(20)
        for _ in range(400):
            out.append(TD(days=r.randint(-3652058, 3652058),
                          seconds=r.randint(0, 86399),
                          microseconds=r.randint(0, 999999)))
    return out


def close(a, b, rel=1e-12):
    return a == b or abs(a - b) <= rel * max(abs(a), abs(b), 1.0)


def fail(what, **kw):
    print(json.dumps(dict(status='failed', detail=what, **{
        k: repr(v) for k, v in kw.items()})))
    raise SystemExit(0)


def main():
    cases = 0
    # ---- timespan units: one quantity in different units ------------------
    for x in timespans():
        cases += 1
        m = ev('$x.microseconds', x=x)
        if m != us(x) or isinstance(m, bool) or not isinstance(m, int):
            fail('x.microseconds is not the exact integer number of '
                 'microseconds', x=x, got=m, expected=us(x))
        back = ev('timespan(microseconds => $x.microseconds)', x=x)
        if back != x:
            fail('timespan(microseconds => x.microseconds) != x', x=x,
                 got=back)
        for prop, k in (('milliseconds', 1000.0), ('seconds', 1e6),
                        ('minutes', 6e7), ('hours', 3.6e9),
                        ('days', 8.64e10)):
            v = ev('$x.' + prop, x=x)
            if not close(v, us(x) / k):
                fail('x.%s is not x.microseconds / %r' % (prop, k), x=x,
                     got=v, expected=us(x) / k)
        if not close(ev('$x.days * 24', x=x), ev('$x.hours', x=x)) or \
                not close(ev('$x.hours * 60', x=x), ev('$x.minutes', x=x)) \
                or not close(ev('$x.minutes * 60', x=x),
                             ev('$x.seconds', x=x)):
            fail('unit properties disagree (days*24 = hours, hours*60 = '
                 'minutes, minutes*60 = seconds)', x=x)
        if ev('$x * 1', x=x) != x or ev('1 * $x', x=x) != x:
            fail('x * 1 != x', x=x, got=ev('$x * 1', x=x))
        if ev('-(-$x)', x=x) != x or ev('+$x', x=x) != x:
            fail('-(-x) != x', x=x)
        if x and ev('$x / $x', x=x) != 1:
            fail('x / x != 1', x=x, got=ev('$x / $x', x=x))
    # ---- datetimes -------------------------------------------------------
    ds = datetimes()
    for d in ds:
        cases += 1
        u = ev('$d.utc', d=d)
        if instant_us(u) != instant_us(d) or u.utcoffset() != TD(0):
            fail('d.utc is not the same instant at offset zero', d=d, got=u)
        o = ev('$d.offset', d=d)
        if o != d.utcoffset():
            fail('d.offset is not the offset of d', d=d, got=o)
        s = ev('$d.timestamp', d=d)
        if abs(s * 1e6 - instant_us(d)) > max(1.0, abs(instant_us(d)) *
                                              2e-16 * 4):
            fail('d.timestamp is not the instant of d in seconds', d=d,
                 got=s, expected=instant_us(d) / 1e6)
        if 1 < d.year < 9999:
            back = ev('datetime($d.timestamp, $d.offset)', d=d)
            if abs(instant_us(back) - instant_us(d)) > max(
                    1, abs(instant_us(d)) * 2e-16 * 8) or \
                    back.utcoffset() != d.utcoffset():
                fail('datetime(d.timestamp, d.offset) != d (beyond float '
                     'rounding)', d=d, got=back)
        for t in timespans()[:9]:
            try:
                d2 = d + t
                d - t
            except OverflowError:
                continue
            if not (2 <= d2.year <= 9998):
                continue
            cases += 1
            r = ev('($d + $t) - $t', d=d, t=t)
            if instant_us(r) != instant_us(d) or \
                    r.utcoffset() != d.utcoffset():
                fail('(d + t) - t != d', d=d, t=t, got=r)
            r = ev('($d + $t) - $d', d=d, t=t)
            if r != t:
                fail('(d + t) - d != t', d=d, t=t, got=r)
            r = ev('($t + $d) - $d', d=d, t=t)
            if r != t:
                fail('(t + d) - d != t', d=d, t=t, got=r)
    # ordering / equality compare instants
    pick = ds if THOROUGH else ds[::3]
    for a in pick:
        for b in pick:
            cases += 1
            ia, ib = instant_us(a), instant_us(b)
            got = [ev('$a %s $b' % op, a=a, b=b)
                   for op in ('<', '<=', '>', '>=', '=', '!=')]
            exp = [ia < ib, ia <= ib, ia > ib, ia >= ib, ia == ib, ia != ib]
            if got != exp:
                fail('comparison of datetimes does not compare instants '
                     '(<, <=, >, >=, =, !=)', a=a, b=b, got=got, expected=exp)
    # the same instant written at another offset: equal, not different,
    # ordered both ways
    for a in pick:
        for o in offsets():
            if not (2 <= a.year <= 9998):
                continue
            cases += 1
            b = a.astimezone(tz.tzoffset(None, int(o.total_seconds())))
            got = [ev('$a %s $b' % op, a=a, b=b)
                   for op in ('=', '!=', '<=', '>=', '<', '>')]
            if got != [True, False, True, True, False, False]:
                fail('one instant at two offsets does not compare equal '
                     '(=, !=, <=, >=, <, >)', a=a, b=b, got=got)
            if ev('$a - $b', a=a, b=b) != TD(0):
                fail('one instant at two offsets: a - b != 0', a=a, b=b)
    # host datetimes in a zone whose offset VARIES (daylight saving time):
    # the algebra is the same - (d + t) - d = t and (d + t) - t = d
    eastern = tz.tzstr('EST5EDT,M3.2.0,M11.1.0')
    for base in (DT(2021, 3, 13, 12, tzinfo=eastern),
                 DT(2021, 11, 6, 12, tzinfo=eastern),
                 DT(2021, 7, 1, 1, 30, tzinfo=eastern)):
        for t in (TD(hours=24), TD(hours=-24), TD(days=200),
                  TD(minutes=90)):
            cases += 1
            r = ev('($d + $t) - $d', d=base, t=t)
            if r != t:
                fail('(d + t) - d != t for a host datetime in a zone with '
                     'daylight saving time', d=base, t=t, got=r)
            r = ev('($d + $t) - $t', d=base, t=t)
            if r != base or r.utcoffset() != base.utcoffset():
                fail('(d + t) - t != d for a host datetime in a zone with '
                     'daylight saving time', d=base, t=t, got=r)
    # the long differences of the calendar, exactly
    lo = DT(1, 1, 2, tzinfo=UTC)
    hi = DT(9999, 12, 30, 23, 59, 59, 999999, tzinfo=UTC)
    t = ev('$hi - $lo', hi=hi, lo=lo)
    if ev('$t.microseconds', t=t) != us(hi - lo):
        fail('(hi - lo).microseconds is not exact', t=t,
             got=ev('$t.microseconds', t=t), expected=us(hi - lo))
    # ---- timestamps ------------------------------------------------------
    stamps = [0, 1, -1, 1577869200, 2 ** 31, -2 ** 31, 253402210800,
              -62135510400, 0.5, 1e-6, 1577869200.25, -1.75]
    for s in stamps:
        for o in offsets():
            cases += 1
            d = ev('datetime($s, $o)', s=s, o=o)
            if d.utcoffset() != o:
                fail('datetime(s, o).offset != o', s=s, o=o, got=d)
            if abs(instant_us(d) - s * 1e6) > 0.5 + abs(s) * 2e-10:
                fail('datetime(s, o) is not the instant s', s=s, o=o, got=d)
            back = ev('datetime($s, $o).timestamp', s=s, o=o)
            if not close(back, float(s), 1e-15) and abs(back - s) > 1e-6:
                fail('datetime(s, o).timestamp != s', s=s, o=o, got=back)
    # ---- host datetimes: naive is taken as UTC by the property functions -
    for d in (DT(2020, 1, 1), DT(1970, 1, 1), DT(2000, 6, 15, 12, 30, 1, 5),
              DT(9000, 1, 1), DT(1600, 2, 29)):
        cases += 1
        aware = d.replace(tzinfo=UTC)
        for prop in ('timestamp', 'offset', 'utc'):
            a, b = ev('$d.' + prop, d=d), ev('$d.' + prop, d=aware)
            if a != b:
                fail('a naive host datetime is not taken as UTC by .%s'
                     % prop, d=d, got=a, expected=b)
        for t in (TD(hours=5), TD(days=-400, microseconds=7)):
            r = ev('($d + $t) - $t', d=d, t=t)
            if instant_us(r) != instant_us(aware):
                fail('(d + t) - t != d for a naive host datetime', d=d, t=t,
                     got=r)
            r = ev('($d + $t) - $a', d=d, t=t, a=aware)
            if r != t:
                fail('(d + t) - d != t with a naive host datetime taken as '
                     'UTC', d=d, t=t, got=r)
    print(json.dumps(dict(status='ok', cases=cases)))


try:
    main()
except SystemExit:
    raise
except Exception as e:     # noqa
    import traceback
    print(json.dumps(dict(status='failed',
                          detail='escaped %s: %s' % (type(e).__name__, e),
                          trace=traceback.format_exc()[-600:])))
