"""BOUNDED native driver for C12: every function the standard library registers
under a callable name is called with the same arguments spelled in every way
the language offers - positionally, by keyword (convention-translated names)
from every split point on, with trailing defaults omitted or given, through
call(name, args, kwargs), and - for extension methods - as function and as
method. All spellings must give the same result or the same error class.
Functions that are methods only must not be callable as functions and vice
versa. Argument tuples are drawn from a typed corpus: for each parameter the
first few corpus values its declared smart type accepts.
Prints one JSON object (status ok|failed)."""
import itertools
import json
import os
import signal
import sys
import warnings
warnings.simplefilter('ignore')
import yaql
from yaql.language import exceptions, specs, utils, yaqltypes

THOROUGH = os.environ.get('VERIF_TIER') == 'thorough'
OPTS = {'yaql.limitIterators': 60, 'yaql.memoryQuota': 200000}
ENGINE = yaql.YaqlFactory().create(options=OPTS)
ROOT = yaql.create_context()

# (text, is_lambda_like) - literals first, expressions over `$` last
CORPUS = ['1', '0', '3', '-2', "'ab'", "''", "'a'", 'true', 'false', 'null',
          '[1, 2]', '[]', '[[1, 2], [3]]', "['a', 'b']", '{a => 1}', '{}',
          '2.5', 'set(1, 2)', "regex('a')", 'timespan(seconds => 1)',
          'datetime(2020, 1, 1)', "[[a, 1], [b, 2]]"]
LAMBDAS = ['$', '$ > 1', '$1 + $2', '[$, $]', 'true', '$1 > $2']
SKIP = {'random', 'now', 'localtz', 'uuid', 'env', 'call', 'def', 'lambda',
        'let', 'with', 'assert', 'sequence', 'cycle', 'repeat', 'generate',
        'generateMany', 'yaql', 'send_context', 'getContextData',
        'format', 'print', 'read', 'help'}


class Slow(Exception):
    pass


def _alarm(*a):
    raise Slow()


signal.signal(signal.SIGALRM, _alarm)


def norm(v, depth=0):
    if isinstance(v, float):
        return round(v, 9)
    if isinstance(v, dict):
        return {repr(norm(k, depth + 1)): norm(x, depth + 1)
                for k, x in v.items()}
    if isinstance(v, (list, tuple)):
        return [norm(x, depth + 1) for x in v]
    if isinstance(v, (set, frozenset)):
        return sorted(repr(norm(x, depth + 1)) for x in v)
    if isinstance(v, (int, str, bool, type(None))):
        return v
    return type(v).__name__ + ':' + str(v)[:40]


_PARSED = {}


def run(text):
    """-> ('ok', normalised value) | ('err', exception class name)"""
    signal.alarm(5)
    try:
        st = _PARSED.get(text)
        if st is None:
            st = _PARSED[text] = ENGINE(text)
        v = st.evaluate(data=[3, 1, 2], context=ROOT.create_child_context())
        return ('ok', norm(v))
    except Slow:
        return ('slow', None)
    except exceptions.YaqlParsingException as e:
        return ('parse', type(e).__name__)
    except Exception as e:     # noqa
        return ('err', type(e).__name__)
    finally:
        signal.alarm(0)


def functions():
    out, seen = [], set()
    c = ROOT
    while c is not None:
        for name, fds in getattr(c, '_functions', {}).items():
            for fd in fds:
                if id(fd) in seen:
                    continue
                seen.add(id(fd))
                out.append(fd)
        c = c.parent
    return sorted(out, key=lambda fd: (fd.name, fd.payload.__module__,
                                       fd.payload.__qualname__))


def visible(fd):
    """-> (positional params in call order, keyword-only params, has *, **)"""
    pos, kwonly = [], []
    for key, p in fd.parameters.items():
        if isinstance(p.value_type, yaqltypes.HiddenParameterType):
            continue
        if key in ('*', '**'):
            continue
        (pos if p.position is not None else kwonly).append(p)
    pos.sort(key=lambda p: p.position)
    return pos, kwonly, '*' in fd.parameters, '**' in fd.parameters


_VALUES = {}


def value_of(text):
    if text not in _VALUES:
        try:
            _VALUES[text] = ('ok', ENGINE(text).evaluate(
                context=ROOT.create_child_context()))
        except Exception as e:      # noqa
            _VALUES[text] = ('err', e)
    return _VALUES[text]


def candidates(p):
    """Corpus texts the parameter's declared type accepts."""
    vt = p.value_type
    if isinstance(vt, yaqltypes.LazyParameterType):
        return list(LAMBDAS)
    out = []
    for text in CORPUS:
        st, v = value_of(text)
        if st != 'ok':
            continue
        raw = ENGINE(text).evaluate(
            context=ROOT.create_child_context()) if False else None
        try:
            # the un-finalised value: evaluate the expression node itself
            node = ENGINE(text).expression
            val = node(utils.NO_VALUE, ROOT.create_child_context(), ENGINE)
            if vt.check(val, ROOT, ENGINE):
                out.append(text)
        except Exception:       # noqa
            continue
    return out


def spell(fd, recv, texts, kwfrom, names, method_form, omit=0):
    """Expression text: arguments texts[:kwfrom] positional, the rest by
    keyword; the last `omit` ones left out."""
    n = len(texts) - omit
    parts = list(texts[:min(kwfrom, n)])
    parts += ['%s => %s' % (names[i], texts[i]) for i in range(kwfrom, n)]
    if method_form:
        return '%s.%s(%s)' % (recv, fd.name, ', '.join(parts))
    return '%s(%s)' % (fd.name, ', '.join(parts))


def main():
    cases = 0
    checked = 0
    per_param = 3 if THOROUGH else 2
    max_tuples = 12 if THOROUGH else 4
    for fd in functions():
        if fd.name.startswith('#') or fd.name.startswith('*') or \
                fd.name in SKIP:
            continue
        pos, kwonly, star, dstar = visible(fd)
        params = pos + kwonly
        if not params:
            continue
        cand = [candidates(p)[:per_param] for p in params]
        if any(not c for c in cand):
            continue
        names = [p.alias or p.name for p in params]
        tuples = list(itertools.islice(itertools.product(*cand), max_tuples))
        for texts in tuples:
            cases += 1
            forms = []
            if fd.is_function:
                forms.append(False)
            if fd.is_method and pos:
                forms.append(True)
            results = {}
            for method_form in forms:
                if method_form:
                    recv, rest, rnames = texts[0], texts[1:], names[1:]
                    first_kw = len(pos) - 1
                else:
                    recv, rest, rnames = None, texts, names
                    first_kw = len(pos)
                # the all-positional spelling (keyword-only ones by keyword)
                base = spell(fd, recv, rest, first_kw, rnames, method_form)
                results[base] = run(base)
                if fd.no_kwargs:
                    continue
                for k in range(0, first_kw):
                    t = spell(fd, recv, rest, k, rnames, method_form)
                    results[t] = run(t)
                if not method_form:
                    # through call(name, args, kwargs)
                    for k in sorted({0, first_kw}):
                        t = 'call(%s, [%s], {%s})' % (
                            fd.name, ', '.join(rest[:k]), ', '.join(
                                '%s => %s' % (rnames[i], rest[i])
                                for i in range(k, len(rest))))
                        if any(isinstance(params[i].value_type,
                                          yaqltypes.LazyParameterType)
                               for i in range(len(rest))):
                            continue    # lazy arguments cannot be listed
                        results[t] = run(t)
            # an empty slot stands for the default: the same call with that
            # argument left out (the others by keyword)
            if fd.is_function and not fd.no_kwargs:
                for i, p in enumerate(pos):
                    if p.default is specs.NO_DEFAULT or i == len(pos) - 1:
                        continue
                    slots = [('' if j == i else texts[j])
                             for j in range(len(pos))]
                    t1 = '%s(%s)' % (fd.name, ', '.join(slots + [
                        '%s => %s' % (names[j], texts[j])
                        for j in range(len(pos), len(texts))]))
                    t2 = '%s(%s)' % (fd.name, ', '.join(
                        '%s => %s' % (names[j], texts[j])
                        for j in range(len(texts)) if j != i))
                    r1, r2 = run(t1), run(t2)
                    checked += 2
                    if 'slow' not in (r1[0], r2[0]) and repr(r1) != repr(r2):
                        print(json.dumps(dict(
                            status='failed', cases=cases,
                            function='%s.%s' % (fd.payload.__module__,
                                                fd.payload.__qualname__),
                            detail='an empty slot and an omitted default '
                                   'disagree',
                            spellings={t1: repr(r1)[:160],
                                       t2: repr(r2)[:160]})))
                        return
            outcomes = {repr(v) for v in results.values() if v[0] != 'slow'}
            checked += len(results)
            if len(outcomes) > 1:
                print(json.dumps(dict(
                    status='failed', cases=cases, function='%s.%s' % (
                        fd.payload.__module__, fd.payload.__qualname__),
                    detail='spellings of one call disagree',
                    spellings={k: repr(v)[:160] for k, v in list(
                        results.items())[:12]})))
                return
        # kinds: methods only are not callable as functions and vice versa
        if pos and tuples:
            texts = tuples[0]
            if fd.is_method and not fd.is_function:
                others = [f for f in functions() if f.name == fd.name
                          and f.is_function]
                if not others:
                    t = spell(fd, None, texts, len(pos), names, False)
                    r = run(t)
                    cases += 1
                    if r[0] == 'ok' or r[1] not in (
                            'NoFunctionRegisteredException',
                            'NoMatchingFunctionException'):
                        print(json.dumps(dict(
                            status='failed', cases=cases, expression=t,
                            detail='a method-only function was callable as '
                                   'a function: %r' % (r,))))
                        return
            if fd.is_function and not fd.is_method:
                others = [f for f in functions() if f.name == fd.name
                          and f.is_method]
                if not others:
                    t = spell(fd, texts[0], texts[1:], len(pos) - 1,
                              names[1:], True)
                    r = run(t)
                    cases += 1
                    if r[0] == 'ok' or r[1] not in (
                            'NoMethodRegisteredException',
                            'NoMatchingMethodException'):
                        print(json.dumps(dict(
                            status='failed', cases=cases, expression=t,
                            detail='a function-only function was callable '
                                   'as a method: %r' % (r,))))
                        return
    print(json.dumps(dict(status='ok', cases=cases, spellings=checked)))


try:
    main()
except SystemExit:
    raise
except Exception as e:     # noqa
    import traceback
    print(json.dumps(dict(status='error',
                          detail='driver crashed: %s: %s' % (
                              type(e).__name__, e),
                          trace=traceback.format_exc()[-800:])))
