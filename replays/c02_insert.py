"""Replay for the insert_operator / __init__ contracts of C02: the same shape
family is run natively on the real YaqlFactory and the resulting table is
compared with the placement rule (contracts/factory.py: expected_insert)."""
import json
import os
import sys
import warnings
warnings.simplefilter('ignore')
sys.path.insert(0, os.environ.get('VERIF_HOME', '/verif'))
import yaql
from yaql import legacy
from yaql.language import factory as F

OT = F.OperatorType


def expected_insert(shape, arity, anchor, anchor_binary, create_group):
    items, i = [], 0
    for ch in shape:
        if ch == '|':
            items.append('|')
        else:
            items.append(i)
            i += 1
    if anchor is None:
        return (['N', '|'] if create_group else ['N']) + items
    pos = None
    for j, it in enumerate(items):
        if it != '|' and it == anchor and (arity[it] == 'b') == anchor_binary:
            pos = j
            break
    if pos is None:
        return None
    end = pos
    while end < len(items) and items[end] != '|':
        end += 1
    if create_group:
        return items[:end] + ['|', 'N'] + items[end:]
    return items[:end] + ['N'] + items[end:]


def main():
    family = [('o', 'b'), ('oo', 'bu'), ('o|o', 'bb'), ('o|o', 'ub'),
              ('oo|o', 'bbb'), ('o|oo|o', 'bubb'), ('o|o|o', 'bub')]
    cases = 0
    for shape, arity in family:
        for anchor in [None] + list(range(len(arity))):
            for ab in ((True,) if anchor is None else (True, False)):
                for cg in (False, True):
                    f = yaql.YaqlFactory()
                    ops, i = [], 0
                    for ch in shape:
                        if ch == '|':
                            ops.append(())
                        else:
                            ops.append(('s%d' % i, OT.BINARY_LEFT_ASSOCIATIVE
                                        if arity[i] == 'b'
                                        else OT.PREFIX_UNARY))
                            i += 1
                    f.operators = list(ops)
                    exp = expected_insert(shape, arity, anchor, ab, cg)
                    call = "insert_operator(%r, %r, 'N', RIGHT, %r)" % (
                        None if anchor is None else 's%d' % anchor, ab, cg)
                    try:
                        f.insert_operator(
                            None if anchor is None else 's%d' % anchor, ab,
                            'N', OT.BINARY_RIGHT_ASSOCIATIVE, cg)
                        got = ['|' if not r else ('N' if r[0] == 'N'
                                                  else int(r[0][1:]))
                               for r in f.operators]
                    except ValueError:
                        got = None
                    cases += 1
                    if got != exp:
                        print(json.dumps(dict(
                            status='failed', table=[list(r) for r in ops],
                            call=call, got=got, expected=exp,
                            legend="N = new operator, | = group separator, "
                                   "k = record s<k>")))
                        return
    # constructors: the table is well formed and is the standard one
    std = yaql.YaqlFactory()._standard_operators()
    for name, fac, skip in (('YaqlFactory()', yaql.YaqlFactory(), 1),
                            ('YaqlFactory(keyword_operator=None)',
                             yaql.YaqlFactory(keyword_operator=None), 0)):
        if list(fac.operators[skip:]) != list(std) or not fac.operators[0]:
            print(json.dumps(dict(status='failed', constructor=name,
                                  head=[list(r) for r in fac.operators[:3]],
                                  expected='standard table' + (
                                      ' after the keyword record' if skip
                                      else ''))))
            return
    lg = legacy.YaqlFactory().operators
    if not lg[0] or [r[0] if r else '|' for r in lg[-5:]] != [
            'or', '|', '=>', '|', '->']:
        print(json.dumps(dict(status='failed',
                              constructor='legacy.YaqlFactory()',
                              tail=[list(r) for r in lg[-5:]],
                              head=[list(r) for r in lg[:2]])))
        return
    print(json.dumps(dict(status='ok', cases=cases)))


main()
