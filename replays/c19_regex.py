"""BOUNDED native driver for C19 (regex half): every function of the regex
module, through the real engine, against an independent model written over
Python's `re` (the regex engine itself is trusted): matches / =~ / !~,
search, searchAll, split, replace, replaceBy in both spellings, with the
match records ($1 = whole match, $i+1 = group i, $name = named group; value,
start, end) a selector sees, for a family of patterns with numbered and named
groups, all flag combinations, all strings over a small alphabet plus
Unicode samples. Prints one JSON object (status ok|failed)."""
import itertools
import json
import os
import re
import warnings
warnings.simplefilter('ignore')
import yaql

THOROUGH = os.environ.get('VERIF_TIER') == 'thorough'
engine = yaql.YaqlFactory().create()
root = yaql.create_context()

PATTERNS = [
    'a', 'a+', 'b*', '(a)(b)?', '(?P<x>a+)(?P<y>b*)', '(a)(?P<x>b+)',
    '(?P<k>[ab])=(?P<v>[ab]+)', '(a|b)(?P<n>=)?', '^a', 'b$', '.',
    '(?P<w>.)(?P=w)', '((a)(?P<x>b))+', '(?P<x>a)|(?P<y>b)', '(?:a)(b)',
    'A(?P<x>B)?', '^(?P<x>.)', '=|(?P<nl>\n)',
]
_PARSED = {}
NAMES = ['x', 'y', 'k', 'v', 'n', 'w', 'nl']


def strings():
    out = ['']
    alpha = 'ab=\n' if THOROUGH else 'ab='
    top = 3 if THOROUGH else 2
    for n in range(1, top + 1):
        out += [''.join(p) for p in itertools.product(alpha, repeat=n)]
    if not THOROUGH:
        out += ['aab', 'bab', 'a=b', 'b=ab', 'abab']
    out += ['aAbB', 'ab\nab', 'a=b a=ab', 'aabbaabb', 'éaé',
            'a\U0001f600b', 'AB=ab', 'a\nb$']
    return out


def ev(text, **data):
    c = root.create_child_context()
    for k, v in data.items():
        c['$' + k] = v
    st = _PARSED.get(text)
    if st is None:
        st = _PARSED[text] = engine(text)
    return st.evaluate(context=c)


def rec(m, g):
    return {'value': m.group(g), 'start': m.start(g), 'end': m.end(g)}


def records(m):
    """The documented variables of a match: $1 whole match, $2.. groups,
    $name named groups."""
    out = {'1': rec(m, 0)}
    for i in range(1, m.re.groups + 1):
        out[str(i + 1)] = rec(m, i)
    for name, idx in m.re.groupindex.items():
        out[name] = rec(m, idx)
    return out


def fail(what, **kw):
    print(json.dumps(dict(status='failed', detail=what, **{
        k: repr(v) for k, v in kw.items()})))
    raise SystemExit(0)


def norm(v):
    if isinstance(v, (list, tuple)):
        return [norm(x) for x in v]
    if hasattr(v, 'items'):
        return {k: norm(x) for k, x in v.items()}
    return v


def main():
    cases = 0
    subjects = strings()
    flagsets = list(itertools.product((False, True), repeat=3))
    for pat in PATTERNS:
        for ic, ml, da in flagsets:
            if not THOROUGH:
                nt = (ic, ml, da).count(True)
                if nt > 1 and pat not in ('.', 'A(?P<x>B)?'):
                    continue
                if nt == 1 and pat not in (
                        '.', 'A(?P<x>B)?', '^a', 'b$', '(a)(?P<x>b+)',
                        '=|(?P<nl>\n)', '^(?P<x>.)'):
                    continue
            flags = re.UNICODE | (re.I if ic else 0) | (re.M if ml else 0) \
                | (re.S if da else 0)
            ref = re.compile(pat, flags)
            rx = ev('regex($p, ignoreCase => $ic, multiLine => $ml, '
                    'dotAll => $da)', p=pat, ic=ic, ml=ml, da=da)
            if rx.pattern != pat or rx.flags != ref.flags:
                fail('regex() does not compile the pattern with exactly the '
                     'requested flags', pattern=pat, flags=(ic, ml, da),
                     got=(rx.pattern, rx.flags), expected=ref.flags)
            if ev('isRegex($r)', r=rx) is not True:
                fail('isRegex(regex(..)) is not true', pattern=pat)
            keys = [str(i) for i in range(1, ref.groups + 2)] + \
                   list(ref.groupindex)
            allkeys = ['1', '2', '3', '4'] + NAMES
            sel = '[' + ', '.join('$' + k for k in allkeys) + ']'
            by = ' + '.join(
                "str($%s.start) + ',' + str($%s.end) + ',' + "
                "coalesce($%s.value, '~') + ';'" % (k, k, k) for k in keys)

            def by_model(m):
                r = records(m)
                return ''.join('%d,%d,%s;' % (
                    r[k]['start'], r[k]['end'],
                    '~' if r[k]['value'] is None else r[k]['value'])
                    for k in keys)
            for s in subjects:
                cases += 1
                info = dict(pattern=pat, flags=(ic, ml, da), string=s)
                m = ref.search(s)
                exp = m is not None
                got = [ev('$r.matches($s)', r=rx, s=s),
                       ev('$s =~ $r', r=rx, s=s),
                       not ev('$s !~ $r', r=rx, s=s)]
                if got != [exp] * 3:
                    fail('matches / =~ / !~ disagree with re.search',
                         got=got, expected=exp, **info)
                if (ic, ml, da) == (False, False, False):
                    got = [ev('$s.matches($p)', p=pat, s=s),
                           ev('$s =~ $p', p=pat, s=s),
                           not ev('$s !~ $p', p=pat, s=s)]
                    if got != [exp] * 3:
                        fail('string forms of matches / =~ / !~ disagree '
                             'with re.search', got=got, expected=exp, **info)
                # search
                got = ev('$r.search($s)', r=rx, s=s)
                if got != (m.group() if m else None):
                    fail('search() is not the first match (null if none)',
                         got=got, **info)
                got = norm(ev('$r.search($s, %s)' % sel, r=rx, s=s))
                exp = None if m is None else [
                    records(m).get(k) for k in allkeys]
                if got != exp:
                    fail('search(selector): match records differ from the '
                         'documented ones ($1 whole match, $2.. groups, '
                         '$name named groups)', got=got, expected=exp,
                         keys=allkeys, **info)
                # searchAll
                ms = list(ref.finditer(s))
                got = norm(ev('$r.searchAll($s)', r=rx, s=s))
                if got != [x.group() for x in ms]:
                    fail('searchAll() is not the list of all matches',
                         got=got, **info)
                got = norm(ev('$r.searchAll($s, %s)' % sel, r=rx, s=s))
                exp = [[records(x).get(k) for k in allkeys] for x in ms]
                if got != exp:
                    fail('searchAll(selector): match records differ',
                         got=got, expected=exp, keys=allkeys, **info)
                # split / replace / replaceBy, both spellings, with counts
                for n in (0, 1, 2):
                    exp = ref.split(s, n)
                    got = [norm(ev('$r.split($s, $n)', r=rx, s=s, n=n)),
                           norm(ev('$s.split($r, $n)', r=rx, s=s, n=n))]
                    if n == 0:
                        got.append(norm(ev('$r.split($s)', r=rx, s=s)))
                    if any(g != exp for g in got):
                        fail('split(maxSplit=%d) disagrees with re.split'
                             % n, got=got, expected=exp, **info)
                    exp = ref.sub('<\\g<0>>', s, n)
                    got = [ev("$r.replace($s, '<\\g<0>>', $n)", r=rx, s=s,
                              n=n),
                           ev("$s.replace($r, '<\\g<0>>', $n)", r=rx, s=s,
                              n=n)]
                    if n == 0:
                        got.append(ev("$r.replace($s, '<\\g<0>>')", r=rx,
                                      s=s))
                    if any(g != exp for g in got):
                        fail('replace(count=%d) disagrees with re.sub' % n,
                             got=got, expected=exp, **info)
                    exp = ref.sub(by_model, s, n)
                    got = [ev('$r.replaceBy($s, %s, $n)' % by, r=rx, s=s,
                              n=n),
                           ev('$s.replaceBy($r, %s, $n)' % by, r=rx, s=s,
                              n=n)]
                    if n == 0:
                        got.append(ev('$r.replaceBy($s, %s)' % by, r=rx,
                                      s=s))
                    if any(g != exp for g in got):
                        fail('replaceBy(count=%d): the replacement lambda '
                             'does not see the documented match records'
                             % n, got=got, expected=exp, keys=keys, **info)
    for s in strings():
        cases += 1
        if ev('escapeRegex($s)', s=s) != re.escape(s):
            fail('escapeRegex differs from re.escape', string=s)
        if s and not ev('$s =~ escapeRegex($s)', s=s):
            fail('a string does not match its own escaped form', string=s)
        if ev('isRegex($s)', s=s) is not False:
            fail('isRegex(string) is not false', string=s)
    # host strings of a str SUBCLASS that overrides the str methods (a
    # markup-safe text type): a string function works on the characters,
    # whatever the host's class does in its own methods
    class Safe(str):
        def _esc(self, x):
            return x.replace('<', '&lt;') if isinstance(x, str) else x

        def replace(self, a, b, *r):
            return Safe(str.replace(self, self._esc(a), self._esc(b), *r))

        def find(self, a, *r):
            return str.find(self, self._esc(a), *r)

        def index(self, a, *r):
            return str.index(self, self._esc(a), *r)

        def startswith(self, a, *r):
            return str.startswith(self, self._esc(a), *r)

        def endswith(self, a, *r):
            return str.endswith(self, self._esc(a), *r)

        def strip(self, chars=None):
            return Safe(str.strip(self, self._esc(chars)))

        def upper(self):
            return Safe('!' + str.upper(self))

        def lower(self):
            return Safe('!' + str.lower(self))

        def split(self, sep=None, maxsplit=-1):
            return [Safe('!')]

        def join(self, items):
            return Safe('!')

        def __len__(self):
            return 99
    for text in ('a<b-c<d', '<<x>>', ''):
        for expr in ("$s.replace('-', '<')", "$s.indexOf('<')",
                     "$s.startsWith('<')", "$s.endsWith('d')",
                     "$s.trim('<>')", '$s.toUpper()', '$s.toLower()',
                     "$s.split('<')", "$s.join(['p', 'q'])", '$s.len()',
                     "$s.lastIndexOf('<')", "$s.substring(1, 2)",
                     "$s + 'x'", '$s * 2', "$s.replace({'<' => '('})",
                     "'<'.join([$s, $s])", "$s.matches('a.*')",
                     "$s =~ '^a<'", "$s.replaceBy(regex('<'), '(')"):
            cases += 1
            try:
                got = ('ok', ev(expr, s=Safe(text)))
            except Exception as e:      # noqa
                got = ('err', type(e).__name__)
            try:
                exp = ('ok', ev(expr, s=str(text)))
            except Exception as e:      # noqa
                exp = ('err', type(e).__name__)
            if got != exp or (got[0] == 'ok' and type(got[1]) is not type(
                    exp[1])):
                fail('a host string of a str subclass does not behave as '
                     'the plain string with the same characters',
                     expression=expr, string=text, got=got, expected=exp)
    print(json.dumps(dict(status='ok', cases=cases)))


try:
    main()
except SystemExit:
    raise
except Exception as e:     # noqa
    import traceback
    print(json.dumps(dict(status='failed',
                          detail='escaped %s: %s' % (type(e).__name__, e),
                          trace=traceback.format_exc()[-700:])))
