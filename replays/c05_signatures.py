"""BOUNDED native driver for C05 / C12: what a registration RECORDS about a
Python signature. For every signature shape (0..2 positional parameters,
defaults on a suffix of them, *args or not, 0..1 keyword-only parameter with
or without default, **kwargs or not; default values None / 0 / 'x') the
FunctionDefinition built by specs.get_function_definition is compared with
inspect.signature: each parameter's default, position and inferred type
(object unless a non-null default gives the class; the variadic ones have no
default and accept anything), under both naming conventions and - the same
payload registered twice - in either order of the conventions. Then the
function is called through a context with values of another type in the
variadic region. Prints one JSON object (status ok|failed)."""
import inspect
import itertools
import json
import warnings
warnings.simplefilter('ignore')
import yaql
from yaql.language import contexts, conventions, specs, utils, yaqltypes

DEFAULTS = [None, 0, 'x']
ROOT = yaql.create_context()


def shapes():
    for npos in (0, 1, 2):
        for ndef in range(npos + 1):
            for dvals in itertools.product(DEFAULTS, repeat=ndef):
                for star in (False, True):
                    for kwonly in (None, 'nodefault', None.__class__, 7):
                        for dstar in (False, True):
                            yield npos, dvals, star, kwonly, dstar


def build(npos, dvals, star, kwonly, dstar):
    names = ['first_arg', 'b'][:npos]
    parts = []
    for i, n in enumerate(names):
        k = i - (npos - len(dvals))
        parts.append(n if k < 0 else '%s=%r' % (n, dvals[k]))
    if star:
        parts.append('*rest')
    if kwonly is not None:
        if not star:
            parts.append('*')
        parts.append('key_only' if kwonly == 'nodefault' else
                     'key_only=%r' % (None if kwonly is type(None)
                                      else kwonly))
    if dstar:
        parts.append('**kw')
    src = 'def fn(%s):\n    return [%s]\n' % (', '.join(parts), ', '.join(
        names + (['list(rest)'] if star else []) +
        (['key_only'] if kwonly is not None else []) +
        (['sorted(kw.items())'] if dstar else [])))
    ns = {}
    exec(src, ns)
    return ns['fn'], src.splitlines()[0]


def fail(**kw):
    print(json.dumps(dict(status='failed', **{
        k: (v if isinstance(v, (int, str)) else repr(v))
        for k, v in kw.items()})))
    raise SystemExit(0)


def check_definition(fd, fn, header, conv):
    sig = inspect.signature(fn)
    pos = 0
    for pname, sp in sig.parameters.items():
        key = {sp.VAR_POSITIONAL: '*', sp.VAR_KEYWORD: '**'}.get(
            sp.kind, pname)
        p = fd.parameters.get(key)
        if p is None:
            fail(signature=header, detail='parameter %s was not recorded'
                 % pname)
        variadic = key in ('*', '**')
        exp_default = specs.NO_DEFAULT if variadic or \
            sp.default is sp.empty else sp.default
        if p.default is not exp_default and p.default != exp_default:
            fail(signature=header, parameter=pname, detail='recorded '
                 'default differs from the signature', got=p.default,
                 expected=exp_default)
        if sp.kind in (sp.POSITIONAL_OR_KEYWORD, sp.VAR_POSITIONAL):
            if p.position != pos:
                fail(signature=header, parameter=pname,
                     detail='recorded position', got=p.position,
                     expected=pos)
            pos += 1
        elif p.position is not None:
            fail(signature=header, parameter=pname, detail='a keyword-only '
                 'or ** parameter got a position', got=p.position)
        vt = p.value_type
        exp_cls = object if exp_default in (None, specs.NO_DEFAULT) \
            else type(exp_default)
        if not isinstance(vt, yaqltypes.PythonType) or \
                vt.python_type is not exp_cls or not vt.nullable:
            fail(signature=header, parameter=pname,
                 detail='inferred type of an undeclared parameter',
                 got='%s(%r, nullable=%r)' % (
                     type(vt).__name__, getattr(vt, 'python_type', None),
                     getattr(vt, 'nullable', None)),
                 expected='PythonType(%r, nullable=True)' % exp_cls)
        if conv is not None and not variadic:
            exp_alias = conv.convert_parameter_name(pname)
            if p.alias != exp_alias:
                fail(signature=header, parameter=pname, convention=type(
                    conv).__name__, detail='recorded keyword name',
                    got=p.alias, expected=exp_alias)


def main():
    cases = 0
    engine = yaql.YaqlFactory().create()
    convs = [conventions.CamelCaseConvention(),
             conventions.PythonConvention()]
    for shape in shapes():
        fn, header = build(*shape)
        npos, dvals, star, kwonly, dstar = shape
        cases += 1
        # registered under two conventions, in either order: each context
        # records ITS convention's keyword names
        for order in (convs, convs[::-1]):
            fn, header = build(*shape)
            for conv in order:
                ctx = contexts.Context(convention=conv)
                ctx.register_function(fn, name='fn')
                fds = list(ctx.get_functions('fn')[0])
                if len(fds) != 1:
                    fail(signature=header, detail='registration count',
                         got=len(fds))
                check_definition(fds[0], fn, header, conv)
        fd = specs.get_function_definition(fn)
        check_definition(fd, fn, header, None)
        # calls: required ones given, a string / a list / null in the
        # variadic region are accepted as they are
        required = npos - len(dvals)
        if star and (kwonly != 'nodefault'):
            ctx = ROOT.create_child_context()
            ctx.register_function(fn, name='fn')
            for extra in (["'x'"], ['[1]', 'null'], ['1.5']):
                args = []
                for i in range(npos):
                    k = i - (npos - len(dvals))
                    args.append("'s'" if k >= 0 and isinstance(
                        dvals[k], str) else '1')
                args += extra
                text = 'fn(%s)' % ', '.join(args)
                try:
                    got = engine(text).evaluate(context=ctx)
                except Exception as e:      # noqa
                    fail(signature=header, expression=text,
                         detail='a value in the *args region was refused',
                         got='%s: %s' % (type(e).__name__, e))
                exp = fn(*[engine(a).evaluate(context=ctx) for a in args])
                if got != exp:
                    fail(signature=header, expression=text, got=got,
                         expected=exp)
        del required
    print(json.dumps(dict(status='ok', cases=cases)))


try:
    main()
except SystemExit:
    raise
except Exception as e:     # noqa
    import traceback
    print(json.dumps(dict(status='failed',
                          detail='escaped %s: %s' % (type(e).__name__, e),
                          trace=traceback.format_exc()[-600:])))
