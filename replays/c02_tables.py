"""BOUNDED stand-in for C02: for a family of operator tables (default, legacy,
tables customised through insert_operator - including a symbol that is
prefix in one group and right-associative binary in another, and a factory
that is customised AFTER it already created an engine) every expression with
<= 3 binary operators and <= 2 prefix operators (plus a parenthesised
variant) is parsed by the real engine and compared with an independent
precedence-climbing parser driven by the operator TABLE."""
import itertools
import json
import sys
import warnings
warnings.simplefilter('ignore')
import yaql
from yaql import legacy
from yaql.language import factory as F

OT = F.OperatorType
SKIP = {'.', '?.', '[]', '{}', '=>', 'in', '=~', '!~'}


def table_model(operators):
    """symbol -> dict(binary=(level, assoc) | None, prefix=level | None,
    alias) from the factory's operator list (groups separated by ())."""
    level = 1
    out = {}
    for rec in operators:
        if not rec:
            level += 1
            continue
        sym, kind = rec[0], rec[1]
        alias = rec[2] if len(rec) > 2 else None
        e = out.setdefault(sym, dict(binary=None, prefix=None, alias=None))
        if kind == OT.BINARY_LEFT_ASSOCIATIVE:
            e['binary'] = (level, 'l')
            e['alias'] = alias or e['alias']
        elif kind == OT.BINARY_RIGHT_ASSOCIATIVE:
            e['binary'] = (level, 'r')
            e['alias'] = alias or e['alias']
        elif kind == OT.PREFIX_UNARY:
            e['prefix'] = level
            e['palias'] = alias
    return out


def level_assoc(model):
    a = {}
    for e in model.values():
        if e['binary']:
            a[e['binary'][0]] = e['binary'][1]
    return a


class Ref:
    def __init__(self, model, tokens):
        self.m, self.toks, self.i = model, tokens, 0
        self.assoc = level_assoc(model)

    def peek(self):
        return self.toks[self.i] if self.i < len(self.toks) else None

    def take(self):
        t = self.toks[self.i]
        self.i += 1
        return t

    def parse(self, min_level, allow_equal):
        """operators strictly tighter than min_level (smaller number), or of
        that level when allow_equal."""
        t = self.take()
        if t == '(':
            left = self.parse(10 ** 6, False)
            assert self.take() == ')'
        elif t[0] == 'P':       # prefix operator token ('P', sym)
            sym = t[1]
            lp = self.m[sym]['prefix']
            operand = self.parse(lp, self.assoc.get(lp) == 'r')
            al = self.m[sym].get('palias')
            name = ('*' + al) if al else '#unary_operator_' + sym
            left = '%s(%s)' % (name, operand)
        else:
            left = t
        while True:
            t = self.peek()
            if t is None or t == ')' or t[0] != 'B':
                return left
            sym = t[1]
            lb, ab = self.m[sym]['binary']
            if not (lb < min_level or (lb == min_level and allow_equal)):
                return left
            self.take()
            right = self.parse(lb, ab == 'r')
            al = self.m[sym]['alias']
            name = ('*' + al) if al else '#operator_' + sym
            left = '%s(%s, %s)' % (name, left, right)


def text_of(tokens):
    out = []
    for t in tokens:
        out.append(t if isinstance(t, str) else t[1])
    return ' '.join(out)


def tables():
    yield 'default', yaql.YaqlFactory(), None
    yield 'legacy', legacy.YaqlFactory(), None
    f = yaql.YaqlFactory()
    f.insert_operator('*', True, '^', OT.BINARY_RIGHT_ASSOCIATIVE, True)
    f.insert_operator('not', False, '^', OT.PREFIX_UNARY, False)
    yield 'prefix+right-binary', f, ['^']
    f = yaql.YaqlFactory()
    f.insert_operator('or', True, 'xor', OT.BINARY_LEFT_ASSOCIATIVE, False)
    f.insert_operator('+', True, '**', OT.BINARY_RIGHT_ASSOCIATIVE, True)
    yield 'same-group+new-group', f, ['xor', '**']
    f = yaql.YaqlFactory()
    f.create()                      # an engine already exists
    f.insert_operator('and', True, 'nand', OT.BINARY_LEFT_ASSOCIATIVE, False)
    f.insert_operator('*', True, '^', OT.BINARY_RIGHT_ASSOCIATIVE, True)
    yield 'customised-after-create', f, ['nand', '^']
    f = yaql.YaqlFactory()
    f.insert_operator(None, True, '~~', OT.BINARY_LEFT_ASSOCIATIVE, True)
    f.insert_operator('->', True, '<-', OT.BINARY_RIGHT_ASSOCIATIVE, True)
    yield 'tightest+loosest', f, ['~~', '<-']


def more_tables():
    f = yaql.YaqlFactory(keyword_operator=None)
    f.insert_operator('->', True, '|>', OT.BINARY_LEFT_ASSOCIATIVE, True)
    yield 'no-keyword+loosest-left', f, ['|>', '->']
    f = legacy.YaqlFactory()
    f.insert_operator('->', True, '|>', OT.BINARY_LEFT_ASSOCIATIVE, True)
    yield 'legacy+loosest-left', f, ['|>', '->', '=>']
    f = yaql.YaqlFactory()
    f.insert_operator('->', True, '~>', OT.BINARY_RIGHT_ASSOCIATIVE, True)
    f.insert_operator('.', True, '::', OT.BINARY_LEFT_ASSOCIATIVE, False)
    yield 'loosest-right+tightest-join', f, ['~>', '->', '::']
    # word operators that are identifiers but not purely alphabetic, and a
    # non-ASCII word
    f = yaql.YaqlFactory()
    f.insert_operator('in', True, 'not_in', OT.BINARY_LEFT_ASSOCIATIVE,
                      False)
    f.insert_operator('or', True, 'xor2', OT.BINARY_LEFT_ASSOCIATIVE, True)
    f.insert_operator('and', True, 'und\u00e9', OT.BINARY_RIGHT_ASSOCIATIVE,
                      True)
    yield 'identifier-shaped-words', f, ['not_in', 'xor2', 'und\u00e9']


def main():
    total = 0
    for tname, fac, must_use in itertools.chain(tables(), more_tables()):
        try:
            engine = fac.create()
        except Exception as e:      # noqa
            print(json.dumps(dict(status='failed', table=tname,
                                  error='create(): %r' % e)))
            return
        model = table_model(fac.operators)
        binaries = [s for s, e in model.items() if e['binary']
                    and s not in SKIP]
        prefixes = [s for s, e in model.items() if e['prefix']]
        # a manageable, level-covering subset of binary operators
        by_level = {}
        for s in binaries:
            by_level.setdefault(model[s]['binary'], []).append(s)
        chosen = [v[0] for v in by_level.values()]
        for s in (must_use or []):
            if s in binaries and s not in chosen:
                chosen.append(s)
        operands = ['$a', '$b', '$c', '$d']
        for n in (1, 2, 3):
            for ops in itertools.product(chosen, repeat=n):
                places = [()] + [(i,) for i in range(n + 1)] + [
                    (i, j) for i in range(n + 1) for j in range(i, n + 1)]
                for place in places:
                    for pre in (itertools.product(prefixes,
                                                  repeat=len(place))
                                if place else [()]):
                        if n == 3 and len(place) == 2 and pre[0] != pre[1]:
                            continue
                        toks = []
                        for k in range(n + 1):
                            for idx, p in zip(place, pre):
                                if idx == k:
                                    toks.append(('P', p))
                            toks.append(operands[k])
                            if k < n:
                                toks.append(('B', ops[k]))
                        variants = [toks]
                        if n >= 2:
                            # parenthesise the last two operands
                            j = max(i for i, t in enumerate(toks)
                                    if t in operands[:n])
                            variants.append(toks[:j] + ['('] + toks[j:]
                                            + [')'])
                        for v in variants:
                            text = text_of(v)
                            total += 1
                            try:
                                exp = Ref(model, list(v)).parse(10 ** 6,
                                                                False)
                            except Exception:
                                continue
                            try:
                                got = str(engine(text + '  '))
                            except Exception as e:      # noqa
                                got = 'ERROR %s' % type(e).__name__
                            if got != exp:
                                print(json.dumps(dict(
                                    status='failed', table=tname, text=text,
                                    got=got, expected=exp, cases=total)))
                                return
    print(json.dumps(dict(status='ok', cases=total)))


main()
