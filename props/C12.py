"""C12 - all ways of passing the same arguments are equivalent."""
import ast

from vlib import core, sigflow
from vlib.pyvc.unit import contract_unit
from props._common import source_tree
from contracts import runner, specs, frames_spec

LEVEL = 'proof'
TECHNIQUE = ('pyvc: map_args / get_delegate verified against a reference '
             'binding model on a family of signature x call shapes with '
             'symbolic values, smart types and check() outcomes; clone(), '
             'translate_args, runner.call contracts; alias obligations over '
             'every registered signature (runtime facts of the real '
             'decorators + decorator ASTs)')
LEVEL_TEXT = ('Binding lemma: for each signature shape (hidden parameters in '
              'any position, defaults, aliases, keyword-only, *, **) and '
              'each call shape (positional, empty slots, keywords, mixed, '
              'surplus) the real map_args and get_delegate bind exactly '
              'what the documented rules prescribe - so spellings with '
              'equal effective arguments are indistinguishable to the '
              'payload. Keyword spellings: every registered parameter\'s '
              'alias is the convention-translated name, or an explicit alias '
              'that the docstring documents. call(): function vs method '
              'kind predicate (runner.call contract); registration-time '
              'kind flags: an explicit function= / method= argument (True '
              'or False) overrides the decorators, None keeps them, for all '
              '9 combinations x symbolic decorator flags '
              '(get_function_definition contracts).')
LEVEL_NOTE = ('Also: every registered keyword survives call(name, args, '
              'kwargs) (fact-level obligations); map_args checks every '
              'supplied constant whichever way it is passed and an empty '
              'slot needs a default; BOUNDED end-to-end comparison of all '
              'spellings of every library function callable by name. '
              'Shape family is finite (7 signatures x 16 call shapes); '
              'within a shape everything is symbolic. The convention '
              'translation itself (regex sub) and inspect.getfullargspec '
              'are trusted; the argument-list grammar itself (ply LALR) is '
              'covered by the BOUNDED language comparison.')


def alias_unit(ctx):
    f = sigflow.facts(ctx)
    out = []
    explicit = {}       # (module, func) -> {param name: alias}
    for mod in frames_spec.MODULES:
        try:
            path, tree = source_tree(ctx, mod)
        except (IOError, OSError):
            continue
        for fn in ast.walk(tree):
            if not isinstance(fn, ast.FunctionDef):
                continue
            for d in fn.decorator_list:
                if isinstance(d, ast.Call) and ast.unparse(d.func) in (
                        'specs.parameter', 'specs.inject'):
                    al = [k.value for k in d.keywords if k.arg == 'alias']
                    if len(d.args) > 3:
                        al.append(d.args[3])
                    if al and isinstance(al[0], ast.Constant) and d.args \
                            and isinstance(d.args[0], ast.Constant):
                        explicit.setdefault((mod, fn.name), {})[
                            d.args[0].value] = al[0].value
    seen = set()
    for world in ('default', 'delegates'):
        for fd in f[world]:
            k = (fd['module'], fd['qualname'], fd['name'])
            if k in seen:
                continue
            seen.add(k)
            if fd['name'].startswith('#') or fd['name'].startswith('*'):
                # operators, indexers and system hooks are produced by the
                # parser with positional arguments only: no keyword spelling
                continue
            ex = explicit.get((fd['module'], fd['qualname']), {})
            doc = fd['doc'] or ''
            for p in sigflow.visible_params(fd) + [
                    q for q in fd['params'] if q['key'] in ('*', '**')]:
                if p['type']['hidden']:
                    continue
                want = sigflow.camel(p['name'].rstrip('_'))
                name = 'alias:%s.%s:%s' % (fd['module'].split('.')[-1],
                                           fd['qualname'], p['name'])
                if p['name'] in ex:
                    # an explicit alias must be the documented spelling
                    a = ex[p['name']]
                    documented = bool(
                        a == want or
                        ('Arg %s:' % a) in doc or ('arg %s:' % a) in doc or
                        ('%s =>' % a) in doc)
                    ok = p['alias'] == a and documented
                    detail = None if ok else (
                        'explicit alias %r of parameter %r is not the '
                        'documented keyword (convention gives %r)' % (
                            a, p['name'], want))
                else:
                    ok = p['alias'] == want
                    detail = None if ok else (
                        'alias %r != convention-translated name %r' % (
                            p['alias'], want))
                if p['key'] not in ('*', '**'):
                    # the same keyword must survive call(name, args, kwargs)
                    kept = p.get('call_keeps_keyword') is True
                    out.append(core.ob(
                        'call-keyword:%s.%s:%s' % (
                            fd['module'].split('.')[-1], fd['qualname'],
                            p['name']), 'proved' if kept else 'failed',
                        'signature', 'sigflow',
                        0.0, function='%s.%s' % (fd['module'],
                                                 fd['qualname']),
                        text='call(name, args, kwargs) passes the keyword '
                             'spelling of %s on' % p['name'],
                        detail=None if kept else
                        'utils.filter_parameters_dict drops (or fails on) '
                        'the keyword %r: %r' % (
                            p['alias'], p.get('call_keeps_keyword'))))
                out.append(core.ob(
                    name, 'proved' if ok else 'failed', 'signature',
                    'sigflow', 0.0, function='%s.%s' % (fd['module'],
                                                        fd['qualname']),
                    text='keyword spelling of %s is the convention-'
                         'translated name (or a documented explicit alias)'
                         % p['name'], detail=detail))
            # documented keyword spellings are accepted
            if not fd['no_kwargs'] and not any(
                    q['key'] == '**' for q in fd['params']):
                aliases = {q['alias'] for q in fd['params']}
                for nm in sigflow.doc_signature_names(doc):
                    ok = nm in aliases
                    out.append(core.ob(
                        'docsig:%s.%s:%s' % (fd['module'].split('.')[-1],
                                             fd['qualname'], nm),
                        'proved' if ok else 'failed', 'signature', 'sigflow',
                        0.0, text='documented keyword %s => is a parameter '
                                  'alias' % nm,
                        detail=None if ok else
                        'documented keyword %r is not accepted (aliases: %s)'
                        % (nm, sorted(a for a in aliases if a))))
    return dict(obligations=out,
                assumptions=['runtime facts are read off the live '
                             'FunctionDefinitions of the tree under test'],
                trusted=['inspect.getfullargspec', 're.sub (camelCase)'])


def units(ctx):
    us = [core.Unit('sigflow:aliases', alias_unit, 'sigflow')]
    us += [contract_unit(c, world_setup=specs.setup)
           for c in specs.binding_contracts(ctx.tier)]
    us += [contract_unit(c, world_setup=specs.setup)
           for c in specs.delegate_contracts(ctx.tier)]
    us += [contract_unit(c, world_setup=specs.setup)
           for c in specs.clone_contracts()]
    us += [contract_unit(c, world_setup=(
        specs.setup_definition_named if c.short.endswith('name=payload')
        else specs.setup_definition))
           for c in specs.definition_contracts()]
    us += [contract_unit(c, world_setup=specs.setup)
           for c in specs.strip_contracts()]
    us += [contract_unit(c, world_setup=runner.setup)
           for c in runner.translate_contracts()]
    us += [contract_unit(c, world_setup=runner.setup_call)
           for c in runner.call_contracts()]
    # keyword and positional spellings are resolved alike: the laziness set
    # of choose_overload is keyed by the caller's keyword, eager keyword
    # arguments are evaluated once like positional ones (call shapes with
    # keyword arguments)
    us += [contract_unit(c, world_setup=runner.setup_choose)
           for c in runner.choose_contracts(ctx.tier) if 'kw' in c.short]
    # empty slots / keyword arguments at the grammar level: the semantic
    # actions of the argument-list productions (contracts), and - the LALR
    # construction being outside the verifier's reach - a BOUNDED comparison
    # of the language the real parser accepts with the reference language
    from contracts import lexer
    from props._common import bounded_unit
    us += [contract_unit(c, world_setup=lexer.setup)
           for c in lexer.contracts() if 'p_arg' in c.short
           or 'p_incomplete' in c.short or 'p_named' in c.short]
    us.append(bounded_unit(
        'bounded:c12-arglists', 'c12_arglists.py',
        'BOUNDED: every token string over {value, comma, named argument} of '
        'length <= 8 inside f(...): accepted iff in the reference language, '
        'with the reference slot list'))
    us.append(bounded_unit(
        'bounded:c12-spellings', 'c12_spellings.py',
        'BOUNDED: every library function callable by name, with argument '
        'tuples from a typed corpus (the first values each declared type '
        'accepts): positional / keyword from every split point / empty slot '
        'vs omitted default / call(name, args, kwargs) / function vs method '
        'form all give the same result or error class', timeout=900))
    us.append(bounded_unit(
        'bounded:c05-signatures', 'c05_signatures.py',
        'BOUNDED: 288 Python signature shapes (0..2 positional parameters, '
        'defaults None / 0 / str on a suffix, *args, keyword-only with and '
        'without default, **kwargs): the recorded FunctionDefinition agrees '
        'with inspect.signature (default, position, inferred type, keyword '
        'name under both conventions in either registration order); values '
        'of any type are accepted in the *args region'))
    return us
