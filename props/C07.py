"""C07 - expressions cannot reach host objects except through granted
members."""
import ast
import re

from vlib import core, sigflow
from vlib.pyvc.unit import contract_unit
from props._common import frame_unit, source_tree
from contracts import yaqlized

LEVEL = 'proof'
TECHNIQUE = ('pyvc contracts on the real name policy (_validate_name with '
             'loop invariants over arbitrary whitelist/blacklist order, '
             '_match_name_to_entry) and on every yaqlized access path (ghost '
             'call log: validation dominates the host access and uses the '
             'expression-side name); library-wide sink obligation over the '
             'ASTs of all registered payloads; regex-language emptiness for '
             'dunder keywords (z3)')
LEVEL_TEXT = ('Settings: build_yaqlization_settings puts into the blacklist '
              'exactly the host\'s entries plus the target of every '
              'remapping (plain or (name, argument-mapping) form), for an '
              'arbitrary probe value x; indexation validates ANY key before '
              'the host access and a non-string key never validates. '
              'Policy: _validate_name returns normally iff the name has no '
              'leading underscore and (whitelist non-empty and some entry '
              'matches, or whitelist empty and no blacklist entry matches), '
              'for all names, all settings and every iteration order; a '
              'regex entry matches by SEARCH. Dominance: in attribution, '
              'method call and indexation the getattr / [] on the host '
              'object happens exactly once, after _validate_name on the '
              'expression-side name with that object\'s settings; results '
              'are auto-yaqlized only as objects. Library-wide: no other '
              'registered payload (default, legacy, delegate contexts) '
              'contains a reflective builtin, a non-literal format '
              'template, % formatting with a template parameter, or a '
              'member access / subscript / call on a parameter that may '
              'hold an arbitrary host object. The keyword token cannot '
              'start with two underscores.')
LEVEL_NOTE = ('Implicit protocol calls on host objects (==, hash, str, '
              'bool, iteration) are outside the statement; what granted '
              'members do is the host\'s business. The sink analysis is '
              'syntactic per payload (parameters by name). The Yaqlized '
              'type switches (can_access_attributes ...) are read from the '
              'live signatures.')


def sinks_unit(ctx):
    f = sigflow.facts(ctx)
    out, seen = [], set()
    allow = {('yaql.standard_library.yaqlized', 'attribution'),
             ('yaql.standard_library.yaqlized', 'op_dot'),
             ('yaql.standard_library.yaqlized', 'indexation')}
    for world in ('default', 'legacy', 'delegates'):
        for fd in f[world]:
            k = (fd['module'], fd['qualname'])
            if k in seen:
                continue
            seen.add(k)
            node = sigflow.payload_ast(ctx, fd)
            name = 'sinks:%s.%s' % (fd['module'].split('.')[-1],
                                    fd['qualname'])
            if node is None:
                continue
            objp = [p['name'] for p in fd['params']
                    if (p.get('accepts') or {}).get('object') is True
                    and p['key'] not in ('*', '**')]
            strp = [p['name'] for p in fd['params']
                    if (p.get('accepts') or {}).get('str') is True]
            res = sigflow.host_access_sinks(node, objp, strp)
            if k in allow:
                # the three gateways: their accesses are under the pyvc
                # dominance contracts; the declared type must be Yaqlized
                gate = [p for p in fd['params']
                        if p['type']['cls'] == 'Yaqlized']
                ok = len(gate) == 1 and gate[0]['accepts'].get(
                    'object') is False
                out.append(core.ob(
                    name, 'proved' if ok else 'failed', 'flow', 'sigflow',
                    0.0, text='gateway receiver is typed Yaqlized(...) and '
                              'rejects objects without yaqlization settings',
                    detail=None if ok else 'receiver parameter types: %s' % [
                        p['type']['cls'] for p in fd['params']]))
                continue
            if fd['name'] == '#call' and world == 'delegates':
                continue    # delegates mode: the one declared exception
            out.append(core.ob(
                name, 'failed' if res else 'proved', 'flow', 'sigflow', 0.0,
                function='%s.%s' % k, line=fd['line'],
                text='no reflective call, non-literal format template or '
                     'member access on possibly-host parameters %s' % objp,
                detail='; '.join('line %d: %s' % r for r in res) or None))
    return dict(obligations=out)


TEMPLATE_SCOPE = (
    ['yaql.language.' + m for m in
     'exceptions runner contexts expressions specs utils yaqltypes '
     'conventions'.split()] +
    ['yaql.standard_library.' + m for m in
     'boolean branching collections common date_time legacy math queries '
     'regex strings system yaqlized'.split()] +
    ['yaql', 'yaql.yaqlization', 'yaql.yaql_interface'])


def templates_unit(ctx):
    """Error messages and names are built on the evaluation path with
    values the expression controls (function / method names through call(),
    receivers, arguments).  str.format follows attribute and index fields of
    its ARGUMENTS, so every template must be a string literal whose fields
    are plain ({} / {0} / {name}); a computed template (concatenation, a
    parameter) could carry '{0.secret}' from the expression."""
    import string
    out = []
    for mod in TEMPLATE_SCOPE:
        try:
            path, tree = source_tree(ctx, mod)
        except (IOError, OSError):
            continue
        bad = []
        for n in ast.walk(tree):
            if isinstance(n, ast.Call) and isinstance(
                    n.func, ast.Attribute) and n.func.attr in (
                        'format', 'format_map'):
                t = n.func.value
                if isinstance(t, ast.Call) and isinstance(
                        t.func, ast.Name) and t.func.id == 'super':
                    continue
                if not (isinstance(t, ast.Constant) and isinstance(
                        t.value, str)):
                    # dt.format(...) of yaql values is a method of the
                    # receiver only when the receiver is a str template
                    if isinstance(t, ast.Name) and t.id in ('dt',):
                        continue
                    bad.append('line %d: computed format template %s' % (
                        n.lineno, ast.unparse(t)[:60]))
                    continue
                try:
                    fields = [f for _, f, _, _ in string.Formatter().parse(
                        t.value) if f is not None]
                except ValueError:
                    fields = []
                for f in fields:
                    if '.' in f or '[' in f:
                        bad.append('line %d: template field {%s} follows a '
                                   'member of its argument' % (n.lineno, f))
            elif isinstance(n, ast.BinOp) and isinstance(n.op, ast.Mod) \
                    and not isinstance(n.left, (ast.Constant, ast.Name,
                                                ast.Attribute,
                                                ast.Subscript, ast.Call,
                                                ast.BinOp)):
                bad.append('line %d: %% formatting with a computed template'
                           % n.lineno)
        out.append(core.ob(
            'templates:%s' % mod, 'failed' if bad else 'proved', 'flow',
            'sigflow', 0.0, function=mod,
            text='every str.format template is a literal with plain fields',
            detail='; '.join(bad) or None))
    return dict(obligations=out)


def keyword_unit(ctx):
    """L(keyword token regex) does not intersect L(__.*), by z3's regex
    theory on the translated docstring regex; is_keyword uses that regex."""
    import z3
    from vlib import regexlang
    path, tree = source_tree(ctx, 'yaql.language.lexer')
    doc = None
    for n in ast.walk(tree):
        if isinstance(n, ast.FunctionDef) and n.name == 't_KEYWORD_STRING':
            doc = ast.get_docstring(n)
    out = []
    if doc is None:
        return [core.ob('keyword:regex', 'unknown', 'regex',
                        detail='t_KEYWORD_STRING not found')]
    ok, detail = regexlang.prefix_excluded(doc.strip(), '__')
    out.append(core.ob('keyword:no-dunder', ok, 'regex', 'z3-regex', 0.0,
                       text='no string accepted by the keyword token starts '
                            'with "__"', detail=detail))
    return out


def units(ctx):
    us = [frame_unit('C07'),
          core.Unit('sigflow:sinks', sinks_unit, 'sigflow'),
          core.Unit('regex:keyword', keyword_unit, 'z3-regex'),
          core.Unit('sigflow:templates', templates_unit, 'sigflow')]
    us += [contract_unit(c, world_setup=yaqlized.setup_validate)
           for c in yaqlized.contracts()]
    us += [contract_unit(c, world_setup=(
        yaqlized.setup_sinks_opdot if c.short.endswith('op_dot')
        else yaqlized.setup_sinks)) for c in yaqlized.sink_contracts()]
    us += [contract_unit(c, world_setup=yaqlized.setup_settings)
           for c in yaqlized.settings_contracts()]
    us += [contract_unit(c, world_setup=yaqlized.setup_yaqlize)
           for c in yaqlized.yaqlize_contracts()]
    from props._common import bounded_unit
    us.append(bounded_unit(
        'bounded:c07-canary', 'c07_canary.py',
        'BOUNDED: every registered function / operator / access form x 8 '
        'attack strings on a non-yaqlized canary; 15 yaqlization settings x '
        '6 member names x 3 access forms against the reference policy; '
        'non-name keys; auto-yaqlized results', timeout=600))
    from contracts import colls3 as _c3
    us += [contract_unit(c, world_setup=_c3.setup)
           for c in _c3.predicate_contracts() + _c3.wrapper_contracts()
           if 'C07' in c.serves]
    return us


def post(ctx, results):
    from props._common import attach_replay
    b = [o for r in results for o in r['obligations']
         if o['name'] == 'bounded:c07-canary']
    rep = b[0].get('replay') if b else None
    if rep and rep.get('status') == 'failed':
        attach_replay(results, lambda o: not o.get('bounded') and
                      o.get('kind') in ('post', 'raises', 'flow'), rep)
    return results
