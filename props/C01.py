"""C01 - a shared engine parses every text as if it were alone."""
from vlib import core
from props._common import (pyvc_units, frame_unit, run_replay, attach_replay)
from contracts import core_glue

LEVEL = 'proof'
TECHNIQUE = ('frame contracts on YaqlEngine, every lexer rule, every parser '
             'production and the expression constructors (syntactic '
             'write-frame checker over the real AST) + pyvc contracts on '
             'YaqlEngine.__call__ (private lexer clone per parse, exact text) '
             'and yaql.eval (cache keyed by the exact text); '
             'non-interference argument for histories and schedules')
LEVEL_TEXT = ('Obligations: (1) YaqlEngine.__call__ passes the text itself '
              'and a fresh clone of the engine lexer to parse and writes '
              'nothing of the engine; (2) no lexer rule / production / '
              'p_error / expression constructor writes self, module state or '
              'anything but the fresh token / production slot; (3) no '
              'module- or class-level mutable state exists in lexer/parser/'
              'factory beyond the reviewed inventory; (4) yaql.eval looks up '
              'and fills its cache under the exact expression text. With '
              'ply\'s documented contract (parse keeps its stacks in locals, '
              'Lexer.input rewinds, clone is an independent cursor) the '
              'result is a function of text and operator table for all '
              'histories and all interleavings.')
LEVEL_NOTE = ('Assumed, not proved: ply\'s own frames and functional '
              'behaviour (LRParser.parse / Lexer.token / Lexer.clone); A7/A8 '
              'of DESIGN.md; GIL atomicity for the write-only parser fields '
              'and yacc module globals that no yaql code reads.')
ASSUMPTIONS = ['T-ply: LRParser.parse keeps per-parse state in locals and '
               'in the lexer object it is given; Lexer.clone() returns an '
               'independent cursor sharing only immutable rule tables']


def units(ctx):
    return [frame_unit('C01')] + pyvc_units(core_glue.contracts(), 'C01',
                                            core_glue.setup)


def post(ctx, results):
    if any(o['status'] == 'failed' for r in results
           for o in r['obligations']):
        rep = run_replay('c01_schedule.py', ctx)
        attach_replay(results, lambda o: True, rep)
    return results
