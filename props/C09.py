"""C09 - evaluation has no side effects on host data, context or statement."""
from vlib import core
from props._common import pyvc_units, frame_unit
from contracts import core_glue

LEVEL = 'proof'
TECHNIQUE = ('frame contracts (modifies clauses, default empty) on every '
             'registered payload and every core evaluation function, decided '
             'by origin-tracking write-frame analysis of the real AST '
             '(FRESH / SELF / PARAM / GLOBAL / NONLOCAL)')
LEVEL_TEXT = ('For every function on the evaluation path the set of heap '
              'writes is computed from the source and checked against its '
              'modifies clause: payloads may write only objects they '
              'allocated or the context injected by the runner; Statement.'
              'evaluate may write only `$` of the context it was given; '
              'Statement.__call__ registers #finalize only in a fresh child; '
              'no parameter-derived (host) object is ever mutated. Holds for '
              'all expressions and data, in both convertInputData modes '
              '(the argument does not depend on the mode).')
LEVEL_NOTE = ('A7 (syntactically visible writes), origin rules of the frame '
              'checker (copying builtins/methods return FRESH), engine-'
              'internal OrderingIterable parameters of thenBy are a declared '
              'exception. Freshness of convert_output_data results is '
              'covered by C10. Host iterators are consumed (inherent).')


def units(ctx):
    from contracts import utils
    us = [frame_unit('C09')]
    us += pyvc_units(core_glue.contracts(), 'C09', core_glue.setup)
    us += pyvc_units(utils.contracts(), 'C09', utils.setup)
    from vlib.pyvc.unit import contract_unit
    us += [contract_unit(c, world_setup=utils.setup_input)
           for c in utils.input_contracts()]
    from props._common import bounded_unit
    us.append(bounded_unit(
        'bounded:c09-effects', 'c09_effects.py',
        'BOUNDED: 66 library expressions over mutable host lists / dicts / '
        'sets x both convertInputData modes: deep before/after comparison, '
        'aliasing probe (the result is mutated in place), context chain '
        'variables and functions, statement reuse histories'))
    return us


def post(ctx, results):
    from props._common import attach_replay
    b = [o for r in results for o in r['obligations']
         if o['name'] == 'bounded:c09-effects']
    rep = b[0].get('replay') if b else None
    if rep and rep.get('status') == 'failed':
        attach_replay(results, lambda o: not o.get('bounded') and
                      o.get('kind') in ('post', 'raises', 'frame'), rep)
    return results
