"""C10 - data round-trips and every result is finalised into plain data."""
from vlib import core
from props._common import pyvc_units, frame_unit
from contracts import utils, core_glue

LEVEL = 'proof'
TECHNIQUE = ('pyvc contracts on the real convert_output_data for every kind '
             'of value (mapping, tuple, list, set, lazy iterable, scalar) '
             'under all four option combinations, with the recursive call '
             'abstracted by its own contract (structural induction); '
             'contracts on Statement.__call__ (finaliser chosen per call '
             'from the context of that call) and on both YaqlInterface '
             'call paths (exactly one unconditional convert_output_data); '
             'frames for the statement / interface / conversion functions')
LEVEL_TEXT = ('For each container kind and each of the 4 combinations of '
              'convertTuplesToLists x convertSetsToLists the result of one '
              'level of convert_output_data is a fresh dict / list / tuple / '
              'set of exactly the prescribed plain type whose keys, values '
              'and elements are the recursive conversions of the input\'s; '
              'views and lazy iterables become lists. By induction on the '
              'recursive contract every level of every result is plain.')
LEVEL_NOTE = ('Kinds are decided by the class lattice as encoded for the '
              'symbolic value classes (dict/FrozenDict => Mapping, frozenset/'
              'set/dict views => Set, generators/map/filter/'
              'OrderingIterable => other iterables). The "always succeeds" '
              'half of the property is violated when a container is a dict '
              'key or set member (known findings below); convert_input_data is '
              'under contract for tuples, lists, mappings and scalars (sets '
              'and lazy iterables: frames only).')


def hashability_probe(ctx):
    """Known findings: finalisation raises TypeError when a container is a
    dict key or (with sets kept) a set member - the two demands of the
    property contradict each other for such values."""
    code = r'''
import json, warnings
warnings.simplefilter('ignore')
import yaql
out = {}
for tag, opts, expr in [
    ('dict-key-is-container', {}, 'dict([1, 2] => 3)'),
    ('set-member-is-container', {'yaql.convertSetsToLists': False},
     'set([1, 2], [3, 4])')]:
    e = yaql.YaqlFactory().create(options=opts)
    try:
        e(expr).evaluate(context=yaql.create_context())
        out[tag] = 'ok'
    except TypeError as ex:
        out[tag] = 'TypeError: %s' % ex
    except Exception as ex:
        out[tag] = '%s: %s' % (type(ex).__name__, ex)
print(json.dumps(out))
'''
    import json
    rc, so, se = core.run_python(code, ctx.repo, 60)
    try:
        res = json.loads(so.strip().splitlines()[-1])
    except Exception:
        return [core.ob('finalize:probe', 'error', 'probe',
                        detail=(se or so)[-400:])]
    out = []
    for tag, r in res.items():
        out.append(core.ob(
            'finalize-total:' + tag, 'proved' if r == 'ok' else 'failed',
            'raises', 'cpython', 0.0, probe=True,
            text='result finalisation succeeds for a %s' % tag,
            detail=None if r == 'ok' else r,
            replay=dict(status='failed', detail=r) if r != 'ok' else None))
    return out


def units(ctx):
    from vlib.pyvc.unit import contract_unit
    us = pyvc_units(utils.contracts(), 'C10', utils.setup)
    # the carved-out region, as probes: expected to fail while the findings
    # are open; any OTHER exception site still fails the main obligations
    us += [contract_unit(c, probe=True, world_setup=utils.setup)
           for c in utils.contracts() if 'C10-probe' in c.serves]
    us.append(core.Unit('finalize-probe', hashability_probe, 'cpython'))
    us += pyvc_units(core_glue.contracts(), 'C10', core_glue.setup)
    us += [contract_unit(c, world_setup=st)
           for c, st in core_glue.yi_contracts()]
    us += [contract_unit(c, world_setup=utils.setup_input)
           for c in utils.input_contracts()]
    us.append(frame_unit('C10'))
    # end to end (expression -> evaluation -> finalisation), natively: a
    # bounded stand-in and the source of real failing inputs
    from props._common import bounded_unit
    us.append(bounded_unit(
        'bounded:c10-finalize', 'c10_finalize.py',
        'BOUNDED: 60 expressions producing every kind of value x 4 option '
        'combinations x 2 entry points, falsy and generator documents, '
        'YaqlInterface call forms, statement reuse across contexts: the '
        'finalised result is plain data'))
    from contracts import utils as _ut
    from vlib.pyvc.unit import contract_unit as _cu2
    us += [_cu2(c, world_setup=_ut.setup) for c in _ut.predicate_contracts()]
    # the output options a statement is finalised under are those of the
    # engine it was parsed by: every call parses (no tree shared between
    # engines with different options), copy() carries its own options
    from contracts import core_glue as _cg10
    from vlib.pyvc.unit import contract_unit as _cu10
    us += [_cu10(c, world_setup=_cg10.setup) for c in _cg10.contracts()
           if c.short in ('factory.YaqlEngine.__call__',
                          'factory.YaqlEngine.copy')]
    return us


def post(ctx, results):
    from props._common import attach_replay
    b = [o for r in results for o in r['obligations']
         if o['name'] == 'bounded:c10-finalize']
    rep = b[0].get('replay') if b else None
    if rep and rep.get('status') == 'failed':
        attach_replay(results, lambda o: not o.get('bounded') and not
                      o.get('probe') and o.get('kind') in ('post', 'raises',
                                                            'frame'), rep)
    return results
