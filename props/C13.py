"""C13 - collection and query functions agree with their reference model."""
from vlib import core
from vlib.pyvc.unit import contract_unit
from props._common import pyvc_units, frame_unit, bounded_unit
from contracts import collections as cc, system, utils, colls2

LEVEL = 'proof'
TECHNIQUE = ('pyvc: functional postconditions (the executable model, '
             'written from the docstrings) on the real hand-written loops of '
             'collections/queries/system with loop invariants over '
             '(length, array) sequences; comparator / do_sort / thenBy / '
             'memorize contracts; pass-through contracts for the itertools '
             'wrappers; frames')
LEVEL_TEXT = ('Tier A (full functional contract, all inputs, no bound): '
              'delete, replace, insert (iterator and list overloads, which '
              'must agree), toList, indexOf, lastIndexOf, indexWhere, any, '
              'all, len, first, single, last, enumerate, append, splitAt, '
              'unpack, with, let. Tier B: the orderBy comparator is the '
              'lexicographic sign over the order fields with direction '
              'flags, do_sort is exactly one stable sorted() call, thenBy '
              'appends a lower-priority key; memorize replays its cache and '
              'pulls one new element when caught up. Tier C: where, '
              'takeWhile, skipWhile, skip, limit, select, reverse, '
              'aggregate call the named lazy constructor on their arguments '
              'in the right order.')
LEVEL_NOTE = ('Not under contract (BOUNDED model comparison only): '
              'groupBy/GroupAggregator, generateMany, zip, multi-operator '
              'pipelines and the algebraic laws between operators. '
              'sorted() stability, filter/map/itertools semantics are '
              'assumed (T-seq, T-lazy). delete / replace / replaceMany / '
              'insert are proved for EVERY position and count (negative '
              'ones included; the iterator and list overloads of insert '
              'disagree on negative positions and each is pinned as the '
              'suite pins it); slice for chunk lengths 1..3; flatten for '
              'scalar elements.')


def units(ctx):
    us = [frame_unit('C13')]
    us += pyvc_units(cc.contracts(), 'C13', cc.setup)
    us += [contract_unit(c, world_setup=cc.setup)
           for c in cc.ordering_contracts() + cc.wrapper_contracts()]
    us += [contract_unit(c, world_setup=cc.setup_mem)
           for c in cc.memorize_contracts()]
    us += pyvc_units(system.contracts(), 'C13', system.setup)
    us += [contract_unit(c, world_setup=cc.setup_mem)
           for c in cc.partition_contracts()]
    us += [contract_unit(c, world_setup=cc.setup_merge)
           for c in cc.merge_contracts()]
    us += [contract_unit(c, world_setup=colls2.setup_byint)
           for c in colls2.contracts()]
    us += [contract_unit(c, world_setup=cc.setup_functional)
           for c in cc.functional_contracts()]
    us += [contract_unit(c, world_setup=cc.setup_dicts)
           for c in cc.dict_builder_contracts()]
    # functions outside the deductive reach (ordering end-to-end, grouping,
    # join, distinct, memorize interleavings, ...): bounded model comparison
    us.append(bounded_unit(
        'bounded:c13-models', 'c13_models.py',
        'BOUNDED: 41 operators vs independent Python models on all '
        'collections of length <= 3 over {0,1,2} (tuple and one-shot '
        'iterator), integer arguments in [-1, 3]'))
    from contracts import utils as _ut
    from vlib.pyvc.unit import contract_unit as _cu2
    us += [_cu2(c, world_setup=_ut.setup) for c in _ut.predicate_contracts()]
    from contracts import colls3
    us += [contract_unit(c, world_setup=colls3.setup)
           for c in colls3.predicate_contracts() + colls3.wrapper_contracts()
           if 'C13' in c.serves]
    # equal dicts hash alike whatever their entry order (dict keys, set
    # members, distinct / groupBy keys)
    from contracts import utils as _u4
    from vlib.pyvc.unit import contract_unit as _cu4
    us += [_cu4(c, world_setup=_u4.setup) for c in _u4.contracts()
           if 'FrozenDict.__hash__' in c.short]
    from contracts import collections as _cc7
    from vlib.pyvc.unit import contract_unit as _cu7
    us += [_cu7(c, world_setup=_cc7.setup_mem)
           for c in _cc7.slice_contracts()]
    return us
