"""C04 - core evaluation semantics (the scoping clauses)."""
from props._common import pyvc_units, frame_unit
from contracts import contexts, system, evalglue, specs

LEVEL = 'proof'
TECHNIQUE = ('pyvc contracts with ghost call/write logs on the real scoping '
             'functions (get_delegate.func, Lambda.convert.func, Context.'
             'get_data/_normalize_name, let/with/unpack/->/./?., Function.'
             '__call__) + frame contracts; loop invariants for unpack and the '
             'parent walk')
LEVEL_TEXT = ('The "in particular" clauses of the property are each a proved '
              'contract: every invocation runs in a fresh child of the '
              'caller\'s context (bindings cannot leak outward); a lambda '
              'evaluates in a fresh child of the context captured at '
              'conversion time and publishes $1..$n there (lexical capture, '
              'innermost lambda wins); variable lookup returns the nearest '
              'binding, null bindings included, and None when unbound; $, $1 '
              'and the empty name are one variable; let/with/unpack bind '
              'exactly the documented names in the injected context. The '
              'first sentence of the property (agreement with an independent '
              'interpreter on all expressions) is a whole-program '
              'equivalence that function contracts do not express and is '
              'NOT claimed.')
LEVEL_NOTE = ('Callbacks, contexts reached through references, payloads and '
              'expression nodes are opaque values whose calls are recorded '
              'in a ghost log; what they do is outside the contract. List/'
              'map/index expression semantics and member projection over '
              'collections are covered only through C13 contracts.')


def units(ctx):
    us = [frame_unit('C04')]
    us += pyvc_units(contexts.contracts(), 'C04', contexts.setup)
    us += pyvc_units(system.contracts(), 'C04', system.setup)
    us += pyvc_units(evalglue.contracts(), 'C04', evalglue.setup)
    # the delegate as built by the real get_delegate (closure and all),
    # invoked: one fresh child per activation, handed to every converter
    from vlib.pyvc.unit import contract_unit
    us += [contract_unit(c, world_setup=specs.setup)
           for c in specs.invoked_delegate_contracts()]
    from contracts import evalglue as _eg
    from vlib.pyvc.unit import contract_unit as _cu
    us += [_cu(c, world_setup=_eg.setup_nodes) for c in _eg.node_contracts()]
    # variable lookup through whole context forests (null bindings shadow,
    # nearest layer first): bounded, and the source of real failing inputs
    from props._common import bounded_unit
    us.append(bounded_unit(
        'bounded:c17-forests', 'c17_forest.py',
        'BOUNDED: 1500 random context forests x every variable / function '
        'name against the reference layer model'))
    from contracts import colls3 as _c3
    from vlib.pyvc.unit import contract_unit as _cu3
    us += [_cu3(c, world_setup=_c3.setup)
           for c in _c3.predicate_contracts() + _c3.wrapper_contracts()
           if 'C04' in c.serves]
    # equal dicts hash alike whatever their entry order (dict keys, set
    # members, distinct / groupBy keys)
    from contracts import utils as _u4
    from vlib.pyvc.unit import contract_unit as _cu4
    us += [_cu4(c, world_setup=_u4.setup) for c in _u4.contracts()
           if 'FrozenDict.__hash__' in c.short]
    return us


def post(ctx, results):
    from props._common import attach_replay
    b = [o for r in results for o in r['obligations']
         if o['name'] == 'bounded:c17-forests']
    rep = b[0].get('replay') if b else None
    if rep and rep.get('status') == 'failed':
        attach_replay(results, lambda o: not o.get('bounded') and 'Context'
                      in o['name'] and o.get('kind') in (
                          'post', 'raises', 'inv-step', 'inv-init', 'frame'),
                      rep)
    return results
