"""C18 - concurrent evaluations do not interfere."""
import ast

from vlib import core
from props._common import (pyvc_units, frame_unit, run_replay, attach_replay,
                           source_tree)
from contracts import core_glue

LEVEL = 'proof'
TECHNIQUE = ('frame contracts (modifies clauses) on every function of the '
             'evaluation path, decided by a syntactic write-frame checker '
             'over the real AST; benign-cache (single publication) contract; '
             'pyvc contract on yaql.eval; non-interference (disjoint frames) '
             'lifts the per-function obligations to all schedules')
LEVEL_TEXT = ('Every function of runner/specs/yaqltypes/utils/expressions/'
              'contexts/yaql.__init__ and every standard-library payload is '
              'checked against an explicit modifies clause (default: writes '
              'only objects it allocated). Evaluation therefore writes no '
              'expression node, FunctionDefinition, smart type, engine, '
              'module global or pre-existing context (except the documented '
              '`$` binding and the reviewed stateful lazy objects), for all '
              'statements and all interleavings - nothing is enumerated. '
              'Caches must follow the single-publication rule.')
LEVEL_NOTE = ('Assumes A7 (writes are syntactically visible; setattr/exec '
              'fail closed), A8 (disjoint frames => schedule independence; '
              'GIL-atomic single stores), CPython builtins thread-safe for '
              'read-only use; stateful lazy objects (OrderingIterable, '
              'GroupAggregator, RememberingIterator) are assumed not to be '
              'stored by the host in the shared context. The frame checker '
              'itself is trusted.')
ASSUMPTIONS = ['stateful lazy objects are fresh per evaluation and are not '
               'published by the host into a shared context']

READ_PROTOCOL = {'__hash__', '__eq__', '__ne__', '__len__', '__iter__',
                 '__getitem__', '__contains__', 'get', '__repr__', '__str__',
                 'keys', 'values', 'items', 'get_data', 'get_functions',
                 'collect_functions', 'check', 'is_specialization_of'}


def single_publication(ctx):
    """Benign-cache contract: a read-protocol method may write to self only
    as ONE plain store per field, outside any loop, of a value that is not
    read back from the field (idempotent publication)."""
    out = []
    for module in ('yaql.language.utils', 'yaql.language.yaqltypes',
                   'yaql.language.contexts', 'yaql.language.specs',
                   'yaql.language.expressions',
                   'yaql.standard_library.queries'):
        path, tree = source_tree(ctx, module)
        for cls in [n for n in ast.walk(tree) if isinstance(n, ast.ClassDef)]:
            for fn in [n for n in cls.body if isinstance(n, ast.FunctionDef)
                       and n.name in READ_PROTOCOL]:
                problems = []
                stores = {}

                def visit(node, in_loop):
                    for ch in ast.iter_child_nodes(node):
                        loop = in_loop or isinstance(ch, (ast.For, ast.While))
                        if isinstance(ch, (ast.FunctionDef, ast.Lambda)):
                            continue
                        if isinstance(ch, ast.AugAssign) and _self_attr(
                                ch.target):
                            problems.append(
                                'read-modify-write of self.%s (line %d)' % (
                                    ch.target.attr, ch.lineno))
                        if isinstance(ch, ast.Assign):
                            for t in ch.targets:
                                if _self_attr(t):
                                    stores.setdefault(t.attr, []).append(
                                        ch.lineno)
                                    if loop:
                                        problems.append(
                                            'store to self.%s inside a loop '
                                            '(line %d)' % (t.attr, ch.lineno))
                        visit(ch, loop)
                visit(fn, False)
                for fld, lines in stores.items():
                    if len(lines) > 1:
                        problems.append('self.%s is stored %d times (lines '
                                        '%s): a concurrent reader can see an '
                                        'intermediate value' % (
                                            fld, len(lines), lines))
                if stores or problems:
                    out.append(core.ob(
                        'publication:%s.%s.%s' % (module, cls.name, fn.name),
                        'failed' if problems else 'proved', 'frame',
                        'frames', 0.0, function='%s.%s.%s' % (
                            module, cls.name, fn.name), line=fn.lineno,
                        text='single publication: each cached field is '
                             'written by one plain store outside loops',
                        detail='; '.join(problems) or None))
    if not out:
        out.append(core.ob('publication:none', 'proved', 'frame', 'frames',
                           0.0, text='no read-protocol method writes self'))
    return out


def _self_attr(t):
    return isinstance(t, ast.Attribute) and isinstance(
        t.value, ast.Name) and t.value.id == 'self'


def units(ctx):
    us = [frame_unit('C18')]
    us.append(core.Unit('publication', single_publication, 'frames'))
    us += pyvc_units(core_glue.contracts(), 'C18', core_glue.setup)
    return us


def post(ctx, results):
    bad = [o for r in results for o in r['obligations']
           if o['status'] == 'failed' and 'FrozenDict.__hash__' in o['name']]
    if bad:
        rep = run_replay('c18_hash.py', ctx)
        attach_replay(results, lambda o: 'FrozenDict.__hash__' in o['name'],
                      rep)
    return results
