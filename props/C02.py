"""C02 - the operator table decides the parse tree."""
from vlib.pyvc.unit import contract_unit
from props._common import (frame_unit, bounded_unit, run_replay,
                           attach_replay)
from contracts import factory, lexer

LEVEL = 'proof'
TECHNIQUE = ('pyvc contracts on the real YaqlFactory.__init__ (default, no '
             'keyword operator, legacy), insert_operator (7 table shapes x '
             'every anchor x arity x create_group, symbolic kinds, against '
             'the stated placement rule), _build_operator_table (5 shapes, '
             'SYMBOLIC kinds: group numbering and sign conventions) and the '
             'generated p_unary / p_binary productions; frame contracts for factory/parser/'
             'lexer construction; production contracts for argument lists; '
             'bounded stand-in: the generated LALR parser of real engines is '
             'compared with an independent table-driven precedence parser')
LEVEL_TEXT = ('Deductive part: for every table of the listed shapes and '
              'every assignment of operator kinds, each record is numbered '
              '1 + (separators before it), prefix / left-associative get a '
              'positive and suffix / right-associative a negative level, the '
              'other component is untouched, token names are fresh; the '
              'factory keeps no hidden state between create() calls '
              '(frames). The step from the table to the parse tree goes '
              'through ply\'s LALR construction, which is outside the '
              'verifier\'s reach: it is covered by a BOUNDED comparison '
              '(169k expressions over 6 tables) and labelled as such.')
LEVEL_NOTE = ('ply.yacc conflict resolution by the precedence rows is '
              'assumed; the precedence rows of _generate_operator_funcs are proved for 4 table shapes and '
              'covered only by the bounded comparison (tables: default, '
              'legacy, prefix+right-assoc dual role, same-group and '
              'new-group insertions, customised-after-create, tightest / '
              'loosest insertions; expressions: <= 3 binary and <= 2 prefix '
              'operators, with a parenthesised variant and extra '
              'whitespace; plus tables without a keyword operator and with '
              'a left-associative group looser than `->`). Suffix '
              'operators, indexers and member access are not generated.')


def units(ctx):
    us = [frame_unit('C02')]
    us += [contract_unit(c, world_setup=factory.setup)
           for c in factory.contracts() + factory.init_contracts()
           + factory.insert_contracts()]
    us += [contract_unit(c, world_setup=lexer.setup)
           for c in lexer.contracts() if 'p_arg' in c.short
           or 'p_args' in c.short or 'p_unary' in c.short
           or 't_KEYWORD_STRING' in c.short
           or 'p_binary' in c.short]
    # the ply precedence rows as a function of the operator table (levels
    # loosest first; inside a level the left/prefix row, then the
    # right/suffix row)
    us += [contract_unit(c, world_setup=lexer.setup_precedence)
           for c in lexer.precedence_contracts()]
    from contracts import evalglue as _eg
    from vlib.pyvc.unit import contract_unit as _cu
    us += [_cu(c, world_setup=_eg.setup_nodes) for c in _eg.node_contracts()]
    us.append(bounded_unit(
        'bounded:c02-tables', 'c02_tables.py',
        'BOUNDED: real LALR parser vs table-driven reference parser on 6 '
        'operator tables x all expressions with <= 3 binary and <= 2 prefix '
        'operators (+ parenthesised variant)', timeout=600))
    return us


def post(ctx, results):
    """Replay: the insert_operator / constructor shape family run natively."""
    def hit(o):
        return 'insert_operator' in o['name'] or '__init__' in o['name']
    if any(o['status'] == 'failed' and hit(o)
           for r in results for o in r['obligations']):
        attach_replay(results, hit, run_replay('c02_insert.py', ctx))
    return results
