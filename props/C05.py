"""C05 - overload resolution follows the documented resolution rules."""
from vlib.pyvc.unit import contract_unit
from props._common import frame_unit, pyvc_units, run_replay, attach_replay
from contracts import runner, contexts, specs

LEVEL = 'proof'
TECHNIQUE = ('pyvc contracts on the real runner.call (kind predicate, layer '
             'collection, result quota check), choose_overload (shape family, '
             'symbolic candidates), translate_args (shape family), '
             '_is_specialization_of (loop invariant), MultiContext.'
             'get_functions; frames for runner/specs/yaqltypes/contexts')
LEVEL_TEXT = ('call(): candidates are gathered by name from the nearest '
              'context outward through collect_functions with exactly the '
              'function / method kind predicate; unknown name raises the '
              'registered-ness error of the right kind. choose_overload(): '
              'for every shape of the family the error raised or the '
              'delegate returned is the one the documented rules prescribe '
              '(kwargs-mode and laziness consistency, first layer with a '
              'typed match wins, unique most specific match inside it, '
              'eager arguments evaluated once and shared). map_args / '
              'get_delegate bind arguments as the reference binding model '
              'prescribes on a family of signature x call shapes (hidden '
              'parameters, defaults, aliases, keyword-only, *, **).')
LEVEL_NOTE = ('Shapes bound the number of candidates (<=3 per layer, <=2 '
              'layers) and arguments (<=2 positional, <=1 keyword); content '
              'is symbolic. collect_functions layering is proved in C17 for '
              'the member fan-out; the parent walk of collect_functions is '
              'covered by its own contract when present, else assumed. '
              'What a registration RECORDS about a Python signature '
              '(set_parameter reading inspect.getfullargspec) is under no '
              'deductive contract: BOUNDED driver c05_signatures.py (288 '
              'signature shapes against inspect.signature), never counted.')


def units(ctx):
    us = [frame_unit('C05')]
    us += [contract_unit(c, world_setup=runner.setup)
           for c in runner.contracts()]
    us += [contract_unit(c, world_setup=runner.setup_choose)
           for c in runner.choose_contracts(ctx.tier)]
    us += [contract_unit(c, world_setup=runner.setup_call)
           for c in runner.call_contracts()]
    us += [contract_unit(c, world_setup=runner.setup)
           for c in runner.translate_contracts()]
    us += pyvc_units(contexts.contracts(), 'C05', contexts.setup)
    us += [contract_unit(c, world_setup=specs.setup)
           for c in specs.binding_contracts(ctx.tier)]
    us += [contract_unit(c, world_setup=specs.setup)
           for c in specs.delegate_contracts(ctx.tier)]
    us += [contract_unit(c, world_setup=specs.setup)
           for c in specs.clone_contracts()]
    us += [contract_unit(c, world_setup=(
        specs.setup_definition_named if c.short.endswith('name=payload')
        else specs.setup_definition))
           for c in specs.definition_contracts()]
    us += [contract_unit(c, world_setup=specs.setup)
           for c in specs.strip_contracts()]
    from contracts import yaqltypes as _yt
    us += [contract_unit(c, world_setup=_yt.setup)
           for c in _yt.contracts() if 'C05' in c.serves]
    from props._common import bounded_unit
    us.append(bounded_unit(
        'bounded:c05-signatures', 'c05_signatures.py',
        'BOUNDED: 288 Python signature shapes (0..2 positional parameters, '
        'defaults None / 0 / str on a suffix, *args, keyword-only with and '
        'without default, **kwargs): the recorded FunctionDefinition agrees '
        'with inspect.signature (default, position, inferred type, keyword '
        'name under both conventions in either registration order); values '
        'of any type are accepted in the *args region'))
    return us


def post(ctx, results):
    if any(o['status'] == 'failed' and 'choose_overload' in o['name']
           for r in results for o in r['obligations']):
        rep = run_replay('c06_perms.py', ctx)
        attach_replay(results, lambda o: 'choose_overload' in o['name']
                      and rep.get('status') == 'failed', rep)
    return results
