"""C19 - string and regex functions agree with their reference model."""
from vlib.pyvc.unit import contract_unit
from props._common import frame_unit
from contracts import strings, regex

TECHNIQUE = ('contract-based deductive verification: sidecar pre/post '
             'contracts on the real functions, VCs generated from the source '
             'AST on every run (pyvc), discharged by z3 (cvc5 on unknown); '
             'loop invariants + ghost write log for _publish_match; frame '
             'obligations (no hidden state between calls) for both modules')
ASSUMPTIONS = [
    'A3: strings are sequences of code points; str methods upper/lower/'
    'strip/split/replace/join are uninterpreted (T-str): only argument '
    'order, defaults and pass-through are decided for them',
    'T-re: compiled patterns and match objects are opaque; groups()/'
    'groupdict()/start/end/group are uninterpreted functions of the match',
    'find/rfind/slicing follow CPython (encoded; cross-checked natively)',
]


def units(ctx):
    # results are functions of the arguments alone: no module-level state
    us = [frame_unit('C19')]
    for c in strings.contracts():
        if 'C19' in c.serves:
            us.append(contract_unit(c))
    for c in regex.contracts():
        us.append(contract_unit(c, world_setup=regex.setup))
    for c in regex.plumbing_contracts():
        us.append(contract_unit(c, world_setup=regex.setup_plumbing))
    for c in regex.wrapper_contracts():
        us.append(contract_unit(c, world_setup=regex.setup_wrappers))
    # string arguments reach the functions code point for code point
    from contracts import yaqltypes
    us += [contract_unit(c, world_setup=yaqltypes.setup)
           for c in yaqltypes.contracts()
           if c.short.endswith('convert/identity')]
    # the regex engine is opaque to the verifier (T-re): the whole family,
    # through the real engine, against an independent model over `re`
    from props._common import bounded_unit
    us.append(bounded_unit(
        'bounded:c19-regex', 'c19_regex.py',
        'BOUNDED: matches/=~/!~, search, searchAll, split, replace, '
        'replaceBy (both spellings, counts 0..2) with the match records '
        '($1.., named groups) seen by selectors, 18 patterns with numbered '
        'and named groups x flag combinations x all strings over {a,b,=} up '
        'to length 2 (4 in the thorough tier) plus Unicode samples',
        timeout=1500))
    from contracts import colls3 as _c3
    from vlib.pyvc.unit import contract_unit as _cu3
    us += [_cu3(c, world_setup=_c3.setup)
           for c in _c3.predicate_contracts() + _c3.wrapper_contracts()
           if 'C19' in c.serves]
    return us


def post(ctx, results):
    from props._common import attach_replay
    bounded = [o for r in results for o in r['obligations']
               if o['name'] == 'bounded:c19-regex']
    rep = (bounded[0].get('replay') if bounded else None)
    if rep and rep.get('status') == 'failed':
        attach_replay(results, lambda o: not o.get('bounded')
                      and 'regex' in o.get('name', '')
                      and o.get('kind') in ('post', 'raises', 'inv-step',
                                            'inv-init', 'encoding'), rep)
    return results

LEVEL = 'proof'
LEVEL_TEXT = ('Every listed strings/regex function is checked against a '
              'pre/post contract written from its documented meaning; the '
              'verification conditions are generated from the real source on '
              'every run and discharged by an SMT solver for all strings and '
              'all integer arguments in the property\'s domain (no bound). '
              'The index functions (substring, indexOf*, lastIndexOf*) and '
              '_publish_match (loop invariants over a ghost write log) get '
              'full functional contracts; thin wrappers get pass-through '
              'contracts over uninterpreted str/re methods.')
LEVEL_NOTE = ('Trusted: the VC generator itself, z3/cvc5, CPython str/re '
              'semantics as encoded (find/rfind/slices) or left '
              'uninterpreted (upper/lower/strip/split/replace/join, regex '
              'engine). search / searchAll / replaceBy plumbing (a child '
              'context per match, the match published where the lambda '
              'sees it) is under contract; the regex family end-to-end '
              '(match records of numbered and named groups) is a BOUNDED '
              'comparison with a model over `re`. Not covered: join.')
