"""Shared helpers for the per-property check modules."""
import ast
import json
import os

from vlib import core
from vlib.pyvc.unit import contract_unit
from vlib.frames_unit import frame_unit


def pyvc_units(contracts, pid, setup=None):
    return [contract_unit(c, world_setup=setup) for c in contracts
            if pid in c.serves]


def run_replay(script, ctx, timeout=180):
    """Run a native replay driver against the tree under test; it prints one
    JSON object with a `status` of ok|failed."""
    code = "import runpy,sys; runpy.run_path(%r, run_name='__main__')" % (
        os.path.join(ctx.home, 'replays', script))
    rc, out, err = core.run_python(code, ctx.repo, timeout)
    try:
        return json.loads(out.strip().splitlines()[-1])
    except Exception:
        return dict(status='error', detail=(err or out)[-600:])


def attach_replay(results, match, replay):
    """Attach a native replay result to every failed obligation whose name
    satisfies `match`."""
    for r in results:
        for o in r['obligations']:
            if o['status'] == 'failed' and match(o) and not o.get('replay'):
                o['replay'] = replay
    return results


def source_tree(ctx, module):
    path = os.path.join(ctx.repo, *module.split('.')) + '.py'
    if not os.path.exists(path):
        path = os.path.join(ctx.repo, *module.split('.'), '__init__.py')
    return path, ast.parse(open(path).read())


def find_def(tree, qualname):
    body = tree.body
    node = None
    for part in qualname.split('.'):
        node = None
        for n in body:
            if isinstance(n, (ast.FunctionDef, ast.ClassDef)) and \
                    n.name == part:
                node = n
        if node is None:
            return None
        body = node.body
    return node


def bounded_unit(name, script, bound_text, timeout=300):
    """A BOUNDED stand-in (never counted as discharged): runs a native
    model-comparison script against the tree under test."""
    def run(ctx):
        r = run_replay(script, ctx, timeout)
        st = {'ok': 'proved', 'failed': 'failed'}.get(r.get('status'),
                                                      'error')
        o = core.ob(name, st, 'bounded', 'cpython', 0.0, bounded=True,
                    text=bound_text + ' (%s cases)' % r.get('cases'),
                    detail=None if st == 'proved' else json.dumps(r)[:1500])
        if st == 'failed':
            o['replay'] = dict(status='failed', **{
                k: v for k, v in r.items() if k != 'status'})
        return [o]
    return core.Unit(name, run, 'cpython-bounded')
