"""C20 - date/time values denote instants consistently."""
from vlib.pyvc.unit import contract_unit
from props._common import pyvc_units, frame_unit
from contracts import date_time

LEVEL = 'proof'
TECHNIQUE = ('pyvc contracts on every date_time payload over an assumed '
             'datetime model T-dt (datetime = wall-clock microseconds + '
             'offset + awareness, timedelta = microseconds); parameter '
             'preconditions are derived from the DECLARED smart types of the '
             'live signatures (DateTime() => aware); frames for hidden state')
LEVEL_TEXT = ('For all datetimes, offsets, timespans and timestamps: '
              'datetime(s, o) has instant s and offset o; timestamp is the '
              'instant in seconds (naive host values taken as UTC through '
              'the declared type); utc keeps the instant at offset zero; '
              '+/- shift the instant by the span and keep the zone, so '
              '(d + t) - t = d and (d + t) - d = t follow; ordering compares '
              'instants; microseconds is exact and the other unit properties '
              'are that quantity divided by the unit; '
              'timespan(microseconds => x.microseconds) = x.')
LEVEL_NOTE = ('T-dt is assumed (CPython datetime / dateutil.tz algebra); '
              'floats are reals under an uninterpreted rounding, offsets in '
              'seconds are assumed exactly representable; datetime_from_'
              'string / format / now / localtz (parser, strftime, clock) '
              'are not under contract; civil-calendar fields are '
              'uninterpreted functions of the wall-clock reading.')


def units(ctx):
    us = [frame_unit('C20')]
    us += pyvc_units(date_time.contracts(), 'C20', date_time.setup)
    us += [contract_unit(c, probe=True, world_setup=date_time.setup)
           for c in date_time.contracts() if 'C20-probe' in c.serves]
    # native twin of the whole family (replay source for the contracts
    # above): the identities of the statement on boundary values
    from props._common import bounded_unit
    us.append(bounded_unit(
        'bounded:c20-instants', 'c20_instants.py',
        'BOUNDED: the identities of the statement evaluated by the real '
        'engine on boundary datetimes (years 1..9999, offsets up to '
        '+-23:59), timespans from 1 microsecond to the whole calendar, '
        'timestamps, naive and aware host datetimes'))
    return us


def post(ctx, results):
    from props._common import attach_replay
    bounded = [o for r in results for o in r['obligations']
               if o['name'] == 'bounded:c20-instants']
    rep = (bounded[0].get('replay') if bounded else None)
    if rep and rep.get('status') == 'failed':
        attach_replay(results, lambda o: not o.get('bounded')
                      and o.get('kind') in ('post', 'raises'), rep)
    return results
