"""C20 - date/time values denote instants consistently."""
from vlib.pyvc.unit import contract_unit
from props._common import pyvc_units, frame_unit
from contracts import date_time

LEVEL = 'proof'
TECHNIQUE = ('pyvc contracts on every date_time payload over an assumed '
             'datetime model T-dt (datetime = wall-clock microseconds + '
             'offset + awareness, timedelta = microseconds); parameter '
             'preconditions are derived from the DECLARED smart types of the '
             'live signatures (DateTime() => aware); frames for hidden state')
LEVEL_TEXT = ('For all datetimes, offsets, timespans and timestamps: '
              'datetime(s, o) has instant s and offset o; timestamp is the '
              'instant in seconds (naive host values taken as UTC through '
              'the declared type); utc keeps the instant at offset zero; '
              '+/- shift the instant by the span and keep the zone, so '
              '(d + t) - t = d and (d + t) - d = t follow; ordering compares '
              'instants; microseconds is exact and the other unit properties '
              'are that quantity divided by the unit; '
              'timespan(microseconds => x.microseconds) = x.')
LEVEL_NOTE = ('T-dt is assumed (CPython datetime / dateutil.tz algebra); '
              'floats are reals under an uninterpreted rounding, offsets in '
              'seconds are assumed exactly representable; datetime_from_'
              'string / format / now / localtz (parser, strftime, clock) '
              'are not under contract; civil-calendar fields are '
              'uninterpreted functions of the wall-clock reading.')


def units(ctx):
    us = [frame_unit('C20')]
    us += pyvc_units(date_time.contracts(), 'C20', date_time.setup)
    us += [contract_unit(c, probe=True, world_setup=date_time.setup)
           for c in date_time.contracts() if 'C20-probe' in c.serves]
    return us
