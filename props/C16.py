"""C16 - literals denote exactly the values they spell."""
import ast

from vlib import core, regexlang
from props._common import pyvc_units, source_tree, bounded_unit
from contracts import lexer, core_glue
from vlib.pyvc.unit import contract_unit

LEVEL = 'proof'
TECHNIQUE = ('regular-language lemmas decided by z3 on translations of the '
             'real token and escape regexes (every quoted spelling is one '
             'token; the escape regex recognises every documented escape '
             'form and nothing that starts elsewhere; dunder keywords are '
             'rejected) + pyvc contracts on the real token rules (integer iff '
             'no dot, the decoded body, the keyword table, Constant nodes) + '
             'a bounded round-trip stand-in for the re.sub scan')
LEVEL_TEXT = ('Lemmas (all strings, no bound): for q in {\', "} the language '
              'q (\\\\[\\\\q] | [^\\\\q])* q of canonical spellings is '
              'included in the token regex, so every string has a spelling '
              'that is ONE token; the verbatim spelling language is included '
              'in its token regex; every documented escape form (\\xhh, '
              '\\uhhhh, \\Uhhhhhhhh with hex digits of either case, 1-3 '
              'octal digits, \\N{name}, the single-character escapes) is in '
              'L(ESCAPE_SEQUENCE_RE), and every match of that regex starts '
              'with a backslash; keyword tokens cannot start with "__". '
              'Contracts: t_NUMBER yields int(text) iff there is no dot, '
              'else float(text); string rules decode exactly the body '
              'between the quotes; verbatim strings change nothing but an '
              'escaped back quote; true/false/null and operator words map '
              'through their tables, any other keyword denotes its own text; '
              'Constant / KeywordConstant nodes carry the token value.')
LEVEL_NOTE = ('The left-to-right scan of re.sub over a canonical spelling '
              '(the induction of DESIGN C16-2) is NOT mechanised: it is '
              'covered by the bounded stand-in (all strings of length <= 3 '
              'over a quote/backslash-biased alphabet + seeded random ones, '
              'all escape forms, integers up to 10**4000). codecs.decode and '
              'int/float are assumed (T-conv). Known finding: a string that '
              'ends in a backslash or contains \\` has no verbatim spelling.')


def lemmas_unit(ctx):
    import z3
    R = regexlang
    path, tree = source_tree(ctx, 'yaql.language.lexer')
    rx, esc = {}, None
    for n in ast.walk(tree):
        if isinstance(n, ast.FunctionDef) and n.name.startswith('t_'):
            d = ast.get_docstring(n)
            if d:
                rx[n.name] = d.strip()
        if isinstance(n, ast.Assign) and any(
                isinstance(t, ast.Name) and t.id == 'ESCAPE_SEQUENCE_RE'
                for t in n.targets) and isinstance(n.value, ast.Call) \
                and n.value.args and isinstance(n.value.args[0],
                                                ast.Constant):
            esc = n.value.args[0].value
    out = []

    def add(name, st, text, detail=None):
        out.append(core.ob('lemma:' + name, st, 'regex', 'z3-regex', 0.0,
                           text=text, detail=detail))
    any1 = R.ANYCHAR
    BS = z3.Re('\\')
    for rule, q in (('t_QUOTED_STRING', "'"), ('t_DOUBLE_QUOTED_STRING', '"')):
        if rule not in rx:
            add(rule, 'unknown', 'token regex found')
            continue
        Q = z3.Re(q)
        plain = z3.Intersect(any1, z3.Complement(z3.Union(BS, Q)))
        canon = z3.Concat(Q, z3.Star(z3.Union(
            plain, z3.Concat(BS, z3.Union(BS, Q)))), Q)
        try:
            tok = R.to_z3(rx[rule])
        except R.Unsupported as e:
            add(rule, 'unknown', 'regex translation', str(e))
            continue
        st, w = R.decide_empty(z3.Intersect(canon, z3.Complement(tok)))
        add(rule + ':canonical-spelling-is-a-token', st,
            'every canonical %s-quoted spelling is matched entirely by %s'
            % (q, rule), None if st == 'proved' else 'witness: %r' % w)
    if 't_QUOTED_VERBATIM_STRING' in rx:
        BQ = z3.Re('`')
        plain = z3.Intersect(any1, z3.Complement(z3.Union(BS, BQ)))
        # spelling of s (no "\\`" inside, no trailing backslash, no backslash
        # directly before a newline): back quotes escaped, backslashes kept
        canon = z3.Concat(BQ, z3.Star(z3.Union(
            plain, z3.Concat(BS, BQ), z3.Concat(BS, z3.Intersect(
                any1, z3.Complement(z3.Union(BQ, z3.Re('\n'))))))), BQ)
        try:
            tok = R.to_z3(rx['t_QUOTED_VERBATIM_STRING'])
            st, w = R.decide_empty(z3.Intersect(canon, z3.Complement(tok)))
            add('t_QUOTED_VERBATIM_STRING:spelling-is-a-token', st,
                'every verbatim spelling is matched entirely by the '
                'verbatim token regex',
                None if st == 'proved' else 'witness: %r' % w)
        except R.Unsupported as e:
            add('t_QUOTED_VERBATIM_STRING', 'unknown', 'regex translation',
                str(e))
    if esc is None:
        add('ESCAPE_SEQUENCE_RE', 'unknown', 'escape regex found')
    else:
        try:
            E = R.to_z3(esc)
            hexd = z3.Union(z3.Range('0', '9'), z3.Range('a', 'f'),
                            z3.Range('A', 'F'))
            octd = z3.Range('0', '7')
            documented = z3.Union(
                z3.Concat(BS, z3.Re('U'), z3.Loop(hexd, 8, 8)),
                z3.Concat(BS, z3.Re('u'), z3.Loop(hexd, 4, 4)),
                z3.Concat(BS, z3.Re('x'), z3.Loop(hexd, 2, 2)),
                z3.Concat(BS, z3.Loop(octd, 1, 3)),
                z3.Concat(BS, z3.Re('N{'), z3.Plus(z3.Intersect(
                    any1, z3.Complement(z3.Re('}')))), z3.Re('}')),
                z3.Concat(BS, z3.Union(*[z3.Re(c) for c in
                                         '\\\'"abfnrtv'])))
            st, w = R.decide_empty(z3.Intersect(documented,
                                                z3.Complement(E)))
            add('escape:documented-forms-recognised', st,
                'every documented escape form (hex digits of either case) '
                'is in L(ESCAPE_SEQUENCE_RE)',
                None if st == 'proved' else 'witness: %r' % w)
            st, w = R.decide_empty(z3.Intersect(E, z3.Concat(
                documented, z3.Plus(documented))))
            add('escape:one-unit-per-match', st,
                'no match of ESCAPE_SEQUENCE_RE is a run of two or more '
                'well-formed escapes: consecutive escapes are decoded one '
                'by one', None if st == 'proved' else 'witness: %r' % w)
            st, w = R.decide_empty(z3.Intersect(E, z3.Complement(
                z3.Concat(BS, z3.Plus(any1)))))
            add('escape:starts-with-backslash', st,
                'every match of ESCAPE_SEQUENCE_RE is a backslash followed '
                'by at least one character',
                None if st == 'proved' else 'witness: %r' % w)
        except R.Unsupported as e:
            add('ESCAPE_SEQUENCE_RE', 'unknown', 'regex translation', str(e))
    if 't_KEYWORD_STRING' in rx:
        st, d = R.prefix_excluded(rx['t_KEYWORD_STRING'], '__')
        add('keyword:no-dunder', st, 'keyword tokens cannot start with "__"',
            d)
        # ... and every other identifier-shaped word IS a keyword token (it
        # denotes its own text): letters / digits / underscores, not starting
        # with a digit nor with two underscores
        try:
            K = R.to_z3(rx['t_KEYWORD_STRING'])
            letter = z3.Union(z3.Range('a', 'z'), z3.Range('A', 'Z'))
            word = z3.Union(letter, z3.Range('0', '9'), z3.Re('_'))
            ident = z3.Concat(z3.Union(letter, z3.Re('_')), z3.Star(word))
            dunder = z3.Concat(z3.Re('__'), z3.Star(word))
            st, w = R.decide_empty(z3.Intersect(
                ident, z3.Complement(dunder), z3.Complement(K)))
            add('keyword:identifiers-accepted', st,
                'every identifier-shaped word not starting with "__" matches '
                'the keyword token regex', None if st == 'proved'
                else 'witness: %r' % w)
        except R.Unsupported as e:
            add('keyword:identifiers-accepted', 'unknown',
                'regex translation', str(e))
    return dict(obligations=out, trusted=['z3 regular-expression theory'])


def verbatim_probe(ctx):
    """Known finding: no verbatim spelling for a string ending in a backslash
    (the closing quote is read as an escaped back quote)."""
    code = r'''
import json, warnings
warnings.simplefilter('ignore')
import yaql
e = yaql.YaqlFactory().create()
try:
    v = e('`\\`').evaluate()
    print(json.dumps(dict(status='ok' if v == '\\' else 'failed', got=v)))
except Exception as ex:
    print(json.dumps(dict(status='failed', error=type(ex).__name__)))
'''
    import json
    rc, so, se = core.run_python(code, ctx.repo, 60)
    try:
        r = json.loads(so.strip().splitlines()[-1])
    except Exception:
        return [core.ob('verbatim:probe', 'error', 'probe',
                        detail=(se or so)[-300:])]
    ok = r.get('status') == 'ok'
    return [core.ob('verbatim:trailing-backslash',
                    'proved' if ok else 'failed', 'post', 'cpython', 0.0,
                    probe=True,
                    text='the one-backslash string has a verbatim spelling',
                    detail=None if ok else json.dumps(r),
                    replay=None if ok else dict(r, status='failed'))]


def units(ctx):
    us = [core.Unit('regex:lemmas', lemmas_unit, 'z3-regex'),
          core.Unit('probe:verbatim', verbatim_probe, 'cpython')]
    us += pyvc_units(lexer.contracts(), 'C16', lexer.setup)
    from props._common import frame_unit
    us.append(frame_unit('C16'))
    # the lexer sees EXACTLY the text the host passed (no normalisation of
    # line ends, case or spacing between the API and the token rules)
    us += [contract_unit(c, world_setup=core_glue.setup)
           for c in core_glue.contracts()
           if c.short in ('factory.YaqlEngine.__call__', 'yaql.eval/warm')]
    us.append(bounded_unit(
        'bounded:c16-literals', 'c16_literals.py',
        'BOUNDED: quoted/verbatim round trip for all strings of length <= 3 '
        'over a quote/backslash-biased alphabet + 300 seeded random strings, '
        'every escape form, integers 10**k+-1 up to k=4000 and digit-length '
        'sweep, decimals, keywords'))
    return us
