"""C06 - resolution does not depend on registration or iteration order."""
from vlib.pyvc.unit import contract_unit
from props._common import frame_unit, run_replay, attach_replay
from contracts import runner

LEVEL = 'proof'
TECHNIQUE = ('pyvc: the real choose_overload is verified against a SET-level '
             'postcondition (no mention of enumeration order) for every '
             'concrete shape of a family of layers x candidates with fully '
             'symbolic candidates (uninterpreted maps / typed_ok / laziness / '
             'specialization relation, not assumed transitive); '
             '_is_specialization_of by loop invariant for any arity; frame '
             'obligations for runner / specs / yaqltypes (the candidates '
             'share args, kwargs and mappings: none may be written)')
LEVEL_TEXT = ('For each shape (1-3 candidates in a layer, 1-2 layers, '
              'function and method calls) the candidates are arbitrary '
              'symbolic objects in a FIXED order; since every predicate on '
              'them is universally quantified, any permutation of a family '
              'is just another valuation, so proving the order-free '
              'postcondition (ambiguity / no-match conditions and the unique '
              'winner that specializes every other match) covers all '
              'permutations and all specialization relations of that size, '
              'including the 3-candidate case the property singles out. '
              'The shapes bound the family size, not the content.')
LEVEL_NOTE = ('Bounded in the number of candidates per layer (<=3) and '
              'layers (<=2); unbounded in everything else. Candidates, '
              'parameter definitions and smart types are opaque; map_args / '
              'get_delegate are uninterpreted here (their own contracts: '
              'C05/C12). Context.get_functions returning each layer as a set '
              'is covered by C17; MultiContext.get_functions (the merged '
              'layer is the union of the members\' layers) is part of this '
              'check. BOUNDED (never counted): c06_perms.py - 560 overload '
              'families x every enumeration order, a merged layer with one '
              'implementation under three declarations x every member order.')


def units(ctx):
    us = [frame_unit('C06')]
    us += [contract_unit(c, world_setup=runner.setup)
           for c in runner.contracts()]
    us += [contract_unit(c, world_setup=runner.setup_choose)
           for c in runner.choose_contracts(ctx.tier)]
    from contracts import yaqltypes as _yt
    us += [contract_unit(c, world_setup=_yt.setup)
           for c in _yt.contracts() if 'C06' in c.serves]
    # the merged layer of a MultiContext is the union of its members' layers
    from contracts import contexts as _cx
    us += [contract_unit(c, world_setup=_cx.setup)
           for c in _cx.contracts() if c.short == 'MultiContext.get_functions']
    from props._common import bounded_unit
    us.append(bounded_unit(
        'bounded:c06-perms', 'c06_perms.py',
        'BOUNDED: every family of 2 and 3 two-parameter overloads over 5 '
        'parameter types (a diamond of host classes, object, a lazy Lambda), '
        'positional and keyword call, a no_kwargs / ordinary mix, and a '
        'merged layer whose members register ONE implementation under '
        'different declarations: the outcome is the same for every '
        'enumeration order of the layer and every order of the members'))
    return us


def post(ctx, results):
    def hit(o):
        return 'choose_overload' in o['name'] or o['name'].startswith(
            'frame:yaql.language.specs.FunctionDefinition.')
    if any(o['status'] == 'failed' and hit(o)
           for r in results for o in r['obligations']):
        rep = run_replay('c06_perms.py', ctx)
        attach_replay(results, hit, rep)
    return results
