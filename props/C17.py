"""C17 - context trees resolve variables and functions layer by layer."""
from props._common import pyvc_units, frame_unit
from contracts import contexts

LEVEL = 'proof'
TECHNIQUE = ('pyvc: pre/post contracts on the real methods of Context, '
             'MultiContext, LinkedContext and ContextBase against an abstract '
             'layered view (uninterpreted own/parent/lookup with recursive '
             'axioms), loop invariants over the parent walk and the member '
             'fan-out; frames for the write side')
LEVEL_TEXT = ('Each context operation is proved once against the abstract '
              'layered view, so any forest and any history of operations is '
              'covered by induction (behavioural subtyping of ContextBase): '
              'get_data returns the value of the nearest defining layer for '
              'all three classes; set/delete touch only the own layer; name '
              'normalisation identifies $, $1, 1 and the empty name; '
              'MultiContext.get_functions is the union of all members.')
LEVEL_NOTE = ('Other contexts reached through parent/linked/member '
              'references are seen only through the abstract view (assumed '
              'to satisfy the same contracts - which are the ones proved '
              'here for each concrete class). Termination of the recursive '
              'constructors and of the parent walk (acyclic chains) is '
              'assumed. Sets of FunctionDefinitions are characteristic '
              'arrays over an opaque value sort. Also under contract: the '
              'function table of a layer (register / delete over a dict-of-'
              'sets view, exclusive marks), the composite classes\' '
              'delegation of register / delete, create_child_context of '
              'all three classes, the default function name under the '
              'layer\'s own convention. BOUNDED: random forests driven '
              'through write histories, compared with a flattened-layers '
              'reference after every step.')


def units(ctx):
    from props._common import bounded_unit
    us = [frame_unit('C17')] + pyvc_units(contexts.contracts(), 'C17',
                                          contexts.setup)
    # whole forests (the contracts see other contexts only through the
    # abstract view): random nested Context / MultiContext / LinkedContext
    # structures against an independent layer model - bounded, and the
    # source of real failing inputs for the deductive obligations
    us.append(bounded_unit(
        'bounded:c17-forests', 'c17_forest.py',
        'BOUNDED: 1500 random context forests (depth <= 3, null values, '
        'exclusive registrations, naming convention) x every variable name '
        '/ function name, compared with the reference layer model'))
    # registration under a layer's own naming convention
    from contracts import specs as _s6
    from vlib.pyvc.unit import contract_unit as _cu6
    us += [_cu6(c, world_setup=_s6.setup_definition_named)
           for c in _s6.definition_contracts() if 'C17' in c.serves]
    return us


def post(ctx, results):
    from props._common import attach_replay
    bounded = [o for r in results for o in r['obligations']
               if o['name'] == 'bounded:c17-forests']
    rep = (bounded[0].get('replay') if bounded else None)
    if rep and rep.get('status') == 'failed':
        attach_replay(results, lambda o: not o.get('bounded')
                      and o.get('kind') in ('post', 'raises', 'inv-step',
                                            'inv-init'), rep)
    return results
