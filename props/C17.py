"""C17 - context trees resolve variables and functions layer by layer."""
from props._common import pyvc_units, frame_unit
from contracts import contexts

LEVEL = 'proof'
TECHNIQUE = ('pyvc: pre/post contracts on the real methods of Context, '
             'MultiContext, LinkedContext and ContextBase against an abstract '
             'layered view (uninterpreted own/parent/lookup with recursive '
             'axioms), loop invariants over the parent walk and the member '
             'fan-out; frames for the write side')
LEVEL_TEXT = ('Each context operation is proved once against the abstract '
              'layered view, so any forest and any history of operations is '
              'covered by induction (behavioural subtyping of ContextBase): '
              'get_data returns the value of the nearest defining layer for '
              'all three classes; set/delete touch only the own layer; name '
              'normalisation identifies $, $1, 1 and the empty name; '
              'MultiContext.get_functions is the union of all members.')
LEVEL_NOTE = ('Other contexts reached through parent/linked/member '
              'references are seen only through the abstract view (assumed '
              'to satisfy the same contracts - which are the ones proved '
              'here for each concrete class). Termination of the recursive '
              'constructors and of the parent walk (acyclic chains) is '
              'assumed. Sets of FunctionDefinitions are characteristic '
              'arrays over an opaque value sort.')


def units(ctx):
    return [frame_unit('C17')] + pyvc_units(contexts.contracts(), 'C17',
                                            contexts.setup)
