"""C08 - iterator limit and memory quota bound every evaluation."""
from vlib import core, sigflow
from vlib.pyvc.unit import contract_unit
from props._common import pyvc_units
from contracts import utils, yaqltypes, runner

LEVEL = 'proof'
TECHNIQUE = ('pyvc contracts on limit_iterable (generator with ghost pull '
             'counter, loop invariant), limit_memory_usage, the convert() '
             'methods, runner.call, convert_output_data and the repetition '
             'pre-checks (linear size model); library-wide flow obligation '
             'over every registered payload: a possibly lazy value is '
             'consumed eagerly only if its declared smart type limits it')
LEVEL_TEXT = ('limit_iterable: sized input refused iff 0 <= N < len; an '
              'iterator yields exactly the first min(len, N) items and '
              'raises when item N is asked for, having pulled N + 1 - for '
              'all N and all sources (invariant). Iterable.convert hands the '
              'payload only limited iterables; SmartType/GenericType.convert '
              'quota-check the value actually handed on (literal unwrapped '
              'first); runner.call quota-checks every result; '
              'convert_output_data sends every container level - keys '
              'included - through the limiter; sequence/string repetition '
              'returns normally only if the result fits the quota. For every '
              'registered function (default + legacy contexts) a parameter '
              'that admits iterators is either declared with a limiting '
              'smart type or never consumed eagerly, and results of lambdas '
              'are limited before being drained.')
LEVEL_NOTE = ('Assumes T-size (own size of str/tuple/list linear in length '
              'with this interpreter\'s constants; other values '
              'uninterpreted), T-lazy for itertools/map/filter, the '
              'payload-flow analysis is syntactic (names, not aliases '
              'through containers). CPU/memory spent computing an oversized '
              'scalar (pow, shifts) is outside the statement.')


def flow_unit(ctx):
    f = sigflow.facts(ctx)
    out, seen = [], set()
    for world in ('default', 'legacy', 'delegates'):
        for fd in f[world]:
            k = (fd['module'], fd['qualname'])
            if k in seen:
                continue
            seen.add(k)
            taint = [p['name'] for p in fd['params']
                     if p['key'] not in ('*', '**')
                     and sigflow.admits_lazy(p)
                     and not sigflow.is_limited_type(p['type'])]
            lazy = [p['name'] for p in fd['params']
                    if p['type']['lazy'] and p['type']['cls'] == 'Lambda']
            node = sigflow.payload_ast(ctx, fd)
            name = 'lazyflow:%s.%s' % (fd['module'].split('.')[-1],
                                       fd['qualname'])
            if node is None:
                out.append(core.ob(name, 'unknown', 'flow', 'sigflow',
                                   detail='payload source not found'))
                continue
            res = sigflow.eager_consumptions(node, taint, lazy)
            out.append(core.ob(
                name, 'failed' if res else 'proved', 'flow', 'sigflow', 0.0,
                function='%s.%s' % k, line=fd['line'],
                text='unlimited lazy values %s and lambda results %s are '
                     'never consumed eagerly' % (taint, lazy),
                detail='; '.join('line %d: %s' % r for r in res) or None))
    return dict(obligations=out,
                trusted=['smart-type acceptance facts are read off the live '
                         'check() methods of the tree under test'])


def units(ctx):
    us = [core.Unit('sigflow:lazy-consumption', flow_unit, 'sigflow')]
    us += pyvc_units(utils.contracts(), 'C08', utils.setup)
    us += pyvc_units(yaqltypes.contracts(), 'C08', yaqltypes.setup)
    us += [contract_unit(c, world_setup=utils.setup_prealloc)
           for c in utils.prealloc_contracts()]
    us += [contract_unit(c, world_setup=runner.setup_call)
           for c in runner.call_contracts()]
    from contracts import utils as _ut
    from vlib.pyvc.unit import contract_unit as _cu2
    us += [_cu2(c, world_setup=_ut.setup) for c in _ut.predicate_contracts()]
    from contracts import core_glue as _cg
    from vlib.pyvc.unit import contract_unit as _cu3
    us += [_cu3(c, world_setup=_cg.setup) for c in _cg.contracts()
           if c.short in ('factory.YaqlEngine.__call__',
                          'factory.YaqlEngine.copy')]
    from props._common import bounded_unit
    us.append(bounded_unit(
        'bounded:c08-limits', 'c08_limits.py',
        'BOUNDED: 79 expressions over an endless instrumented source under '
        'limitIterators = 10 (termination, pulls <= N + 1, no collection > N '
        'in the result, also as dict key / set member), 21 growing '
        'expressions under memoryQuota = 20000', timeout=600))
    from contracts import colls3 as _c3
    from vlib.pyvc.unit import contract_unit as _cu3
    us += [_cu3(c, world_setup=_c3.setup)
           for c in _c3.predicate_contracts() + _c3.wrapper_contracts()
           if 'C08' in c.serves]
    # host streams enter the expression lazily (convert_input_data)
    from contracts import utils as _ut9
    from vlib.pyvc.unit import contract_unit as _cu9
    us += [_cu9(c, world_setup=_ut9.setup_input)
           for c in _ut9.input_contracts() if 'C08' in c.serves]
    return us


def post(ctx, results):
    from props._common import attach_replay
    b = [o for r in results for o in r['obligations']
         if o['name'] == 'bounded:c08-limits']
    rep = b[0].get('replay') if b else None
    if rep and rep.get('status') == 'failed':
        attach_replay(results, lambda o: not o.get('bounded') and
                      o.get('kind') in ('post', 'raises', 'flow'), rep)
    return results
