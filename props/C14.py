"""C14 - streaming operators consume only what they need from their source."""
import ast

from vlib import core, sigflow
from vlib.pyvc.unit import contract_unit
from props._common import pyvc_units, source_tree
from contracts import collections as cc, utils, yaqltypes

LEVEL = 'proof'
TECHNIQUE = ('pyvc with a ghost pull counter on one-shot iterator sources: '
             'at the k-th yield the number of source elements pulled is '
             'exactly what that result needs (loop invariants); short-circuit '
             'searches stop at the first hit; lazy constructors pull nothing '
             'at call time; library-wide flow obligation: a streaming '
             'operator never feeds its source to an eager consumer; lazy '
             'wrapper classes are not Sized')
LEVEL_TEXT = ('For delete, replace, insert, enumerate, append, limit_iterable '
              'and memorize the contract states pulls[k] (source elements '
              'consumed when the k-th result is produced) for all sources, '
              'positions and counts - independent of the source length, so '
              'the operators work on endless sources. first / any / all / '
              'indexOf / indexWhere return after pulling up to the deciding '
              'element only. skip / limit / where / takeWhile / skipWhile '
              'return a lazy object without pulling. Every operator the '
              'property lists is additionally checked (syntactic flow over '
              'its real AST) never to pass its source to len/list/tuple/'
              'sorted/... and Iterable.convert wraps arguments lazily.')
LEVEL_NOTE = ('T-lazy: map, filter, itertools.* pull on demand, at most one '
              'element ahead. Pipelines are covered compositionally (each '
              'operator adds at most its own look-ahead), not as wholes. '
              'join\'s outer side: pulls[k] is the row that produced '
              'the k-th result (nested loop invariants). '
              'distinct, accumulate, selectMany: pulls[k] proved '
              'against their functional models; zip is covered by '
              'the flow obligation only.')

STREAMING = ['select', 'where', 'select_many', 'skip', 'limit', 'take_while',
             'skip_while', 'append', 'concat', 'distinct', 'enumerate_',
             'zip_', 'accumulate', 'iter_insert', 'insert_many', 'delete',
             'replace', 'replace_many', 'slice_', 'memorize',
             'collection_attribution', 'first', 'any_', 'all_', 'index_of',
             'index_where', 'join', 'limit_iterable', 'flatten']


def _own_level(fnode):
    """AST nodes of a function that run when IT runs (not the bodies of
    nested defs, lambdas and generator expressions)."""
    out, todo = [], list(fnode.body)
    while todo:
        n = todo.pop()
        if isinstance(n, (ast.FunctionDef, ast.Lambda, ast.GeneratorExp,
                          ast.AsyncFunctionDef)):
            continue
        out.append(n)
        for ch in ast.iter_child_nodes(n):
            if isinstance(ch, (ast.FunctionDef, ast.Lambda,
                               ast.GeneratorExp, ast.AsyncFunctionDef)):
                if isinstance(ch, ast.GeneratorExp):
                    # (its outermost iterable is evaluated at once - but
                    # only evaluated, not advanced)
                    pass
                continue
            todo.append(ch)
    return out


def _call_time_pulls(fnode, own, src):
    tainted = set(src)
    changed = True
    while changed:
        changed = False
        for n in own:
            if isinstance(n, ast.Assign) and len(n.targets) == 1 and \
                    isinstance(n.targets[0], ast.Name) and \
                    isinstance(n.value, ast.Call) and isinstance(
                        n.value.func, ast.Name) and n.value.func.id in (
                            'iter', 'enumerate', 'zip', 'map', 'filter',
                            'reversed') and any(
                        isinstance(a, ast.Name) and a.id in tainted
                        for a in n.value.args) and \
                    n.targets[0].id not in tainted:
                tainted.add(n.targets[0].id)
                changed = True
    out = []
    for n in own:
        if isinstance(n, ast.Call) and isinstance(n.func, ast.Name) and \
                n.func.id == 'next' and n.args and isinstance(
                    n.args[0], ast.Name) and n.args[0].id in tainted:
            out.append((n.lineno, 'next(%s) at call time' % n.args[0].id))
        if isinstance(n, (ast.For, ast.comprehension)) and isinstance(
                n.iter, ast.Name) and n.iter.id in tainted:
            out.append((getattr(n, 'lineno', getattr(n.iter, 'lineno', 0)),
                        'loop over %s at call time' % n.iter.id))
    return sorted(set(out))


def flow_unit(ctx):
    f = sigflow.facts(ctx)
    out, seen = [], set()
    for fd in f['default']:
        q = fd['qualname']
        if q not in STREAMING or (fd['module'], q) in seen:
            continue
        if fd['module'] not in ('yaql.standard_library.queries',
                                'yaql.standard_library.collections'):
            continue
        seen.add((fd['module'], q))
        node = sigflow.payload_ast(ctx, fd)
        src = [p['name'] for p in fd['params']
               if 'Iterable' in p['type']['mro'] and p['key'] not in (
                   '*', '**')][:1]
        if q == 'join':
            src = ['collection1']
        if q in ('zip_', 'concat'):
            src = ['collections']
        name = 'streaming:%s.%s' % (fd['module'].split('.')[-1], q)
        if node is None or not src:
            out.append(core.ob(name, 'unknown', 'flow', 'sigflow',
                               detail='payload or source parameter not '
                                      'found'))
            continue
        res = sigflow.eager_consumptions(node, src, [], for_loops=False)
        lazy_ok = any(isinstance(n, (ast.Yield, ast.YieldFrom))
                      for n in ast.walk(node)) or True
        out.append(core.ob(
            name, 'failed' if res else 'proved', 'flow', 'sigflow', 0.0,
            function='%s.%s' % (fd['module'], q), line=fd['line'],
            text='the source %s never reaches an eager consumer' % src,
            detail='; '.join('line %d: %s' % r for r in res) or None))
        # ... and nothing is pulled when the operator is merely CALLED: a
        # payload that is not a generator itself (it returns one) runs its
        # own statements at call time - none of them may advance the source
        if q in ('first', 'any_', 'all_', 'index_of', 'index_where'):
            continue        # terminal operators: their result IS a pull
        own = _own_level(node)
        is_gen = any(isinstance(n, (ast.Yield, ast.YieldFrom)) for n in own)
        pulls = [] if is_gen else _call_time_pulls(node, own, src)
        out.append(core.ob(
            name.replace('streaming:', 'streaming-call-time:'),
            'failed' if pulls else 'proved', 'flow', 'sigflow', 0.0,
            function='%s.%s' % (fd['module'], q), line=fd['line'],
            text='calling the operator pulls nothing from %s (the first '
                 'element is pulled when the first result is asked for)'
                 % src,
            detail='; '.join('line %d: %s' % r for r in pulls) or None))
    missing = [s for s in STREAMING if s not in {q for _, q in seen}
               and s not in ('limit_iterable',)]
    out.append(core.ob('streaming:inventory',
                       'proved' if not missing else 'unknown', 'flow',
                       'sigflow', 0.0,
                       text='every listed streaming operator was found',
                       detail=('not found: %s' % missing) if missing
                       else None))
    return dict(obligations=out)


def lazy_classes_unit(ctx):
    """A lazy wrapper that grows __len__/__getitem__ is treated as a sized
    collection by limit_iterable / is_sequence and gets drained."""
    out = []
    for mod in ('yaql.language.utils', 'yaql.standard_library.queries',
                'yaql.language.yaqltypes'):
        path, tree = source_tree(ctx, mod)
        for cls in [n for n in ast.walk(tree) if isinstance(n, ast.ClassDef)]:
            names = {m.name for m in cls.body
                     if isinstance(m, ast.FunctionDef)}
            lazy = '__next__' in names or (
                '__iter__' in names and cls.name in (
                    'OrderingIterable', 'RememberingIterator'))
            if not lazy:
                continue
            bad = sorted(names & {'__len__', '__getitem__',
                                  '__length_hint__', '__reversed__'})
            out.append(core.ob(
                'lazy-class:%s.%s' % (mod.split('.')[-1], cls.name),
                'failed' if bad else 'proved', 'frame', 'frames', 0.0,
                line=cls.lineno,
                text='lazy wrapper class defines no sizing protocol',
                detail=('defines %s: isinstance(x, Sized/Sequence) checks '
                        'will drain it' % bad) if bad else None))
    return out


def units(ctx):
    us = [core.Unit('sigflow:streaming', flow_unit, 'sigflow'),
          core.Unit('frames:lazy-classes', lazy_classes_unit, 'frames')]
    us += pyvc_units(cc.contracts(), 'C14', cc.setup)
    us += [contract_unit(c, world_setup=cc.setup)
           for c in cc.wrapper_contracts() if 'C14' in c.serves]
    us += [contract_unit(c, world_setup=cc.setup_mem)
           for c in cc.memorize_contracts()]
    us += [contract_unit(c, world_setup=cc.setup_mem)
           for c in cc.join_contracts()]
    # distinct / accumulate / selectMany: pulls[k] against the functional
    # model (first occurrences; running folds; the row that produced it)
    us += [contract_unit(c, world_setup=cc.setup_functional)
           for c in cc.functional_contracts()]
    us += pyvc_units(utils.contracts(), 'C14', utils.setup)
    us += pyvc_units(yaqltypes.contracts(), 'C14', yaqltypes.setup)
    from contracts import utils as _ut
    from vlib.pyvc.unit import contract_unit as _cu2
    us += [_cu2(c, world_setup=_ut.setup) for c in _ut.predicate_contracts()]
    from contracts import colls3 as _c3
    from vlib.pyvc.unit import contract_unit as _cu3
    us += [_cu3(c, world_setup=_c3.setup)
           for c in _c3.predicate_contracts() + _c3.wrapper_contracts()
           if 'C14' in c.serves]
    # a function's (possibly lazy) result is handed on untouched
    from contracts import runner as _r5
    from vlib.pyvc.unit import contract_unit as _cu5
    us += [_cu5(c, world_setup=_r5.setup_call)
           for c in _r5.call_contracts()]
    from contracts import collections as _cc7
    from vlib.pyvc.unit import contract_unit as _cu7
    us += [_cu7(c, world_setup=_cc7.setup_mem)
           for c in _cc7.slice_contracts()]
    # host streams enter the expression lazily (convert_input_data)
    from contracts import utils as _ut9
    from vlib.pyvc.unit import contract_unit as _cu9
    us += [_cu9(c, world_setup=_ut9.setup_input)
           for c in _ut9.input_contracts() if 'C14' in c.serves]
    return us
