"""C11 - arguments are evaluated once, in order; lazy ones only on demand."""
from vlib.pyvc.unit import contract_unit
from props._common import pyvc_units
from contracts import runner, system, evalglue, lazyops, specs
from contracts import collections as colls

LEVEL = 'proof'
TECHNIQUE = ('pyvc with a ghost call log: the real choose_overload must '
             'evaluate each eager argument exactly once, in order, before '
             'any get_delegate, and hand the evaluated values to every '
             'candidate (shape family); ghost-log contracts on the lazy '
             'operators (and/or, ?., switch family, coalesce) and on '
             'MappingRuleExpression / Lambda glue; ghost application '
             'counters ncalls(f) with loop invariants for the per-element '
             'lambdas of generate, indexWhere, lastIndexWhere, any, all, '
             'distinct, splitWhere, sliceWhere, accumulate')
LEVEL_TEXT = ('The evaluation log is a ghost sequence appended to by every '
              'application of an opaque expression / callback. '
              'Postconditions state the exact log: eager arguments once each '
              'left to right before resolution by type, independent of the '
              'number of candidates and layers; short-circuit operators '
              'never evaluate the operand they do not select.')
LEVEL_NOTE = ('Per-element lambda multiplicity is proved for the hand-written '
              'loops listed above; where/select/takeWhile/skipWhile/'
              'aggregate delegate to builtins (T-lazy); join: each result is '
              'selector(row, inner) of a pair satisfying the predicate; '
              'selectMany, '
              'groupBy, generateMany and the orderBy comparator multiplicity '
              'are not claimed. Shapes bound the '
              'numbers of candidates and arguments, not their content.')


def units(ctx):
    us = [contract_unit(c, world_setup=runner.setup_choose)
          for c in runner.choose_contracts(ctx.tier)]
    us += pyvc_units(system.contracts(), 'C11', system.setup)
    us += pyvc_units(evalglue.contracts(), 'C11', evalglue.setup)
    us += pyvc_units(lazyops.contracts(), 'C11', lazyops.setup)
    # the laziness set of choose_overload is keyed by call-site names: the
    # keyword mapping returned by map_args must use the same keys
    us += [contract_unit(c, world_setup=specs.setup)
           for c in specs.binding_contracts(ctx.tier)]
    # per-element lambdas: ghost application counters against the number of
    # elements consumed / emitted (loop invariants)
    us += [contract_unit(c, world_setup=colls.setup_mem)
           for c in colls.lambda_contracts()]
    # "once per element CONSUMED": the lazy operators must not pull (and
    # thereby run upstream lambdas for) elements nobody asked for
    us += [contract_unit(c, world_setup=colls.setup)
           for c in colls.wrapper_contracts() if 'C14' in c.serves]
    us += [contract_unit(c, world_setup=colls.setup_mem)
           for c in colls.memorize_contracts()]
    us += [contract_unit(c, world_setup=colls.setup_mem)
           for c in colls.join_contracts()]
    from contracts import evalglue as _eg
    from vlib.pyvc.unit import contract_unit as _cu
    us += [_cu(c, world_setup=_eg.setup_nodes) for c in _eg.node_contracts()]
    from contracts import colls3 as _c3
    from contracts import runner as _r5t
    from vlib.pyvc.unit import contract_unit as _cu3
    us += [_cu3(c, world_setup=_c3.setup)
           for c in _c3.predicate_contracts() + _c3.wrapper_contracts()
           if 'C11' in c.serves]
    # a name written twice among the keyword arguments is refused (the
    # earlier operand would be dropped unevaluated)
    us += [_cu3(c, world_setup=_r5t.setup)
           for c in _r5t.translate_contracts() if 'C11' in c.serves]
    # operands of a host method call on a yaqlized object
    from contracts import yaqlized as _yz
    us += [_cu3(c, world_setup=_yz.setup_sinks_opdot)
           for c in _yz.sink_contracts() if 'C11' in c.serves]
    # a function's (possibly lazy) result is handed on untouched
    from contracts import runner as _r5
    from vlib.pyvc.unit import contract_unit as _cu5
    us += [_cu5(c, world_setup=_r5.setup_call)
           for c in _r5.call_contracts()]
    # a lazy operand is never fed to an eager consumer (the per-element
    # lambdas of an upstream stage would run for elements nobody needs)
    from props import C14 as _c14
    from vlib import core as _core11
    us.append(_core11.Unit('sigflow:streaming', _c14.flow_unit, 'sigflow'))
    return us
