"""C15 - scalar operators form a consistent arithmetic and ordering."""
from vlib import core, sigflow
from vlib.pyvc.unit import contract_unit
from props._common import pyvc_units, frame_unit
from contracts import math as cmath, strings, yaqltypes, utils, lazyops

LEVEL = 'proof'
TECHNIQUE = ('pyvc contracts on every scalar operator payload (exact '
             'integers, floats as reals under an uninterpreted rounding), '
             'on the real check() of Number/Integer/String built by their '
             'real constructors, and an acceptance matrix computed from the '
             'live signatures: which overloads accept which pair of scalar '
             'kinds; frames for hidden state in validators')
LEVEL_TEXT = ('Payloads: + - * on int/float combinations are the Python '
              'operations; `/` on two integers is exact floor division for '
              'every magnitude with a == (a / b) * b + (a mod b) and the '
              'remainder on the divisor\'s side; comparisons are the Python '
              'comparisons (so gt(a,b) == lt(b,a), lte == lt or eq, '
              'trichotomy over ints/reals/strings); the twelve null '
              'overloads order null below everything. Acceptance: Number / '
              'Integer / String .check() accept exactly their kinds and '
              'never a bool (proved on the real classes over an abstract '
              'value sort); for every operator name and every pair of kinds '
              'in {null,bool,int,float,str,sequence} the number of accepting '
              'overloads is 1 where the model defines a result and 0 '
              'elsewhere (=> NoMatching, never Ambiguous).')
LEVEL_NOTE = ('Floats: reals with an uninterpreted rounding function (no '
              'NaN/inf/-0.0); string ordering is z3\'s lexicographic order '
              'on code points (= CPython\'s); bitwise operators and pow/'
              'round are uninterpreted pass-throughs. The matrix is computed '
              'from check() facts of the tree under test and assumes '
              'choose_overload as proved in C05/C06.')

KINDS = ['null', 'bool', 'int', 'float', 'str', 'tuple']
NUM = ('int', 'float')


def expected(op, k1, k2):
    """Number of overloads that must accept (k1 OP k2) per the model."""
    if op in ('*equal', '*not_equal'):
        return 1
    if op in ('#operator_<', '#operator_<=', '#operator_>', '#operator_>='):
        if k1 == 'null' or k2 == 'null':
            return 1
        if k1 in NUM and k2 in NUM:
            return 1
        if k1 == 'str' and k2 == 'str':
            return 1
        return 0
    if op == '#operator_+':
        if k1 in NUM and k2 in NUM:
            return 1
        if (k1, k2) in (('str', 'str'), ('tuple', 'tuple')):
            return 1
        return 0
    if op in ('#operator_-', '#operator_/', '#operator_mod'):
        return 1 if k1 in NUM and k2 in NUM else 0
    if op == '#operator_*':
        if k1 in NUM and k2 in NUM:
            return 1
        if {k1, k2} in ({'str', 'int'}, {'tuple', 'int'}):
            return 1
        return 0
    return None


def matrix_unit(ctx):
    f = sigflow.facts(ctx)
    out = []
    ops = ['#operator_+', '#operator_-', '#operator_*', '#operator_/',
           '#operator_mod', '#operator_<', '#operator_<=', '#operator_>',
           '#operator_>=', '*equal', '*not_equal']
    for op in ops:
        fds = [fd for fd in f['default'] if fd['name'] == op]
        for k1 in KINDS:
            for k2 in KINDS:
                exp = expected(op, k1, k2)
                acc = []
                for fd in fds:
                    if accepts_pair(fd, k1, k2):
                        acc.append(fd['qualname'])
                ok = len(acc) == exp
                out.append(core.ob(
                    'matrix:%s:%s,%s' % (op, k1, k2),
                    'proved' if ok else 'failed', 'signature', 'sigflow',
                    0.0, text='%d overload(s) of %s accept (%s, %s)' % (
                        exp, op, k1, k2),
                    detail=None if ok else 'accepting overloads: %s' % acc))
    for op in ('#unary_operator_+', '#unary_operator_-'):
        fds = [fd for fd in f['default'] if fd['name'] == op]
        for k in KINDS:
            exp = 1 if k in NUM else 0
            acc = [fd['qualname'] for fd in fds if accepts_pair(fd, k)]
            ok = len(acc) == exp
            out.append(core.ob(
                'matrix:%s:%s' % (op, k), 'proved' if ok else 'failed',
                'signature', 'sigflow', 0.0,
                text='%d overload(s) of %s accept %s' % (exp, op, k),
                detail=None if ok else 'accepting overloads: %s' % acc))
    return dict(obligations=out,
                trusted=['acceptance facts: the real check() of each '
                         'declared smart type evaluated on one sample value '
                         'per kind (check depends only on the class for '
                         'these types)'])


def accepts_pair(fd, *kinds):
    vis = [p for p in fd['params'] if not p['type']['hidden']]
    star = [p for p in vis if p['key'] == '*']
    pos = sorted([p for p in vis if p['position'] is not None
                  and p['key'] != '*'], key=lambda p: p['position'])
    if len(pos) > len(kinds) and any(not p['has_default']
                                     for p in pos[len(kinds):]):
        return False
    if len(pos) < len(kinds) and not star:
        return False
    for i, k in enumerate(kinds):
        p = pos[i] if i < len(pos) else star[0]
        if p['type']['lazy']:
            continue
        if (p.get('accepts') or {}).get(k) is not True:
            return False
    return True


def units(ctx):
    us = [frame_unit('C15'), core.Unit('sigflow:matrix', matrix_unit,
                                       'sigflow')]
    us += pyvc_units(cmath.contracts(), 'C15', cmath.setup)
    us += pyvc_units(strings.contracts(), 'C15')
    us += pyvc_units(yaqltypes.contracts(), 'C15', yaqltypes.setup)
    us += pyvc_units(lazyops.contracts(), 'C15', lazyops.setup)
    us += [contract_unit(c, world_setup=utils.setup_prealloc)
           for c in utils.prealloc_contracts()]
    from contracts import colls3 as _c3
    from vlib.pyvc.unit import contract_unit as _cu3
    us += [_cu3(c, world_setup=_c3.setup)
           for c in _c3.predicate_contracts() + _c3.wrapper_contracts()
           if 'C15' in c.serves]
    # unary operators on literals are operator CALLS (no folding at parse
    # time that would bypass the overloads' argument types)
    from contracts import lexer as _lx
    us += [_cu3(c, world_setup=_lx.setup)
           for c in _lx.contracts() if 'C15' in c.serves]
    return us
