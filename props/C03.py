"""C03 - parsing is total: a statement or a YAQL parsing error."""
import ast

from vlib import core, regexlang
from props._common import pyvc_units, frame_unit, source_tree, bounded_unit
from contracts import lexer

LEVEL = 'proof'
TECHNIQUE = ('exception contracts (raises <= {YaqlLexicalException, '
             'YaqlGrammarException}) on every real token rule and '
             'production, proved by pyvc under preconditions derived from '
             'each rule\'s own docstring regex; the regex facts (language '
             'inclusions, minimum lengths, unambiguous repetition) are '
             'decided by z3\'s regular-expression theory on a translation of '
             'the real patterns')
LEVEL_TEXT = ('For all token texts admitted by a rule\'s regex: t_NUMBER '
              'raises nothing but a lexical error (int() domain: decimal '
              'digits, <= 4300 of them; float() domain: digits.digits), the '
              'string rules turn a codec failure on an ill-formed escape '
              'into a lexical error at the token position, t_error and '
              'p_error always raise a YAQL exception carrying the position, '
              'token actions return declared token types, productions never '
              'raise. Regex obligations: the integer branch of the NUMBER '
              'regex admits only digits, the float branch only '
              'digits.digits, quoted tokens have length >= 2, and no '
              'repeated group has alternatives sharing a first character '
              '(no catastrophic backtracking => matching terminates in '
              'linear time).')
LEVEL_NOTE = ('Assumed: ply\'s driver (it calls t_X only with t.value in '
              'L(regex), 0 <= lexpos < len(input), LexError never escapes, '
              'LALR driver terminates); T-conv for int/float/codecs; the '
              'regex translation over-approximates \\w/\\d on non-ASCII and '
              'drops \\b; Unicode decimal digits are represented by ASCII '
              'digits (class homomorphism).')


def token_regexes(ctx):
    path, tree = source_tree(ctx, 'yaql.language.lexer')
    out = {}
    for n in ast.walk(tree):
        if isinstance(n, ast.FunctionDef) and n.name.startswith('t_') \
                and n.name != 't_error':
            doc = ast.get_docstring(n)
            if doc:
                out[n.name] = doc.strip()
    return out


def regex_unit(ctx):
    import z3
    R = regexlang
    rx = token_regexes(ctx)
    out = []
    D = z3.Range('0', '9')
    any_ = z3.Star(R.ANYCHAR)
    dot = z3.Concat(any_, z3.Re('.'), any_)

    def add(name, st, text, detail=None):
        out.append(core.ob('regex:' + name, st, 'regex', 'z3-regex', 0.0,
                           text=text, detail=detail))
    # (what the NUMBER regex guarantees about t.value enters the t_NUMBER
    # contract as facts - see contracts/lexer.regex_facts - and is reported
    # in the evidence, not as an obligation of its own)
    from contracts.lexer import regex_facts
    facts = regex_facts()
    add('t_NUMBER:facts', 'proved',
        'facts derived from the NUMBER regex for the t_NUMBER contract: %s'
        % facts)
    for rule in ('t_QUOTED_STRING', 't_DOUBLE_QUOTED_STRING',
                 't_QUOTED_VERBATIM_STRING', 't_FUNC'):
        if rule not in rx:
            add(rule, 'unknown', rule + ' regex found')
            continue
        st, w = R.included(rx[rule], z3.Concat(R.ANYCHAR, R.ANYCHAR, any_))
        add(rule + ':len>=2', st if st != 'failed' else 'proved',
            'every %s token has length >= 2 (%s; slicing never raises either '
            'way)' % (rule, st), w)
    for rule, pat in sorted(rx.items()):
        try:
            bad = R.ambiguous_repetitions(pat)
            add(rule + ':unambiguous-repetition',
                'failed' if bad else 'proved',
                'no repeated group of %s has two alternatives that can '
                'start with the same character (linear-time matching)'
                % rule, '; '.join(bad) or None)
        except R.Unsupported as e:
            add(rule + ':unambiguous-repetition', 'unknown',
                'regex translation', str(e))
        try:
            bad, unk = R.overlapping_repetitions(pat)
            add(rule + ':no-self-overlapping-repetition',
                'failed' if bad else ('unknown' if unk else 'proved'),
                'no unbounded repetition of %s has a body that matches one '
                'text both as one iteration and as two (the (x+)* shape: '
                'exponential backtracking on a failing match)' % rule,
                '; '.join(bad + unk) or None)
        except R.Unsupported as e:
            add(rule + ':no-self-overlapping-repetition', 'unknown',
                'regex translation', str(e))
    return dict(obligations=out,
                trusted=['z3 regular-expression theory',
                         're._parser (pattern parse tree)'])


def units(ctx):
    us = [core.Unit('regex:tokens', regex_unit, 'z3-regex')]
    us += pyvc_units(lexer.contracts(), 'C03', lexer.setup)
    # error positions are offsets into the text the HOST passed: the engine
    # hands exactly that text to the parser (no normalisation in between)
    from vlib.pyvc.unit import contract_unit
    from contracts import core_glue
    us += [contract_unit(c, world_setup=core_glue.setup)
           for c in core_glue.contracts()
           if c.short == 'factory.YaqlEngine.__call__']
    return us


def post(ctx, results):
    """Replay: regex witnesses (and the backtracking probe) are parsed by the
    real engine."""
    import json
    import os
    import re
    from vlib import core as _core
    failed = [o for r in results for o in r['obligations']
              if o['status'] == 'failed']
    undecided = [o for r in results for o in r['obligations']
                 if o['status'] == 'unknown']
    if not failed and not undecided and not getattr(ctx, 'always_replay',
                                                    True):
        return results
    texts = ["'\\xZZ'", '1' * 4301, "'\\N{nope}'"]
    # boundary values of every escape form (largest / out-of-range code
    # points, surrogates, largest octal), in each quote style
    for body in ('\\UFFFFFFFF', '\\U80000000', '\\U7FFFFFFF',
                 '\\U00110000', '\\U0010FFFF', '\\uD800', '\\uFFFF',
                 '\\xFF', '\\777', '\\N{}', '\\U-0000001',
                 '\\u+1 2', '\\x_1'):
        texts += ["'a%sb'" % body, '"a%sb"' % body]
    for o in failed:
        m = re.search(r"witness: '(.*)'$", o.get('detail') or '')
        if m:
            texts.append(m.group(1).encode().decode('unicode_escape'))
    code = "import runpy; runpy.run_path(%r, run_name='__main__')" % (
        os.path.join(ctx.home, 'replays', 'c03_parse.py'))
    rc, out, err = _core.run_python(code, ctx.repo, 120,
                                    stdin=json.dumps(texts))
    try:
        rep = json.loads(out.strip().splitlines()[-1])
    except Exception:
        rep = dict(status='error', detail=(err or out)[-300:])
    for o in failed:
        if rep.get('status') == 'failed' and not o.get('replay'):
            o['replay'] = rep
    if rep.get('status') == 'ok':
        results.append(dict(unit='replay:c03-corpus', seconds=0.0,
                            obligations=[_core.ob(
                                'bounded:c03-replay-corpus', 'proved',
                                'bounded', 'cpython', 0.0, bounded=True,
                                text='BOUNDED: the replay corpus (escape '
                                     'boundary values, non-normalised text, '
                                     'deeply nested expressions, regex '
                                     'witnesses) parses to a statement or a '
                                     'YAQL parsing error positioned inside '
                                     'the text (%s texts)' % rep.get(
                                         'texts'))]))
    if not failed and rep.get('status') == 'failed':
        # nothing was refuted deductively (the function left the verifier's
        # reach), but the replay corpus has a real failing input: reported
        # as a BOUNDED finding next to the undecided obligations
        results.append(dict(unit='replay:c03-corpus', seconds=0.0,
                            obligations=[_core.ob(
                                'bounded:c03-replay-corpus', 'failed',
                                'bounded', 'cpython', 0.0, bounded=True,
                                text='BOUNDED: the replay corpus (escape '
                                     'boundary values, non-normalised text, '
                                     'regex witnesses) parses to a statement '
                                     'or a YAQL parsing error positioned '
                                     'inside the text',
                                detail=json.dumps(rep)[:800],
                                replay=rep)]))
    return results
