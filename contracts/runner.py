"""Sidecar contracts for yaql/language/runner.py (C05, C06, C11, C12).

Candidates (FunctionDefinitions), parameter definitions and smart types are
opaque values; the contracts talk about them through uninterpreted
predicates:  spec(t1, t2) - `t1.is_specialization_of(t2)` -, maps(c),
typed_ok(c), lazy(t).  choose_overload and translate_args are verified for
every CONCRETE SHAPE of a small family (numbers of levels / candidates /
arguments) with fully symbolic content; _is_specialization_of for positional
mappings of any length (loop invariant)."""
import z3
from vlib.pyvc import sym as S
from vlib.pyvc import models
from vlib.pyvc.verify import Contract
from vlib.pyvc.sym import (TInt, TBool, TStr, TVal, TSeq, TOpt, TFunc, SVal,
                           SBool, Opaque)
from contracts._util import obj, tuple_of

M = 'yaql.language.runner.'
NV = Opaque('NO_VALUE')


def spec_fn(a, b):
    return models.uf('vt.spec', S.Val, S.Val, z3.BoolSort())(a, b)


def setup(world):
    world.opaque_globals[('yaql.language.utils', 'NO_VALUE')] = NV
    world.symbolic_sets = True
    world.opaque_attr_default = True
    world.opaque_attrs['value_type'] = lambda recv, it: SVal(
        models.uf('pd.value_type', S.Val, S.Val)(recv.t))

    def is_spec(recv, args, kw, it):
        return SBool(spec_fn(recv.t, S.box(args[0])))
    world.opaque_sigs['is_specialization_of'] = is_spec


class kwmap:
    """Parameter factory: dict with the given keys -> fresh opaque values."""
    is_factory = True

    def __init__(self, keys):
        self.keys = keys

    def __call__(self, name, path):
        return {k: TVal.fresh('%s.%s' % (name, k)) for k in self.keys}


VT = 'ufn("pd.value_type", %s)'
SPEC = 'ufn("vt.spec", ' + VT + ', ' + VT + ', ret="Bool")'


def contracts():
    cs = []
    # ---- _is_specialization_of -----------------------------------------
    for keys in ((), ('k',), ('k', 'm'), ('m', 'k')):
        # (last variant: the two candidates declare the SAME keyword names
        # in a different order - parameters are paired by name)
        keys2 = keys if keys != ('m', 'k') else ('k', 'm')
        a1, a2 = 'mapping1[0]', 'mapping2[0]'
        better = ['exists(range(0, min(len(%s), len(%s))), lambda j: %s)' % (
            a1, a2, SPEC % (a1 + '[j]', a2 + '[j]'))]
        worse = ['exists(range(0, min(len(%s), len(%s))), lambda j: %s)' % (
            a1, a2, SPEC % (a2 + '[j]', a1 + '[j]'))]
        for k in keys:
            better.append(SPEC % ('mapping1[1]["%s"]' % k,
                                  'mapping2[1]["%s"]' % k))
            worse.append(SPEC % ('mapping2[1]["%s"]' % k,
                                 'mapping1[1]["%s"]' % k))
        cs.append(Contract(
            M + '_is_specialization_of',
            name='runner._is_specialization_of/kw=%d%s' % (
                len(keys), '/reordered' if keys != keys2 else ''),
            params=dict(mapping1=pairof(TSeq(TVal), kwmap(keys)),
                        mapping2=pairof(TSeq(TVal), kwmap(keys2))),
            ensures=[
                # m1 is a specialization of m2 iff it is nowhere less
                # specific and somewhere more specific (positional AND
                # keyword parameters)
                'implies(%s, result is False)' % ' or '.join(worse),
                'implies(not (%s), result == (%s))' % (
                    ' or '.join(worse), ' or '.join(better))],
            loops=[dict(anchor='for a1, a2 in zip(args_mapping1, args_mapping2)', index='n',
                        invariant=[
                            'not exists(range(0, n), lambda j: %s)' % (
                                SPEC % ('args_mapping2[j]',
                                        'args_mapping1[j]')),
                            'res == exists(range(0, n), lambda j: %s)' % (
                                SPEC % ('args_mapping1[j]',
                                        'args_mapping2[j]'))])],
            serves=('C05', 'C06'), native=False))
    return cs


class levels_of:
    is_factory = True

    def __init__(self, shape):
        self.shape = shape

    def __call__(self, name, path):
        out = []
        for li, n in enumerate(self.shape):
            lv = []
            for j in range(n):
                v = TVal.fresh('cand%d_%d' % (li, j))
                path.symbols['cand[%d][%d]' % (li, j)] = v.t
                lv.append(v)
            out.append(tuple(lv))
        return tuple(out)


def choose_contracts(tier='quick'):
    shapes = [((1,), 2, ('k',)), ((2,), 1, ('k',)), ((3,), 1, ()),
              ((1, 1), 1, ('k',)), ((2, 1), 1, ()),
              # two keyword arguments: evaluated in the caller's order
              ((1,), 1, ('k', 'm'))]
    if tier != 'quick':
        # (three candidates with a keyword argument need > 5000 paths: not
        # decidable within the per-function wall-clock budget, left out)
        shapes += [((2, 2), 1, ()), ((1, 2), 1, ('k',))]
    out = [choose_contract(sh, npos, keys) for sh, npos, keys in shapes]
    out.append(choose_contract((2,), 1, (), method=True))
    return out


class pairof:
    is_factory = True

    def __init__(self, a, b):
        self.a, self.b = a, b

    def __call__(self, name, path):
        from vlib.pyvc.verify import make_param
        return (make_param(name + '.0', self.a, path),
                make_param(name + '.1', self.b, path))


# ======================= choose_overload (shapes) =======================

def _setup_candidates(world):
    U = models.uf

    def no_kwargs(recv, it):
        return SBool(U('c.no_kwargs', S.Val, z3.BoolSort())(recv.t))
    world.opaque_attrs['no_kwargs'] = no_kwargs

    def map_args(recv, args, kw, it):
        a, k = args[0], args[1]
        if not isinstance(a, tuple) or not isinstance(k, dict):
            raise S.Unsupported('map_args harness expects concrete shapes')
        ok = U('c.maps', S.Val, z3.BoolSort())(recv.t)
        if not it.branch(ok):
            return None
        pos = tuple(SVal(U('c.pd', S.Val, z3.IntSort(), S.Val)(
            recv.t, z3.IntVal(i))) for i in range(len(a)))
        # (the keyword part of a mapping comes in the CALLEE's parameter
        # order, which need not be the caller's: reversed here)
        kwd = {key: SVal(U('c.pdk', S.Val, z3.StringSort(), S.Val)(
            recv.t, z3.StringVal(key))) for key in reversed(list(k))}
        return (pos, kwd)
    world.opaque_sigs['map_args'] = map_args

    def get_delegate(recv, args, kw, it):
        ok = U('c.typed_ok', S.Val, z3.BoolSort())(recv.t)
        it.calls.append(('get_delegate', (recv,) + tuple(args), None))
        if not it.branch(ok):
            it.raise_('ArgumentException', 'x')
        d = U('c.delegate', S.Val, S.Val)(recv.t)
        it.path.assume(d != S.NONE_VAL)     # a delegate is a function object
        return SVal(d)
    world.opaque_sigs['get_delegate'] = get_delegate


def setup_choose(world):
    setup(world)
    _setup_candidates(world)


def _nk(c):
    return 'ufn("c.no_kwargs", %s, ret="Bool")' % c


def _maps(c):
    return 'ufn("c.maps", %s, ret="Bool")' % c


def _ok(c):
    return 'ufn("c.typed_ok", %s, ret="Bool")' % c


def _vt_pos(c, i):
    return 'ufn("pd.value_type", ufn("c.pd", %s, %d))' % (c, i)


def _vt_kw(c, k):
    return 'ufn("pd.value_type", ufn("c.pdk", %s, "%s"))' % (c, k)


def _lazy(vt):
    return 'isinstance(%s, "LazyParameterType")' % vt


def _slots(c, npos, keys):
    return [_vt_pos(c, i) for i in range(npos)] + [_vt_kw(c, k)
                                                   for k in keys]


def _R(c1, c2, npos, keys):
    s1, s2 = _slots(c1, npos, keys), _slots(c2, npos, keys)
    better = ' or '.join('ufn("vt.spec", %s, %s, ret="Bool")' % (a, b)
                         for a, b in zip(s1, s2)) or 'False'
    worse = ' or '.join('ufn("vt.spec", %s, %s, ret="Bool")' % (b, a)
                        for a, b in zip(s1, s2)) or 'False'
    return '((%s) and not (%s))' % (better, worse)


def _same_lazy(c1, c2, npos, keys):
    s1, s2 = _slots(c1, npos, keys), _slots(c2, npos, keys)
    return '(' + ' and '.join('(%s) == (%s)' % (_lazy(a), _lazy(b))
                              for a, b in zip(s1, s2)) + ')' if s1 else 'True'


def choose_contract(shape, npos, keys, method=False):
    """shape: tuple of level sizes, e.g. (3,) or (2, 1)."""
    cands = []
    levels = []
    for li, n in enumerate(shape):
        lv = ['candidates[%d][%d]' % (li, j) for j in range(n)]
        levels.append(lv)
        cands += lv
    ex = 'Method' if method else 'Function'
    user_npos = npos
    if method:
        npos = npos + 1         # the receiver is prepended to the arguments
    pairs = [(a, b) for a in cands for b in cands if a != b]
    nk_dis = ' or '.join('(%s) != (%s)' % (_nk(a), _nk(b))
                         for a, b in pairs) or 'False'
    any_maps = ' or '.join(_maps(c) for c in cands)
    lazy_dis = ' or '.join('(%s and %s and not %s)' % (
        _maps(a), _maps(b), _same_lazy(a, b, npos, keys))
        for a, b in pairs) or 'False'
    # no_kwargs candidates reject keyword arguments before anything else
    kw_reject = '(not (%s) and %s and %s)' % (
        nk_dis, _nk(cands[0]), 'True' if keys else 'False')

    def live(c):
        return '(%s and %s)' % (_maps(c), _ok(c))

    def level_has(lv):
        return '(' + ' or '.join(live(c) for c in lv) + ')'

    def winner(w, lv):
        others = [c for c in lv if c != w]
        return '(' + ' and '.join([live(w)] + [
            'implies(%s, %s)' % (live(c), _R(w, c, npos, keys))
            for c in others]) + ')'
    # first level with a live candidate
    def first(li):
        return '(' + ' and '.join(
            ['not ' + level_has(levels[j]) for j in range(li)] +
            [level_has(levels[li])]) + ')'
    none_live = '(' + ' and '.join('not ' + level_has(lv)
                                   for lv in levels) + ')'
    no_winner = ' or '.join(
        '(%s and not (%s))' % (first(li), ' or '.join(
            winner(w, lv) for w in lv))
        for li, lv in enumerate(levels))
    pre_ok = '(not (%s) and not %s and (%s) and not (%s))' % (
        nk_dis, kw_reject, any_maps, lazy_dis)
    ambiguous = '((%s) or (not %s and (%s) and ((%s) or (not %s and (%s)))))' \
        % (nk_dis, kw_reject, any_maps, lazy_dis, none_live, no_winner)
    nomatch = '(not (%s) and not %s and (not (%s) or (not (%s) and %s)))' % (
        nk_dis, kw_reject, any_maps, lazy_dis, none_live)
    ensures = ['not %s' % ambiguous, 'not %s' % nomatch, 'not ' + kw_reject]
    for li, lv in enumerate(levels):
        for w in lv:
            ensures.append('implies(%s and %s, LOCAL_delegate == '
                           'ufn("c.delegate", %s))' % (first(li),
                                                       winner(w, lv), w))
    # C11: each eager argument is evaluated exactly once, in order, before
    # the first get_delegate; every candidate gets the evaluated values
    npos = user_npos
    slots = ['args[%d]' % i for i in range(npos)] + ['kwargs["%s"]' % k
                                                   for k in keys]
    ev = '[e for e in calls if e[0] == "call"]'
    gd = '[e for e in calls if e[0] == "get_delegate"]'
    eval_ens = []
    for c0 in cands:
        vts = _slots(c0, npos, keys)
        for s_, vt in zip(slots, vts):
            eval_ens.append(
                'implies(%s, sum([ite(e[1][0] == %s, 1, 0) for e in %s]) == '
                'ite(%s, 0, 1))' % (_maps(c0), s_, ev, _lazy(vt)))
        for i in range(npos):
            eval_ens.append(
                'implies(%s, all([g[1][4][%d] == ite(%s, args[%d], '
                'ufn("call", args[%d], val(NV), context, engine)) '
                'for g in %s]))' % (_maps(c0), i, _lazy(vts[i]), i, i, gd))
        for j, k in enumerate(keys):
            eval_ens.append(
                'implies(%s, all([g[1][5]["%s"] == ite(%s, kwargs["%s"], '
                'ufn("call", kwargs["%s"], val(NV), context, engine)) '
                'for g in %s]))' % (_maps(c0), k, _lazy(vts[npos + j]), k,
                                    k, gd))
    eval_ens.append(
        'all([all([i < j for j, g in enumerate(calls) '
        'if g[0] == "get_delegate"]) for i, e in enumerate(calls) '
        'if e[0] == "call"])')
    for a in range(len(slots)):
        for b in range(a + 1, len(slots)):
            eval_ens.append(
                'all([all([not (%s[j][1][0] == %s and %s[k][1][0] == %s) '
                'for k in range(j + 1, len(%s))]) '
                'for j in range(len(%s))])'
                % (ev, slots[b], ev, slots[a], ev, ev))
    if method:
        eval_ens = []
    params = dict(name=TStr, candidates=levels_of(shape), engine=TVal,
                  context=TVal, args=tuple_of(TVal, npos),
                  kwargs=kwmap(keys))
    params['receiver'] = TVal if method else NV
    env = {'NV': NV}
    distinct = ['%s != %s' % (slots[a], slots[b])
                for a in range(len(slots)) for b in range(a + 1, len(slots))]
    c = Contract(
        M + 'choose_overload',
        name='runner.choose_overload/%s/%dpos%dkw%s' % (
            'x'.join(map(str, shape)), npos, len(keys),
            '/method' if method else ''),
        params=params, env=env,
        requires=[
            'not isinstance(args[%d], "MappingRuleExpression")' % i
            for i in range(npos)] + [
            'isinstance(%s, "Expression") and not isinstance(%s, "Constant")'
            % (s_, s_) for s_ in slots] + distinct + ([
                'receiver is not NV',
                'not isinstance(receiver, "MappingRuleExpression")',
                'not isinstance(receiver, "Expression")'] if method else []),
        raises={'Ambiguous%sException' % ex: ambiguous,
                'NoMatching%sException' % ex: nomatch,
                'ArgumentException': kw_reject},
        ensures=ensures + eval_ens,
        serves=('C05', 'C06', 'C11'), native=False)
    from vlib.pyvc.path import Budget
    c.budget = Budget(prove_ms=20000, max_paths=5000)
    return c


# ============================ call / translate_args ======================

def setup_call(world):
    setup(world)
    world.opaque_sig('collect_functions', log=True)
    for a in ('is_function', 'is_method'):
        world.opaque_attrs[a] = (lambda nm: lambda recv, it: SBool(
            models.uf('a.' + nm, S.Val, z3.BoolSort())(recv.t)))(a)
    world.callee_contract('yaql.language.runner.choose_overload',
                          ensures=['result is not None'])
    world.callee_contract('yaql.language.utils.limit_memory_usage')


def call_contracts():
    cs = []
    for method in (False, True):
        kind = 'is_method' if method else 'is_function'
        ex = 'Method' if method else 'Function'
        cs.append(Contract(
            M + 'call', name='runner.call/%s' % ex.lower(),
            params=dict(name=TStr, context=TVal, args=tuple_of(TVal, 1),
                        kwargs=kwmap(('k',)), engine=TVal,
                        receiver=TVal if method else NV, FD=TVal, CX=TVal),
            env={'NV': NV},
            requires=['receiver is not NV'] if method else [],
            raises={'No%sRegisteredException' % ex:
                    'not truthy(calls[0][2])'},
            ensures=[
                'truthy(calls[0][2])',
                # candidates are gathered from `context` by name with the
                # call-kind predicate (function vs method)
                'calls[0][0] == "m.collect_functions$use_convention" and '
                'calls[0][1][0] == context and calls[0][1][1] == name and '
                'calls[0][1][3] is False',
                'calls[0][1][2](FD, CX) == ufn("a.%s", FD, ret="Bool")'
                % kind,
                # resolution gets exactly these overloads and the caller's
                # arguments; evaluation context is data_context (= context)
                'len(calls) == 4 and calls[1][0] == '
                '"contract:runner.choose_overload"',
                'implies(len(calls) == 4, calls[1][1][0] == name and '
                'calls[1][1][1] == calls[0][2] and calls[1][1][2] == engine '
                'and calls[1][1][3] == val(receiver) and calls[1][1][4] == '
                'context and calls[1][1][5] == args and '
                'calls[1][1][6] == kwargs)',
                # the winner is invoked once; its result is quota-checked
                # before it is handed on (C08)
                'implies(len(calls) == 4, calls[2][0] == "call" and '
                'calls[2][1][0] == calls[1][2] and len(calls[2][1]) == 1)',
                'implies(len(calls) == 4, calls[3][0] == '
                '"contract:utils.limit_memory_usage" and calls[3][1][0] == '
                'engine and calls[3][1][1] == ((1, calls[2][2]),))',
                # ... and handed on AS IT IS: a lazy result is not touched
                # at call time (nothing pulled, no other effect logged)
                'implies(len(calls) == 4, result == calls[2][2])'],
            serves=('C05', 'C08', 'C12', 'C14', 'C11'), native=False))
    return cs


def translate_contracts():
    cs = []
    KC = 'yaql.language.expressions.KeywordConstant'
    MR = 'yaql.language.expressions.MappingRuleExpression'
    CN = 'yaql.language.expressions.Constant'

    def mr(key):
        return obj(MR, source=obj(KC, value=key, uses_receiver=False),
                   destination=TVal, uses_receiver=False)

    class mixed:
        is_factory = True

        def __init__(self, items):
            self.items = items

        def __call__(self, name, path):
            from vlib.pyvc.verify import make_param
            return tuple(make_param('%s%d' % (name, i), t, path)
                         for i, t in enumerate(self.items))
    shapes = {
        'plain': ((TVal,), ()),
        'named': ((mr('a'),), ()),
        'mixed': ((TVal, mr('a'), TVal, mr('b')), ('c',)),
        'collision': ((mr('a'),), ('a',)),
        # one name written twice: refused like the collision above - the
        # earlier operand would otherwise be dropped without ever being
        # evaluated (C11: every eager operand is evaluated exactly once)
        'repeated': ((mr('a'), mr('a')), ()),
        'repeated-apart': ((mr('a'), TVal, mr('b'), mr('a')), ()),
    }
    for nm, (items, keys) in shapes.items():
        plain = [i for i, t in enumerate(items) if t is TVal]
        named = [(i, t.fields['source'].fields['value'])
                 for i, t in enumerate(items) if t is not TVal]
        exp_pos = '(' + ''.join('args[%d], ' % i for i in plain) + ')'
        exp_kw = '{' + ', '.join(['"%s": args[%d].destination' % (k, i)
                                  for i, k in named] +
                                 ['"%s": kwargs["%s"]' % (k, k)
                                  for k in keys]) + '}'
        collide = any(k in [kk for _, kk in named] for k in keys) or \
            len({kk for _, kk in named}) < len(named)
        cs.append(Contract(
            M + 'translate_args', name='runner.translate_args/' + nm,
            params=dict(without_kwargs=False, args=mixed(items),
                        kwargs=kwmap(keys)),
            requires=['not isinstance(args[%d], "MappingRuleExpression")' % i
                      for i in plain],
            raises={'MappingTranslationException': 'True'} if collide
            else None,
            ensures=['False'] if collide else [
                'result[0] == ' + exp_pos, 'result[1] == ' + exp_kw],
            always_raises=collide,
            serves=('C05', 'C12', 'C11'), native=False))
    cs.append(Contract(
        M + 'translate_args', name='runner.translate_args/no_kwargs',
        params=dict(without_kwargs=True, args=tuple_of(TVal, 2),
                    kwargs=kwmap(())),
        ensures=['result[0] == args and result[1] == {}'],
        serves=('C05', 'C12'), native=False))
    cs.append(Contract(
        M + 'translate_args', name='runner.translate_args/no_kwargs+kw',
        params=dict(without_kwargs=True, args=tuple_of(TVal, 1),
                    kwargs=kwmap(('k',))),
        raises={'ArgumentException': 'True'}, ensures=['False'],
        always_raises=True, serves=('C05', 'C12'), native=False))
    # a mapping rule whose name is not a keyword constant is rejected
    cs.append(Contract(
        M + 'translate_args', name='runner.translate_args/bad-name',
        params=dict(without_kwargs=False, args=mixed((obj(
            MR, source=obj(CN, value='a', uses_receiver=False),
            destination=TVal, uses_receiver=False),)), kwargs=kwmap(())),
        raises={'MappingTranslationException': 'True'}, ensures=['False'],
        always_raises=True, serves=('C05', 'C12'), native=False))
    return cs
