"""Sidecar contracts for yaql/standard_library/math.py and common.py (C15).

Integers are mathematical (exact at any magnitude - true of Python); floats
are reals under an uninterpreted rounding function, so a contract that holds
only in exact real arithmetic is not provable for float results."""
from vlib.pyvc.verify import Contract
from vlib.pyvc.sym import TInt, TBool, TStr, TVal, TReal, TFunc

M = 'yaql.standard_library.math.'
C = 'yaql.standard_library.common.'


def setup(world):
    pass


def _fl_env():
    from vlib.pyvc.dtmodel import spec_functions
    return {'fl': spec_functions()['fl']}


def contracts():
    cs = []

    def c(target, **kw):
        kw.setdefault('serves', ('C15',))
        x = Contract(target, **kw)
        # exact integer arithmetic at any magnitude: the bounded native
        # cross-check includes values beyond float precision
        x.native_bigints = True
        cs.append(x)
        return x
    ops = [('binary_plus', '+'), ('binary_minus', '-'),
           ('multiplication', '*')]
    combos = [('int,int', TInt, TInt), ('int,float', TInt, TReal),
              ('float,int', TReal, TInt), ('float,float', TReal, TReal)]
    for fn, op in ops:
        for tag, ta, tb in combos:
            c(M + fn, name='math.%s/%s' % (fn, tag),
              params=dict(left=ta, right=tb), env=_fl_env(),
              ensures=['result == left %s right' % op if tag == 'int,int'
                       else 'result == fl(left %s right)' % op],
              native=None if tag == 'int,int' else False)
    # `/` on two integers floors (exactly, at any magnitude) and agrees with
    # mod:  a == (a / b) * b + (a mod b)
    c(M + 'division', name='math.division/int,int',
      params=dict(left=TInt, right=TInt),
      raises={'ZeroDivisionError': 'right == 0'},
      ensures=['right != 0', 'result == left // right',
               'left == result * right + (left % right)',
               'implies(right > 0, result * right <= left and '
               'left < (result + 1) * right)',
               'implies(right < 0, result * right >= left and '
               'left > (result + 1) * right)'])
    for tag, ta, tb in combos[1:]:
        c(M + 'division', name='math.division/' + tag,
          params=dict(left=ta, right=tb),
          raises={'ZeroDivisionError': 'right == 0'},
          env=_fl_env(),
          ensures=['right != 0', 'result == fl(left / right)'], native=False)
    c(M + 'modulo', name='math.modulo/int,int',
      params=dict(left=TInt, right=TInt),
      raises={'ZeroDivisionError': 'right == 0'},
      ensures=['right != 0', 'result == left % right',
               'implies(right > 0, 0 <= result and result < right)',
               'implies(right < 0, right < result and result <= 0)',
               'left == (left // right) * right + result'])
    for fn, op in (('gt', '>'), ('gte', '>='), ('lt', '<'), ('lte', '<=')):
        for tag, ta, tb in combos:
            c(M + fn, name='math.%s/%s' % (fn, tag),
              params=dict(left=ta, right=tb),
              ensures=['result == (left %s right)' % op],
              native=None if tag == 'int,int' else False)
    for tag, t in (('int', TInt), ('float', TReal)):
        c(M + 'unary_minus', name='math.unary_minus/' + tag,
          params=dict(op=t), ensures=['result == -op'],
          native=None if tag == 'int' else False)
        c(M + 'unary_plus', name='math.unary_plus/' + tag,
          params=dict(op=t), ensures=['result == op'],
          native=None if tag == 'int' else False)
        c(M + 'abs_', name='math.abs_/' + tag, params=dict(op=t),
          ensures=['result == (op if op >= 0 else -op)'],
          native=None if tag == 'int' else False)
        c(M + 'sign', name='math.sign/' + tag, params=dict(num=t),
          ensures=['result == (1 if num > 0 else (-1 if num < 0 else 0))'],
          native=None if tag == 'int' else False)
    # bitwise operators on (unbounded) integers
    for fn, op in (('bitwise_and', '&'), ('bitwise_or', '|'),
                   ('bitwise_xor', '^')):
        c(M + fn, params=dict(left=TInt, right=TInt),
          ensures=['result == (left %s right)' % op])
    c(M + 'bitwise_not', params=dict(arg=TInt),
      ensures=['result == -arg - 1'])
    for fn, op in (('shift_bits_left', '<<'), ('shift_bits_right', '>>')):
        # (a shift by 2**63 bits is a MemoryError in CPython: outside the
        # stated domain of the operators)
        c(M + fn, params=dict(value=TInt, bits_number=TInt),
          requires=['bits_number < 4096'],
          raises={'ValueError': 'bits_number < 0'},
          ensures=['bits_number >= 0',
                   'result == (value %s bits_number)' % op]).native_scope = 3
    c(M + 'int_', name='math.int_/null', params=dict(value=None),
      ensures=['result == 0'], native=False)
    c(M + 'int_', name='math.int_/int', params=dict(value=TInt),
      ensures=['result == value'])
    c(M + 'float_', name='math.float_/null', params=dict(value=None),
      ensures=['result == 0'], native=False)
    c(M + 'is_integer', params=dict(value=TVal),
      ensures=['result == (ufn("tag", value, ret="Int") == 2)'], native=False)
    c(M + 'is_number', params=dict(value=TVal),
      ensures=['result == (ufn("tag", value, ret="Int") == 2 or '
               'ufn("tag", value, ret="Int") == 3)'], native=False)
    for fn, pick in (('max_', 'b if truthy(calls[0][2]) else a'),
                     ('min_', 'a if truthy(calls[0][2]) else b')):
        c(M + fn, params=dict(a=TVal, b=TVal, operator=TFunc(2)),
          ensures=['len(calls) == 1 and calls[0][1][0] == b and '
                   'calls[0][1][1] == a', 'result == (%s)' % pick],
          native=False)
    # equality is Python equality
    c(C + 'eq', params=dict(left=TVal, right=TVal),
      ensures=['result == (left == right)'], native=False)
    c(C + 'neq', params=dict(left=TVal, right=TVal),
      ensures=['result == (left != right)'], native=False)
    # null orders below every non-null value: the twelve constant overloads
    order = {'lt': lambda a, b: a < b, 'lte': lambda a, b: a <= b,
             'gt': lambda a, b: a > b, 'gte': lambda a, b: a >= b}
    for opn, f in order.items():
        # -1 stands for null, 0 for any non-null value
        c(C + 'left_%s_null' % opn, params=dict(left=TVal, right=None),
          requires=['left is not None'],
          ensures=['result is %s' % f(0, -1)], native=False)
        c(C + 'null_%s_right' % opn, params=dict(left=None, right=TVal),
          requires=['right is not None'],
          ensures=['result is %s' % f(-1, 0)], native=False)
        c(C + 'null_%s_null' % opn, params=dict(left=None, right=None),
          ensures=['result is %s' % f(-1, -1)], native=False)
    return cs
