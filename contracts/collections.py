"""Sidecar contracts for yaql/standard_library/collections.py and the
hand-written loops of queries.py (C13 functional model, C14 consumption).

Sources are one-shot iterators (TIter): `SRC.seq` is the underlying sequence,
`SRC.pos` the number of elements pulled so far; `out` is the ghost sequence
of yielded values and `pulls[k]` the value of SRC.pos at the k-th yield."""
from vlib.pyvc.verify import Contract
from vlib.pyvc.sym import (TInt, TBool, TStr, TVal, TSeq, TOpt, TFunc, TIter,
                           Opaque)
from contracts._util import obj, tuple_of

C = 'yaql.standard_library.collections.'
Q = 'yaql.standard_library.queries.'
NV = Opaque('NO_VALUE')
S_ = 'SRC.seq'


def setup(world):
    world.opaque_globals[('yaql.language.utils', 'NO_VALUE')] = NV
    world.symbolic_sets = True


def contracts():
    cs = []

    def c(target, **kw):
        kw.setdefault('serves', ('C13', 'C14'))
        # native twin: counting iterator (SRC.seq / SRC.pos), pulls[k] taken
        # while the result is consumed, counted callbacks
        kw.setdefault('native', None)
        x = Contract(target, **kw)
        x.native_scope = 3
        x.native_seq = True
        cs.append(x)
        return x
    IT = TIter(TVal)
    # ---- delete -----------------------------------------------------------
    # (any position, any count: the elements whose index lies in
    # [position, position + count) - from position on for a negative count -
    # are dropped, the others pass through in order)
    DLO = 'max(position, 0)'
    DHI = 'max(position + count, max(position, 0))'
    SRCIDX = '(k if k < %s else k + %s - %s)' % (DLO, DHI, DLO)
    c(C + 'delete', params=dict(collection=IT, position=TInt, count=TInt),
      track_pulls='collection',
      ensures=[
          'implies(count >= 0, out == %s[:%s] + %s[%s:])'
          % (S_, DLO, S_, DHI),
          'implies(count < 0, out == %s[:%s])' % (S_, DLO),
          # streaming: the k-th result is available after pulling exactly
          # the source elements up to its own position
          'implies(count >= 0, forall(range(0, len(out)), lambda k: '
          'pulls[k] == %s + 1))' % SRCIDX,
          'implies(count < 0, forall(range(0, len(out)), lambda k: '
          'pulls[k] == k + 1))'],
      loops=[dict(anchor='for i, t in enumerate(collection)', index='n',
                  invariant=[
                      'SRC.pos == n',
                      'implies(count >= 0, out == %s[:min(n, %s)] + '
                      '%s[%s:max(n, %s)])' % (S_, DLO, S_, DHI, DHI),
                      'implies(count < 0, out == %s[:min(n, %s)])'
                      % (S_, DLO),
                      'implies(count >= 0, forall(range(0, len(out)), '
                      'lambda k: pulls[k] == %s + 1))' % SRCIDX,
                      'implies(count < 0, forall(range(0, len(out)), '
                      'lambda k: pulls[k] == k + 1))'])])
    # ---- replace: value takes the place of [position, position+count) and
    # is emitted when the run is ENTERED ---------------------------------------
    # (any position and any count: the elements whose index lies in
    # [position, position + count) - from position on for a negative count -
    # give way to ONE value, emitted at the first of them; with no such
    # element the collection passes through)
    LO = 'max(position, 0)'
    HI = '(position + count)'

    def hit(n):     # some index below n lies in the range
        return ('((count >= 0 and %s < min(%s, %s)) or (count < 0 and %s < '
                '%s))' % (LO, HI, n, LO, n))

    def body(n):
        return [
            'implies(not %s, out == %s[:%s])' % (hit(n), S_, n),
            'implies(%s and count >= 0, out == %s[:%s] + (value,) + '
            '%s[%s:max(%s, %s)])' % (hit(n), S_, LO, S_, HI, n, HI),
            'implies(%s and count < 0, out == %s[:%s] + (value,))' % (
                hit(n), S_, LO),
            # streaming: an element is emitted as soon as it is pulled, the
            # value as soon as the range is entered
            'forall(range(0, len(out)), lambda k: pulls[k] == '
            '(k + 1 if (k <= %s or not %s) else k + %s - %s))' % (
                LO, hit(n), HI, LO)]
    c(C + 'replace', params=dict(collection=IT, position=TInt, value=TVal,
                                 count=TInt),
      track_pulls='collection',
      ensures=body('len(%s)' % S_),
      loops=[dict(anchor='for i, t in enumerate(collection)', index='n',
                  invariant=['SRC.pos == n', 'yielded == %s' % hit('n')]
                  + body('n'))])
    # ---- insert -------------------------------------------------------------
    c(C + 'iter_insert', params=dict(collection=IT, position=TInt,
                                     value=TVal),
      track_pulls='collection',
      ensures=[
          'implies(0 <= position and position <= len(%s), out == '
          '%s[:position] + (value,) + %s[position:])' % (S_, S_, S_),
          'implies(position > len(%s), out == %s + (value,))' % (S_, S_),
          # (a negative position names no place in a streamed collection:
          # the behaviour the suite pins is that nothing is inserted)
          'implies(position < 0, out == %s)' % S_,
          'forall(range(0, min(len(%s), position)), lambda k: '
          'pulls[k] == k + 1)' % S_],
      loops=[dict(anchor='for i, t in enumerate(collection)', index='n',
                  invariant=[
                      'SRC.pos == n', 'i == n - 1',
                      'implies(n <= position or position < 0, out == '
                      '%s[:n])' % S_,
                      'implies(n > position and position >= 0, out == '
                      '%s[:position] + (value,) + %s[position:n])' % (S_, S_),
                      'forall(range(0, min(len(out), position)), lambda k: '
                      'pulls[k] == k + 1)'])])
    # ---- insertMany: the values go in front of element `position` (at the
    # end when the collection is shorter, at the front when negative) --------
    VS = TSeq(TVal)
    c(C + 'insert_many', params=dict(collection=IT, position=TInt,
                                     values=VS),
      track_pulls='collection',
      ensures=[
          'implies(position < 0, out == values + %s)' % S_,
          'implies(0 <= position and position <= len(%s), out == '
          '%s[:position] + values + %s[position:])' % (S_, S_, S_),
          'implies(position > len(%s), out == %s + values)' % (S_, S_)],
      loops=[dict(anchor='for i, t in enumerate(collection)', index='n',
                  invariant=[
                      'SRC.pos == n', 'i == n - 1',
                      'implies(position < 0, out == values + %s[:n])' % S_,
                      'implies(0 <= position and n <= position, out == '
                      '%s[:n])' % S_,
                      'implies(0 <= position and n > position, out == '
                      '%s[:position] + values + %s[position:n])' % (S_, S_)
                  ])])
    # ---- replaceMany: the run [position, position+count) (to the end when
    # count < 0) is replaced by the values, emitted when the run is entered ----
    def hit_many(n):    # count == 0 replaces nothing
        return ('((count > 0 and %s < min(%s, %s)) or (count < 0 and %s < '
                '%s))' % (LO, HI, n, LO, n))

    def body_many(n):
        return [
            'implies(not %s, out == %s[:%s])' % (hit_many(n), S_, n),
            'implies(%s and count > 0, out == %s[:%s] + values + '
            '%s[%s:max(%s, %s)])' % (hit_many(n), S_, LO, S_, HI, n, HI),
            'implies(%s and count < 0, out == %s[:%s] + values)' % (
                hit_many(n), S_, LO)]
    c(C + 'replace_many', params=dict(collection=IT, position=TInt,
                                      values=VS, count=TInt),
      track_pulls='collection',
      ensures=body_many('len(%s)' % S_),
      loops=[dict(anchor='for i, t in enumerate(collection)', index='n',
                  invariant=['SRC.pos == n',
                             'yielded == %s' % hit_many('n')]
                  + body_many('n'))])
    c(C + 'list_insert', params=dict(collection=TSeq(TVal), position=TInt,
                                     value=TVal),
      ensures=[
          # agrees with the iterator overload on the common domain
          'implies(0 <= position and position <= len(collection), result == '
          'collection[:position] + (value,) + collection[position:])',
          'implies(position > len(collection), result == collection + '
          '(value,))',
          # a negative position counts from the end (Python's list.insert)
          'implies(position < 0, result == collection[:max(len(collection) '
          '+ position, 0)] + (value,) + collection[max(len(collection) + '
          'position, 0):])',
          # a yaql list (hashable: usable as a set member / dict key)
          'type(result) is tuple'], serves=('C13',))
    c(C + 'to_list', params=dict(collection=IT),
      ensures=['result == old_collection.seq'], serves=('C13',))
    # ---- searches: stop at the first hit -------------------------------------
    c(Q + 'index_of', params=dict(collection=IT, item=TVal),
      ensures=[
          'implies(result >= 0, result < len(%s) and %s[result] == item and '
          'not exists(range(0, result), lambda j: %s[j] == item) and '
          'SRC.pos == result + 1)' % (S_, S_, S_),
          'implies(result < 0, result == -1 and not exists(range(0, '
          'len(%s)), lambda j: %s[j] == item))' % (S_, S_)],
      loops=[dict(anchor='for i, t in enumerate(collection)', index='n',
                  invariant=['SRC.pos == n',
                             'not exists(range(0, n), lambda j: %s[j] == '
                             'item)' % S_])], env={'SRC': None},
      track_pulls='collection')
    c(Q + 'last_index_of', params=dict(collection=IT, item=TVal),
      ensures=[
          'implies(result >= 0, result < len(%s) and %s[result] == item and '
          'not exists(range(result + 1, len(%s)), lambda j: %s[j] == item))'
          % (S_, S_, S_, S_),
          'implies(result < 0, result == -1 and not exists(range(0, '
          'len(%s)), lambda j: %s[j] == item))' % (S_, S_)],
      loops=[dict(anchor='for i, t in enumerate(collection)', index='n',
                  invariant=[
                      'index >= -1 and index < n',
                      'implies(index >= 0, %s[index] == item)' % S_,
                      'not exists(range(index + 1, n), lambda j: %s[j] == '
                      'item)' % S_])],
      track_pulls='collection', serves=('C13',))
    P = 'truthy(predicate(%s))'
    c(Q + 'index_where', params=dict(collection=IT, predicate=TFunc(1)),
      ensures=[
          'implies(result >= 0, result < len(%s) and %s and not exists('
          'range(0, result), lambda j: %s) and SRC.pos == result + 1)' % (
              S_, P % (S_ + '[result]'), P % (S_ + '[j]')),
          'implies(result < 0, result == -1 and not exists(range(0, '
          'len(%s)), lambda j: %s))' % (S_, P % (S_ + '[j]'))],
      loops=[dict(anchor='for i, t in enumerate(collection)', index='n',
                  invariant=['SRC.pos == n',
                             'not exists(range(0, n), lambda j: %s)' % (
                                 P % (S_ + '[j]'))])],
      track_pulls='collection')
    c(Q + 'any_', name='queries.any_/predicate',
      params=dict(collection=IT, predicate=TFunc(1)),
      ensures=[
          'result == exists(range(0, len(%s)), lambda j: %s)' % (
              S_, P % (S_ + '[j]')),
          # short circuit: nothing is pulled past the first hit
          'implies(result, %s and not exists(range(0, SRC.pos - 1), '
          'lambda j: %s))' % (P % (S_ + '[SRC.pos - 1]'), P % (S_ + '[j]'))],
      loops=[dict(anchor='for t in collection', index='n',
                  invariant=['SRC.pos == n',
                             'not exists(range(0, n), lambda j: %s)' % (
                                 P % (S_ + '[j]'))])],
      track_pulls='collection')
    c(Q + 'any_', name='queries.any_/nonempty',
      params=dict(collection=IT),
      ensures=['result == (len(%s) > 0)' % S_, 'SRC.pos <= 1'],
      loops=[dict(anchor='for t in collection', index='n',
                  invariant=['SRC.pos == n', 'n == 0'])],
      track_pulls='collection')
    c(Q + 'all_', name='queries.all_/predicate',
      params=dict(collection=IT, predicate=TFunc(1)),
      ensures=[
          'result == forall(range(0, len(%s)), lambda j: %s)' % (
              S_, P % (S_ + '[j]')),
          'implies(not result, not %s and forall(range(0, SRC.pos - 1), '
          'lambda j: %s))' % (P % (S_ + '[SRC.pos - 1]'), P % (S_ + '[j]'))],
      loops=[dict(anchor='for t in collection', index='n',
                  invariant=['SRC.pos == n',
                             'forall(range(0, n), lambda j: %s)' % (
                                 P % (S_ + '[j]'))])],
      track_pulls='collection')
    c(Q + 'count_', params=dict(collection=IT),
      ensures=['result == len(%s)' % S_],
      loops=[dict(anchor='for t in collection', index='n',
                  invariant=['count == n'])],
      track_pulls='collection', serves=('C13',))
    c(Q + 'first', name='queries.first/default',
      params=dict(collection=IT, default=TVal),
      requires=['default is not NV'], env={'NV': NV},
      ensures=['result == (%s[0] if len(%s) > 0 else default)' % (S_, S_),
               'SRC.pos <= 1'], track_pulls='collection')
    c(Q + 'first', name='queries.first/nodefault',
      params=dict(collection=IT),
      raises={'StopIteration': 'len(%s) == 0' % S_},
      ensures=['len(%s) > 0' % S_, 'result == %s[0]' % S_, 'SRC.pos == 1'],
      track_pulls='collection')
    c(Q + 'single', params=dict(collection=IT),
      raises={'StopIteration': 'len(%s) != 1' % S_},
      ensures=['len(%s) == 1' % S_, 'result == %s[0]' % S_],
      track_pulls='collection', serves=('C13',))
    c(Q + 'last', name='queries.last/iterator',
      params=dict(collection=IT, default=TVal), env={'NV': NV},
      raises={'StopIteration': 'len(%s) == 0 and default is NV' % S_},
      requires=['forall(range(0, len(%s)), lambda j: %s[j] is not NV)' % (
          S_, S_)],
      ensures=['result == (%s[len(%s) - 1] if len(%s) > 0 else default)' % (
          S_, S_, S_)],
      loops=[dict(anchor='for t in collection', index='n',
                  invariant=['last_value == (%s[n - 1] if n > 0 else '
                             'default)' % S_])],
      track_pulls='collection', serves=('C13',))
    c(Q + 'last', name='queries.last/sequence',
      params=dict(collection=TSeq(TVal), default=TVal), env={'NV': NV},
      raises={'StopIteration': 'len(collection) == 0 and default is NV'},
      ensures=['result == (collection[len(collection) - 1] if '
               'len(collection) > 0 else default)'], serves=('C13',))
    c(Q + 'enumerate_', params=dict(collection=IT, start=TInt),
      track_pulls='collection',
      ensures=['len(out) == len(%s)' % S_,
               'forall(range(0, len(out)), lambda k: out[k] == '
               'val([start + k, %s[k]]) and pulls[k] == k + 1)' % S_],
      loops=[dict(anchor='for i, t in enumerate(collection, start)',
                  index='n',
                  invariant=['SRC.pos == n', 'len(out) == n',
                             'forall(range(0, n), lambda k: out[k] == '
                             'val([start + k, %s[k]]) and pulls[k] == k + 1)'
                             % S_])])
    c(Q + 'split_at', params=dict(collection=TSeq(TVal), index=TInt,
                                  to_list=_identity()),
      ensures=['result[0] == collection[:index] and result[1] == '
               'collection[index:]'], serves=('C13',))
    return cs


class _identity:
    is_factory = True

    def __call__(self, name, path):
        from vlib.pyvc.interp import Model
        return Model(name, lambda x: x)


def ordering_contracts():
    """orderBy / thenBy: the comparator is the lexicographic sign over the
    order fields with direction flags; do_sort is exactly one stable
    sorted(collection, key=Comparator) - nothing reverses it afterwards."""
    cs = []

    class fields:
        is_factory = True

        def __init__(self, n):
            self.n = n

        def __call__(self, name, path):
            out = []
            for i in range(self.n):
                sel = TFunc(1).fresh('sel%d' % i)
                asc = TBool.fresh('asc%d' % i)
                path.ghost['sel%d' % i] = sel
                path.ghost['asc%d' % i] = asc
                out.append((sel, asc))
            return out
    oi = obj('yaql.standard_library.queries.OrderingIterable',
             collection=TVal, operator_lt=TFunc(2), operator_gt=TFunc(2),
             order=fields(2), sorted=None)
    LT = 'truthy(outer_self.operator_lt(sel%d(left), sel%d(right)))'
    GT = 'truthy(outer_self.operator_gt(sel%d(left), sel%d(right)))'

    def sign(i):
        return '(ite(%s, -1, 1) * ite(asc%d, 1, -1))' % (LT % (i, i), i)
    dec0 = '(%s or %s)' % (LT % (0, 0), GT % (0, 0))
    dec1 = '(%s or %s)' % (LT % (1, 1), GT % (1, 1))
    cs.append(Contract(
        Q + 'OrderingIterable.do_sort.<locals>.Comparator.compare',
        name='queries.Comparator.compare',
        params=dict(left=TVal, right=TVal), env=dict(outer_self=oi),
        ensures=['implies(%s, result == %s)' % (dec0, sign(0)),
                 'implies(not %s and %s, result == %s)' % (dec0, dec1,
                                                           sign(1)),
                 'implies(not %s and not %s, result == 0)' % (dec0, dec1)],
        serves=('C13',), native=False))
    cs.append(Contract(
        Q + 'OrderingIterable.do_sort', name='queries.OrderingIterable.do_sort',
        params=dict(outer_self=oi),
        ensures=['len(calls) == 1 and calls[0][0] == "py.sorted$key"',
                 'implies(len(calls) == 1, calls[0][1][0] == '
                 'outer_self.collection and val(outer_self.sorted) == '
                 'calls[0][2])'],
        serves=('C13',), native=False))
    return cs


def memorize_contracts():
    """utils.memorize: a reader replays what is cached and pulls exactly one
    new element when it has caught up (C13 replay, C14 laziness)."""
    cs = []
    U = 'yaql.language.utils.'

    class cache:
        is_factory = True

        def __call__(self, name, path):
            from vlib.pyvc.interp import MList
            from vlib.pyvc.verify import make_param
            q = make_param(name, TSeq(TVal), path)
            q.kind = 'list'
            return MList(q)

    class reader:
        is_factory = True

        def __call__(self, name, path):
            from vlib.pyvc.verify import make_param
            o = obj('yaql.language.utils.memorize.<locals>.'
                    'RememberingIterator', index=TInt)(name, path)
            src = make_param('collection', TIter(TVal), path)
            path.ghost['SOURCE'] = src
            o.fields['seq'] = src
            return o

    class source:
        is_factory = True

        def __call__(self, name, path):
            from vlib.pyvc.verify import make_param
            return path.ghost['SOURCE']
    cs.append(Contract(
        U + 'memorize.<locals>.RememberingIterator.__next__',
        name='utils.memorize.__next__',
        params=dict(self=reader()),
        env=dict(collection=source(), yielded=cache(), engine=TVal),
        requires=['0 <= self.index', 'self.index <= len(yielded)',
                  # representation invariant of memorize: the cache is the
                  # prefix of the source pulled so far
                  'SOURCE.pos == len(yielded)',
                  'yielded == SOURCE.seq[:len(yielded)]'],
        raises={'StopIteration': 'OLD_index >= len(OLD_yielded) and '
                'len(OLD_yielded) >= len(SOURCE.seq)'},
        ensures=[
            'result == SOURCE.seq[OLD_index]',
            'self.index == OLD_index + 1',
            # cached: replay, nothing pulled; caught up: exactly one pull
            'implies(OLD_index < len(OLD_yielded), SOURCE.pos == '
            'len(OLD_yielded) and yielded == OLD_yielded)',
            'implies(OLD_index >= len(OLD_yielded), SOURCE.pos == '
            'len(OLD_yielded) + 1 and yielded == SOURCE.seq[:SOURCE.pos])'],
        serves=('C13', 'C14'), native=False))
    # the same object, as built by the real memorize() (closure and all),
    # driven through multi-step histories on a source of ANY length
    S_ = 'collection.seq'
    cs.append(Contract(
        U + 'memorize', name='utils.memorize/second-pass-is-free',
        params=dict(collection=TIter(TVal), engine=TVal),
        requires=['len(collection.seq) >= 1'],
        after='def after(m):\n'
              '    a = next(m)\n'
              '    r2 = iter(m)\n'
              '    return (a, r2)\n',
        ensures=['result[0] == old_collection.seq[0]',
                 # starting another pass pulls nothing
                 'collection.pos == 1',
                 'isinstance(result[1], "RememberingIterator") and '
                 'result[1].index == 0 and result[1] is not MADE'],
        serves=('C13', 'C14'), native=False))
    cs.append(Contract(
        U + 'memorize', name='utils.memorize/interleaved-readers',
        params=dict(collection=TIter(TVal), engine=TVal),
        requires=['len(collection.seq) >= 3'],
        # the second reader overtakes the first one and falls behind again
        after='def after(m):\n'
              '    r2 = iter(m)\n'
              '    a = next(m)\n'
              '    b = next(r2)\n'
              '    c = next(r2)\n'
              '    d = next(m)\n'
              '    e = next(m)\n'
              '    f = next(r2)\n'
              '    return (a, b, c, d, e, f)\n',
        ensures=['result[0] == old_collection.seq[0] and result[1] == '
                 'old_collection.seq[0]',
                 'result[2] == old_collection.seq[1] and result[3] == '
                 'old_collection.seq[1]',
                 'result[4] == old_collection.seq[2] and result[5] == '
                 'old_collection.seq[2]',
                 # every source element is pulled once, when first needed
                 'collection.pos == 3'],
        serves=('C13', 'C14'), native=False))
    cs.append(Contract(
        U + 'memorize', name='utils.memorize/sized-collections-pass',
        params=dict(collection=TSeq(TVal), engine=TVal),
        ensures=['result is collection'],
        serves=('C13', 'C14'), native=False))
    return cs


def join_contracts():
    """join streams its outer (receiver) side: the k-th result is produced by
    the row pulled last, nothing is pulled ahead; each result is the selector
    applied to that row and some row of the inner side that satisfies the
    predicate."""
    cs = []
    INV = ['forall(range(0, len(out)), lambda k: 1 <= pulls[k] and '
           'pulls[k] <= %s)',
           'forall(range(1, len(out)), lambda k: pulls[k - 1] <= pulls[k])',
           'forall(range(0, len(out)), lambda k: exists(range(0, '
           'len(collection2)), lambda j: out[k] == selector(SRC.seq['
           'pulls[k] - 1], collection2[j]) and truthy(predicate(SRC.seq['
           'pulls[k] - 1], collection2[j]))))']
    cs.append(Contract(
        Q + 'join', name='queries.join/streams-outer-side',
        params=dict(engine=TVal, collection1=TIter(TVal),
                    collection2=TSeq(TVal), predicate=TFunc(2),
                    selector=TFunc(2)),
        track_pulls='collection1',
        ensures=[i % 'len(SRC.seq)' if '%s' in i else i for i in INV] + [
            'SRC.pos == len(SRC.seq)'],
        loops=[dict(anchor='for self_item in collection1', index='n',
                    invariant=['SRC.pos == n'] + [
                        i % 'n' if '%s' in i else i for i in INV]),
               dict(anchor='for other_item in collection2', index='m',
                    invariant=['SRC.pos >= 1', 'self_item == SRC.seq['
                               'SRC.pos - 1]'] + [
                        i % 'SRC.pos' if '%s' in i else i for i in INV])],
        serves=('C11', 'C13', 'C14'), native=False))
    return cs


class _materialise:
    """to_list delegate on a lazy value: the tuple of what is left of it
    (pulls it to its end, as the real toList does)."""
    is_factory = True

    def __call__(self, name, path):
        from vlib.pyvc.interp import Model
        from vlib.pyvc import sym as S

        def to_list(x):
            if isinstance(x, S.SIter):
                rest = x.remaining()
                x.pos = x.seq.length
                return S.SSeq(rest.length, rest.arr, rest.elem, rest.off,
                              kind='tuple')
            return x
        return Model(name, to_list)


def slice_contracts():
    """slice(length): consecutive chunks of `length` elements (the last one
    shorter), each emitted as soon as its own elements have been pulled.
    One contract per concrete chunk length (keeps the arithmetic linear)."""
    cs = []
    for L in (1, 2, 3):
        inv = ['SRC.pos == min(%d * len(out), len(SRC.seq))' % L,
               'implies(len(out) >= 1, %d * (len(out) - 1) < len(SRC.seq))'
               % L,
               'forall(range(0, len(out)), lambda k: yoff[k] == %d * k and '
               'ylen[k] == min(%d, len(SRC.seq) - %d * k) and pulls[k] == '
               'min(%d * (k + 1), len(SRC.seq)))' % (L, L, L, L)]
        cs.append(Contract(
            Q + 'slice_', name='queries.slice_/%d' % L,
            params=dict(collection=TIter(TVal), length=L,
                        to_list=_materialise()),
            track_pulls='collection', track_slices=True,
            ensures=[
                # as many chunks as needed to cover the source, in order
                '%d * len(out) >= len(SRC.seq) and implies(len(out) >= 1, '
                '%d * (len(out) - 1) < len(SRC.seq))' % (L, L),
                'forall(range(0, len(out)), lambda k: yoff[k] == %d * k and '
                'ylen[k] == min(%d, len(SRC.seq) - %d * k))' % (L, L, L),
                # streaming: chunk k needs the elements up to its own end
                'forall(range(0, len(out)), lambda k: pulls[k] == '
                'min(%d * (k + 1), len(SRC.seq)))' % L],
            loops=[dict(anchor='while True', invariant=inv,
                        havoc={'res': TSeq(TVal)})],
            serves=('C13', 'C14'), native=False))
    return cs


def setup_mem(world):
    setup(world)
    world.callee_contract('yaql.language.utils.limit_memory_usage')


def wrapper_contracts():
    """Thin wrappers over lazy constructors (T-lazy): the right constructor
    on the right arguments in the right order; skip/limit against the slice
    they denote, with nothing pulled at call time."""
    cs = []
    IT = TIter(TVal)

    def c(fname, **kw):
        kw.setdefault('serves', ('C13', 'C14'))
        kw.setdefault('native', False)
        x = Contract(Q + fname, **kw)
        cs.append(x)
        return x
    c('where', params=dict(collection=IT, predicate=TFunc(1)),
      ensures=['result == ufn("py.filter", predicate, old_collection)',
               'collection.pos == 0'])
    c('take_while', params=dict(collection=IT, predicate=TFunc(1)),
      ensures=['result == ufn("itertools.takewhile", predicate, '
               'old_collection)', 'collection.pos == 0'])
    c('skip_while', params=dict(collection=IT, predicate=TFunc(1)),
      ensures=['result == ufn("itertools.dropwhile", predicate, '
               'old_collection)', 'collection.pos == 0'])
    c('limit', params=dict(collection=IT, count=TInt),
      requires=['count >= 0'],
      ensures=['result.seq == old_collection.seq[:count]',
               'collection.pos == 0'],
      # the same meaning should the operator be written as a generator:
      # the first `count` elements, each emitted as soon as it is pulled,
      # and nothing pulled beyond the last one emitted
      gen_form=dict(track_pulls='collection', ensures=[
          'out == SRC.seq[:count]',
          'forall(range(0, len(out)), lambda k: pulls[k] == k + 1)',
          'SRC.pos == len(out)']))
    c('skip', params=dict(collection=IT, count=TInt),
      requires=['count >= 0'],
      ensures=['result.seq == old_collection.seq[count:]',
               'collection.pos == 0'],
      gen_form=dict(track_pulls='collection', ensures=[
          'out == SRC.seq[count:]',
          'forall(range(0, len(out)), lambda k: pulls[k] == count + k + 1)']))
    c('select', params=dict(collection=TSeq(TVal), selector=TFunc(1)),
      ensures=['len(result) == len(collection)',
               'forall(range(0, len(collection)), lambda k: result[k] == '
               'selector(collection[k]))'], serves=('C13',))
    c('append', params=dict(collection=IT, args=tuple_of(TVal, 2)),
      track_pulls='collection',
      ensures=['out == SRC.seq + args'])
    c('reverse', params=dict(collection=TVal, to_list=TFunc(1)),
      ensures=['result == ufn("py.reversed", to_list(collection))'],
      serves=('C13',))
    c('aggregate', name='queries.aggregate/noseed',
      params=dict(collection=TVal, selector=TFunc(2)),
      ensures=['result == ufn("functools.reduce", selector, collection)'],
      serves=('C13',))
    c('aggregate', name='queries.aggregate/seed',
      params=dict(collection=TVal, selector=TFunc(2), seed=TVal),
      requires=['seed is not NV'], env={'NV': NV},
      ensures=['result == ufn("functools.reduce", selector, collection, '
               'seed)'], serves=('C13',))
    # ---- more thin wrappers: the right constructor, the right arguments --
    c('concat', params=dict(collections=tuple_of(TVal, 2)),
      ensures=['result == ufn("itertools.chain", collections[0], '
               'collections[1])'], serves=('C13',))
    c('zip_', params=dict(collections=tuple_of(TVal, 2)),
      ensures=['result == ufn("py.zip", collections[0], collections[1])'],
      serves=('C13',))
    c('zip_longest', name='queries.zip_longest/default',
      params=dict(collections=tuple_of(TVal, 2), kwargs={}),
      ensures=['result == ufn("itertools.zip_longest$fillvalue", '
               'collections[0], collections[1], None)'], serves=('C13',))
    c('zip_longest', name='queries.zip_longest/fill',
      params=dict(collections=tuple_of(TVal, 2), kwargs=_kw_default()),
      ensures=['result == ufn("itertools.zip_longest$fillvalue", '
               'collections[0], collections[1], FILL)'], serves=('C13',))
    c('repeat', params=dict(value=TVal, times=TInt),
      ensures=['implies(times < 0, result == ufn("itertools.repeat", '
               'value))',
               'implies(times >= 0, result == ufn("itertools.repeat", '
               'value, times))'], serves=('C13',))
    c('cycle', params=dict(collection=TVal),
      ensures=['result == ufn("itertools.cycle", collection)'],
      serves=('C13',))
    c('sequence', params=dict(start=TInt, step=TInt),
      ensures=['result == ufn("itertools.count", start, step)'],
      serves=('C13',))
    for fn, arg in (('sum_', 'operator'), ('max_', 'func'), ('min_', 'func')):
        # sum / max / min ARE the fold of the injected binary operator
        c(fn, name='queries.%s/noseed' % fn,
          params={'collection': TVal, arg: TFunc(2)},
          ensures=['result == ufn("functools.reduce", %s, collection)' % arg],
          serves=('C13',))
        c(fn, name='queries.%s/seed' % fn,
          params={'collection': TVal, arg: TFunc(2), 'initial': TVal},
          requires=['initial is not NV'], env={'NV': NV},
          ensures=['result == ufn("functools.reduce", %s, collection, '
                   'initial)' % arg], serves=('C13',))
    for fn, asc in (('order_by', True), ('order_by_descending', False)):
        # orderBy starts an ordering with ONE key of the given direction
        c(fn, params=dict(collection=TVal, selector=TFunc(1),
                          operator_lt=TFunc(2), operator_gt=TFunc(2)),
          ensures=['isinstance(result, "OrderingIterable")',
                   'result.collection == collection',
                   'result.operator_lt is operator_lt and '
                   'result.operator_gt is operator_gt',
                   'len(result.order) == 1 and result.order[0][0] is '
                   'selector and result.order[0][1] is %s' % asc,
                   'result.sorted is None'], serves=('C13',))
    c('then_by', params=dict(collection=_oi(), selector=TFunc(1),
                             context=TVal),
      ensures=['result is collection',
               # thenBy APPENDS a lower-priority key
               'len(collection.order) == 2 and collection.order[0] == '
               'OLD_FIRST and collection.order[1][0] is selector and '
               'collection.order[1][1] is True'], serves=('C13',))
    c('then_by_descending', params=dict(collection=_oi(), selector=TFunc(1),
                                        context=TVal),
      ensures=['result is collection',
               'len(collection.order) == 2 and collection.order[0] == '
               'OLD_FIRST and collection.order[1][0] is selector and '
               'collection.order[1][1] is False'], serves=('C13',))
    return cs


class _local_class:
    """The class object of a class defined inside a function (it is in the
    closure of its own methods)."""
    is_factory = True

    def __init__(self, target):
        self.target = target

    def __call__(self, name, path):
        from vlib.pyvc.world import find_function
        world = obj.world
        parts = self.target.split('.')
        for i in range(len(parts) - 1, 0, -1):
            m = '.'.join(parts[:i])
            if world.is_repo_module(m):
                mod = world.module(m)
                node = find_function(mod, '.'.join(parts[i:]))
                return world.class_ref(mod, node)
        raise LookupError(self.target)


class _kw_default:
    is_factory = True

    def __call__(self, name, path):
        v = TVal.fresh('FILL')
        path.ghost['FILL'] = v
        return {'default': v}


class _oi:
    is_factory = True

    def __call__(self, name, path):
        first = (TFunc(1).fresh('sel0'), TBool.fresh('asc0'))
        path.ghost['OLD_FIRST'] = first
        return obj('yaql.standard_library.queries.OrderingIterable',
                   collection=TVal, operator_lt=TVal, operator_gt=TVal,
                   order=None, sorted=None, context=None)._with(
                       name, path, order=[first])


def lambda_contracts():
    """C11, per-element lambdas: a lambda is applied once per element the
    operator consumes / emits, never speculatively.  `ncalls(f)` is the
    ghost counter of applications of callback f."""
    cs = []
    IT = TIter(TVal)

    def c(fname, **kw):
        kw.setdefault('serves', ('C11',))
        kw.setdefault('native', None)
        x = Contract(Q + fname, **kw)
        cs.append(x)
        return x
    # generate(): the selector runs exactly once per emitted element (in
    # particular not on the repeated element that ends a decycled run), the
    # producer once per emitted element, the predicate once per test
    for sel in (True, False):
        for decycle in (True, False):
            inv = ['ncalls(producer) == len(out)',
                   'ncalls(predicate) == len(out)']
            ens = ['ncalls(producer) == len(out)',
                   'ncalls(predicate) >= len(out) and '
                   'ncalls(predicate) <= len(out) + 1']
            if sel:
                inv.append('ncalls(selector) == len(out)')
                ens.append('ncalls(selector) == len(out)')
            c('generate', name='queries.generate/selector=%s,decycle=%s' % (
                sel, decycle),
              params=dict(engine=TVal, initial=TVal, predicate=TFunc(1),
                          producer=TFunc(1),
                          selector=TFunc(1) if sel else None,
                          decycle=decycle),
              ensures=ens,
              raises={'MemoryQuotaExceededException': 'True'},
              loops=[dict(anchor='while predicate(initial)',
                          invariant=inv)],
              native=False)     # (may not terminate on a native lambda)
    # searching / testing with a predicate: one application per element
    # pulled from the source, none ahead of the pull, none repeated
    c('index_where', name='queries.index_where/calls',
      params=dict(collection=IT, predicate=TFunc(1)),
      ensures=['ncalls(predicate) == SRC.pos'],
      loops=[dict(anchor='for i, t in enumerate(collection)', index='n',
                  invariant=['SRC.pos == n', 'ncalls(predicate) == n'])],
      track_pulls='collection')
    c('last_index_where', name='queries.last_index_where/calls',
      params=dict(collection=IT, predicate=TFunc(1)),
      ensures=['ncalls(predicate) == len(SRC.seq)'],
      loops=[dict(anchor='for i, t in enumerate(collection)', index='n',
                  invariant=['ncalls(predicate) == n'])],
      track_pulls='collection')
    for fn in ('any_', 'all_'):
        c(fn, name='queries.%s/calls' % fn,
          params=dict(collection=IT, predicate=TFunc(1)),
          ensures=['ncalls(predicate) == SRC.pos'],
          loops=[dict(anchor='for t in collection', index='n',
                      invariant=['SRC.pos == n', 'ncalls(predicate) == n'])],
          track_pulls='collection')
    # distinct: the key selector once per source element
    c('distinct', name='queries.distinct/calls',
      params=dict(engine=TVal, collection=IT, key_selector=TFunc(1)),
      ensures=['ncalls(key_selector) == len(SRC.seq)'],
      loops=[dict(anchor='for t in collection', index='n',
                  invariant=['ncalls(key_selector) == n'])],
      track_pulls='collection')
    # splitWhere / sliceWhere: the predicate once per element of the list
    for fn in ('split_where', 'slice_where'):
        c(fn, name='queries.%s/calls' % fn,
          params=dict(collection=TSeq(TVal), predicate=TFunc(1),
                      to_list=_ident()),
          ensures=['ncalls(predicate) == len(collection)'],
          loops=[dict(anchor='while end < len(lst)',
                      havoc={'p1': TVal},
                      invariant=['0 <= end and end <= len(lst)',
                                 '0 <= start and start <= end',
                                 'ncalls(predicate) == end'])])
    # accumulate: the folding lambda once per element after the first
    c('accumulate', name='queries.accumulate/calls',
      params=dict(collection=IT, selector=TFunc(2), seed=TVal),
      env={'NV': NV}, requires=['seed is not NV'],
      ensures=['ncalls(selector) == len(SRC.seq)',
               'len(out) == len(SRC.seq) + 1'],
      loops=[dict(anchor='for x in it', index='n',
                  invariant=['ncalls(selector) == n',
                             'len(out) == n + 1'])],
      track_pulls='collection')
    return cs


class _ident:
    """to_list delegate: the list of the (already sized) collection."""
    is_factory = True

    def __call__(self, name, path):
        from vlib.pyvc.interp import Model
        return Model(name, lambda x: x)


def partition_contracts():
    """C13, splitting operators against their documented meaning, for lists
    of ANY length: the ghost sequences yoff[k] / ylen[k] give the offset and
    length of the k-th emitted slice of the list."""
    cs = []
    P = 'predicate(lst[%s])'
    L = 'len(collection)'
    LAST = 'yoff[len(out) - 1] + ylen[len(out) - 1]'
    common = [
        # slices are non-empty, start at 0, and are contiguous
        'forall(range(0, len(out)), lambda k: ylen[k] > 0 and yoff[k] >= 0)',
        'implies(len(out) > 0, yoff[0] == 0)',
        'forall(range(0, len(out) - 1), lambda k: yoff[k + 1] == yoff[k] + '
        'ylen[k])',
        # every cut is a change of the predicate value ...
        'forall(range(1, len(out)), lambda k: %s != %s)' % (
            P % 'yoff[k]', P % 'yoff[k] - 1'),
        # ... and inside a slice the value never changes (maximal runs)
        'forall(range(0, len(out)), lambda k: forall(range(yoff[k] + 1, '
        'yoff[k] + ylen[k]), lambda j: %s == %s))' % (P % 'j', P % 'j - 1'),
    ]
    cs.append(Contract(
        Q + 'slice_where', name='queries.slice_where',
        params=dict(collection=TSeq(TVal), predicate=TFunc(1),
                    to_list=_ident()),
        env={'NV': NV, 'lst': None},
        track_slices=True,
        # NO_VALUE is an engine-internal sentinel: no expression yields it
        requires=['forall(range(0, len(collection)), lambda j: '
                  'predicate(collection[j]) is not NV)'],
        ensures=[c.replace('lst[', 'collection[') for c in common] + [
            'implies(%s == 0, len(out) == 0)' % L,
            'implies(%s > 0, len(out) > 0 and %s == %s)' % (L, LAST, L),
            # each emitted value IS that slice of the list
            'forall(range(0, len(out)), lambda k: out[k] == '
            'val(collection[yoff[k]:yoff[k] + ylen[k]]))'],
        loops=[dict(
            anchor='while end < len(lst)', havoc={'p1': TVal},
            invariant=common + [
                '0 <= start and start <= end and end <= len(lst)',
                'implies(end > 0, start < end)',
                'implies(end > 0, p1 == %s)' % (P % 'end - 1'),
                'implies(end == 0, p1 is NV)',
                'forall(range(start + 1, end), lambda j: %s == %s)' % (
                    P % 'j', P % 'j - 1'),
                'implies(start > 0, %s != %s)' % (P % 'start',
                                                  P % 'start - 1'),
                'implies(len(out) == 0, start == 0)',
                'implies(len(out) > 0, %s == start)' % LAST,
                'forall(range(0, len(out)), lambda k: out[k] == '
                'val(lst[yoff[k]:yoff[k] + ylen[k]]))'])],
        serves=('C13',), native=False))
    # splitWhere: cut AT the elements satisfying the predicate (they are
    # dropped); empty pieces are kept except a trailing one
    T = 'truthy(predicate(lst[%s]))'
    END = '(yoff[len(out) - 1] + ylen[len(out) - 1])'
    shape = [
        'forall(range(0, len(out)), lambda k: ylen[k] >= 0 and yoff[k] >= 0)',
        'implies(len(out) > 0, yoff[0] == 0)',
        # consecutive pieces are separated by exactly one dropped element,
        # and that element satisfies the predicate
        'forall(range(0, len(out) - 1), lambda k: yoff[k + 1] == yoff[k] + '
        'ylen[k] + 1 and %s)' % (T % 'yoff[k] + ylen[k]'),
        # no element inside a piece satisfies it
        'forall(range(0, len(out)), lambda k: forall(range(yoff[k], '
        'yoff[k] + ylen[k]), lambda j: not %s))' % (T % 'j'),
    ]
    cs.append(Contract(
        Q + 'split_where', name='queries.split_where',
        params=dict(collection=TSeq(TVal), predicate=TFunc(1),
                    to_list=_ident()),
        env={'lst': None}, track_slices=True,
        ensures=[c.replace('lst[', 'collection[') for c in shape] + [
            'implies(%s == 0, len(out) == 0)' % L,
            # the pieces cover the list: the last one ends at the end of the
            # list, or right before a final separator
            'implies(%s > 0, len(out) > 0 and (%s == %s or (%s == %s - 1 and '
            '%s)))' % (L, END, L, END, L,
                       (T % ('%s - 1' % L)).replace('lst[', 'collection[')),
            'forall(range(0, len(out)), lambda k: out[k] == '
            'val(collection[yoff[k]:yoff[k] + ylen[k]]))'],
        loops=[dict(
            anchor='while end < len(lst)',
            invariant=shape + [
                '0 <= start and start <= end and end <= len(lst)',
                'forall(range(start, end), lambda j: not %s)' % (T % 'j'),
                'implies(len(out) == 0, start == 0)',
                'implies(len(out) > 0, %s + 1 == start and %s)' % (
                    END, T % 'start - 1'),
                'forall(range(0, len(out)), lambda k: out[k] == '
                'val(lst[yoff[k]:yoff[k] + ylen[k]]))'])],
        serves=('C13',), native=False))
    return cs


def setup_merge(world):
    setup(world)
    world.callee_contract(Q + '_merge_dicts', raises={'TypeError': True})
    world.recursive_contracts = True


def merge_contracts():
    """dict.mergeWith: one level of _merge_dicts with the recursive call
    abstracted by its own contract (structural induction): which merger a
    common key gets, and the depth budget handed to the nested merge."""
    cs = []

    class d_of:
        is_factory = True

        def __init__(self, keys, tag):
            self.keys, self.tag = keys, tag

        def __call__(self, name, path):
            out = {}
            for k in self.keys:
                v = TVal.fresh('%s_%s' % (self.tag, k))
                path.ghost['%s_%s' % (self.tag, k)] = v
                out[k] = v
            return out
    MAP2 = 'isinstance(V2_a, "Mapping")'
    MAP1 = 'isinstance(V1_a, "Mapping")'
    SEQ2 = ('(isinstance(V2_a, "Sequence") and not isinstance(V2_a, "str"))')
    SEQ1 = ('(isinstance(V1_a, "Sequence") and not isinstance(V1_a, "str"))')
    RC = '[e for e in calls if e[0] == "contract:queries._merge_dicts"]'
    cs.append(Contract(
        Q + '_merge_dicts', name='queries._merge_dicts',
        params=dict(dict1=d_of(('a', 'c'), 'V1'), dict2=d_of(('a', 'b'),
                                                              'V2'),
                    list_merge_func=TFunc(2), item_merger=TFunc(2),
                    max_levels=TInt),
        requires=['max_levels >= 0'],
        # kinds that do not match - here, or (last clause) deeper inside
        # the nested merge
        raises={'TypeError': '(max_levels != 1 and %s and not %s) or '
                '(max_levels != 1 and not %s and %s and not %s) or '
                '(max_levels != 1 and %s and %s)' % (
                    MAP2, MAP1, MAP2, SEQ2, SEQ1, MAP2, MAP1)},
        ensures=[
            # keys: union; keys of one side only keep their value
            'len(result) == 3 and result["b"] == V2_b and '
            'result["c"] == V1_c',
            # a yaql dict (hashable: usable as a set member / dict key)
            'isinstance(result, "FrozenDict")',
            # a nested mapping is merged recursively with the SAME mergers
            # and one level less of the depth budget (0 = unlimited)
            'implies(max_levels != 1 and %s, len(%s) == 1 and '
            'result["a"] == %s[0][2])' % (MAP2, RC, RC),
            'all([e[1][0] == V1_a and e[1][1] == V2_a and e[1][4] == '
            '(0 if max_levels == 0 else max_levels - 1) for e in %s])' % RC,
            'implies(max_levels == 1 or not %s, len(%s) == 0)' % (MAP2, RC),
            'implies(max_levels != 1 and not %s and %s, result["a"] == '
            'list_merge_func(V1_a, V2_a))' % (MAP2, SEQ2),
            'implies(max_levels == 1 or (not %s and not %s), result["a"] == '
            'item_merger(V1_a, V2_a))' % (MAP2, SEQ2)],
        serves=('C13',), native=False))
    # the same when both operands are yaql dicts over the SAME keys - also
    # when they happen to be equal: a common key always goes through its
    # merger (lists are concatenated-and-deduplicated, a custom item merger
    # is called), the left operand is never handed back as it is
    class fd_of(d_of):
        def __call__(self, name, path):
            from contracts._util import obj as _obj
            o = _obj('yaql.language.utils.FrozenDict', _d=None,
                     _hash=None)(name, path)
            o.fields['_d'] = d_of.__call__(self, name, path)
            return o
    cs.append(Contract(
        Q + '_merge_dicts', name='queries._merge_dicts/same-keys',
        params=dict(dict1=fd_of(('a',), 'V1'), dict2=fd_of(('a',), 'V2'),
                    list_merge_func=TFunc(2), item_merger=TFunc(2),
                    max_levels=TInt),
        requires=['max_levels >= 0'],
        raises={'TypeError': '(max_levels != 1 and %s and not %s) or '
                '(max_levels != 1 and not %s and %s and not %s) or '
                '(max_levels != 1 and %s and %s)' % (
                    MAP2, MAP1, MAP2, SEQ2, SEQ1, MAP2, MAP1)},
        ensures=[
            'len(result) == 1', 'isinstance(result, "FrozenDict")',
            'result is not dict1 and result is not dict2',
            'implies(max_levels != 1 and %s, len(%s) == 1 and '
            'result["a"] == %s[0][2])' % (MAP2, RC, RC),
            'implies(max_levels == 1 or not %s, len(%s) == 0)' % (MAP2, RC),
            'implies(max_levels != 1 and not %s and %s, result["a"] == '
            'list_merge_func(V1_a, V2_a))' % (MAP2, SEQ2),
            'implies(max_levels == 1 or (not %s and not %s), result["a"] == '
            'item_merger(V1_a, V2_a))' % (MAP2, SEQ2)],
        serves=('C13',), native=False))
    MD = 'contract:queries._merge_dicts'
    # mergeWith hands the dictionaries, the mergers and the depth budget to
    # _merge_dicts unchanged; the default item merger takes the second item
    cs.append(Contract(
        Q + 'merge_with', name='queries.merge_with/explicit',
        params=dict(engine=TVal, to_list=TFunc(1), d=TVal, another=TVal,
                    list_merger=TFunc(2), item_merger=TFunc(2),
                    max_levels=TInt),
        raises={'TypeError': 'True'},
        ensures=['len(calls) == 1 and calls[0][0] == "%s"' % MD,
                 'calls[0][1][0] == d and calls[0][1][1] == another and '
                 'calls[0][1][2] is list_merger and calls[0][1][3] is '
                 'item_merger and calls[0][1][4] == max_levels and '
                 'result == calls[0][2]'],
        serves=('C13',), native=False))
    cs.append(Contract(
        Q + 'merge_with', name='queries.merge_with/defaults',
        params=dict(engine=TVal, to_list=TFunc(1), d=TVal, another=TVal,
                    list_merger=None, item_merger=None, max_levels=TInt,
                    X=TVal, Y=TVal),
        raises={'TypeError': 'True'},
        ensures=['len(calls) == 1 and calls[0][0] == "%s"' % MD,
                 'calls[0][1][0] == d and calls[0][1][1] == another and '
                 'calls[0][1][4] == max_levels and result == calls[0][2]',
                 'calls[0][1][3](X, Y) == Y'],
        serves=('C13',), native=False))
    return cs


def functional_contracts():
    """C13 functional models (all lengths) of the remaining hand-written
    query loops: distinct, accumulate, selectMany(scalar), groupBy."""
    cs = []
    IT = TIter(TVal)

    def c(fname, **kw):
        kw.setdefault('serves', ('C13',))
        kw.setdefault('native', None)
        x = Contract(Q + fname, **kw)
        cs.append(x)
        return x
    # ---- distinct: the first occurrence of every key, in encounter order;
    # pulls[k] - 1 is the source index of the k-th result --------------------
    for keyed in (True, False):
        K = 'key_selector(%s)' if keyed else '%s'
        firsts = (
            'forall(range(0, len(out)), lambda k: 1 <= pulls[k] and '
            'pulls[k] <= %%s and out[k] == %s[pulls[k] - 1] and not '
            'exists(range(0, pulls[k] - 1), lambda j: %s == %s))' % (
                S_, K % (S_ + '[j]'), K % 'out[k]'))
        incr = ('forall(range(0, len(out) - 1), lambda k: pulls[k] < '
                'pulls[k + 1])')
        covered = (
            'forall(range(0, %%s), lambda i: exists(range(0, len(out)), '
            'lambda k: pulls[k] - 1 <= i and %s == %s))' % (
                K % 'out[k]', K % (S_ + '[i]')))
        seen = ('forall(Val, lambda v: (v in distinct_values) == exists('
                'range(0, n), lambda j: %s == v))' % (K % (S_ + '[j]')))
        c('distinct', name='queries.distinct/%s' % (
            'key' if keyed else 'plain'),
          params=dict(engine=TVal, collection=IT,
                      key_selector=TFunc(1) if keyed else None),
          track_pulls='collection',
          ensures=[firsts % ('len(%s)' % S_), incr,
                   covered % ('len(%s)' % S_)],
          loops=[dict(anchor='for t in collection', index='n',
                      invariant=['SRC.pos == n', seen, firsts % 'n', incr,
                                 covered % 'n'])])
    # ---- accumulate: the running folds -------------------------------------
    c('accumulate', name='queries.accumulate/seed',
      params=dict(collection=IT, selector=TFunc(2), seed=TVal),
      env={'NV': NV}, requires=['seed is not NV'],
      track_pulls='collection',
      ensures=['len(out) == len(%s) + 1' % S_, 'out[0] == seed',
               'forall(range(0, len(%s)), lambda k: out[k + 1] == '
               'selector(out[k], %s[k]))' % (S_, S_),
               # streaming: the k-th fold needs exactly k source elements
               'forall(range(0, len(out)), lambda k: pulls[k] == k)'],
      loops=[dict(anchor='for x in it', index='n',
                  invariant=['len(out) == n + 1', 'out[0] == seed',
                             'total == out[n]',
                             'forall(range(0, n), lambda k: out[k + 1] == '
                             'selector(out[k], %s[k]))' % S_,
                             'forall(range(0, len(out)), lambda k: '
                             'pulls[k] == k)'])])
    # accumulate without a seed: the first element is the first result
    c('accumulate', name='queries.accumulate/no-seed',
      params=dict(collection=IT, selector=TFunc(2), seed=NV),
      track_pulls='collection',
      raises={'TypeError': 'len(%s) == 0' % S_},
      ensures=['len(%s) >= 1 and len(out) == len(%s)' % (S_, S_),
               'out[0] == %s[0]' % S_,
               'forall(range(1, len(%s)), lambda k: out[k] == '
               'selector(out[k - 1], %s[k]))' % (S_, S_),
               'forall(range(0, len(out)), lambda k: pulls[k] == k + 1)'],
      loops=[dict(anchor='for x in it', index='n',
                  invariant=['len(out) == n + 1', 'out[0] == %s[0]' % S_,
                             'total == out[n]',
                             'forall(range(1, n + 1), lambda k: out[k] == '
                             'selector(out[k - 1], %s[k]))' % S_,
                             'forall(range(0, len(out)), lambda k: '
                             'pulls[k] == k + 1)'])], native=False)
    # ---- selectMany: the rows' projections, flattened one level, in order;
    # every result is emitted by the row pulled last (nothing pulled ahead)
    ITEMS = 'ufn("py.iteritems", selector(%s[%%s]), ret="Arr")' % S_
    ROWS = ('forall(range(0, len(out)), lambda k: 1 <= pulls[k] and '
            'pulls[k] <= %s)')
    MONO = 'forall(range(1, len(out)), lambda k: pulls[k - 1] <= pulls[k])'
    ROW = 'selector(%s[pulls[k] - 1])' % S_
    SCALAR = ('forall(range(0, len(out)), lambda k: implies(not ('
              'isinstance(%s, "Iterable") and not isinstance(%s, "str") and '
              'not isinstance(%s, "Mapping")), out[k] == %s))' % (
                  ROW, ROW, ROW, ROW))
    c('select_many', name='queries.select_many/streams',
      params=dict(collection=IT, selector=TFunc(1)),
      track_pulls='collection',
      ensures=[ROWS % ('len(%s)' % S_), MONO, 'SRC.pos == len(%s)' % S_,
               # a scalar projection is the row's only result
               SCALAR],
      loops=[dict(anchor='for item in collection', index='n',
                  invariant=['SRC.pos == n', ROWS % 'n', MONO,
                             SCALAR])],
      serves=('C13', 'C14'), native=False)
    return cs


def setup_functional(world):
    setup_mem(world)
    world.callee_contract(
        'yaql.language.utils.is_iterable', result=TBool,
        ensures=['result == (isinstance(obj, "Iterable") and not '
                 'isinstance(obj, "str") and not isinstance(obj, "Mapping"))'])


def setup_dicts(world):
    setup_mem(world)
    world.symbolic_dicts = True


def dict_builder_contracts():
    """toDict / dict(items): the keys are exactly the selected keys, and the
    LAST element carrying a key provides its value."""
    cs = []
    IT = TIter(TVal)

    def c(fname, **kw):
        kw.setdefault('serves', ('C13',))
        kw.setdefault('native', None)
        x = Contract(C + fname, **kw)
        cs.append(x)
        return x
    for vsel in (True, False):
        K = 'key_selector(%s)'
        V = 'value_selector(%s)' if vsel else '%s'
        keys = ('forall(Val, lambda k: (k in result) == exists(range(0, %%s), '
                'lambda j: %s == k))' % (K % (S_ + '[j]')))
        last = ('forall(range(0, %%s), lambda j: implies(not exists(range(j + '
                '1, %%s), lambda i: %s == %s), result[%s] == %s))' % (
                    K % (S_ + '[i]'), K % (S_ + '[j]'), K % (S_ + '[j]'),
                    V % (S_ + '[j]')))
        L = 'len(%s)' % S_
        c('to_dict', name='collections.to_dict/%s' % (
            'value-selector' if vsel else 'identity'),
          params=dict(collection=IT, engine=TVal, key_selector=TFunc(1),
                      value_selector=TFunc(1) if vsel else None),
          track_pulls='collection',
          ensures=[keys % L, last % (L, L),
                   'isinstance(result, "FrozenDict")'],
          loops=[dict(anchor='for t in collection', index='n',
                      invariant=['SRC.pos == n', keys % 'n',
                                 last % ('n', 'n')])])
    return cs
