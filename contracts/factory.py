"""Sidecar contracts for yaql/language/factory.py (C02): the numbering of
groups and the sign conventions of the operator table."""
from vlib.pyvc.verify import Contract
from vlib.pyvc.sym import TInt, TBool, TStr, TVal
from contracts._util import obj

F = 'yaql.language.factory.'
KINDS = ['PREFIX_UNARY', 'SUFFIX_UNARY', 'BINARY_LEFT_ASSOCIATIVE',
         'BINARY_RIGHT_ASSOCIATIVE']


def setup(world):
    # OperatorType = namedtuple(...)(PREFIX_UNARY='PREFIX_UNARY', ...): its
    # field values are read from the call's keywords in the real source
    import ast
    import types
    mod = world.module('yaql.language.factory')
    vals = {}
    for n in mod.tree.body:
        if isinstance(n, ast.Assign) and any(
                isinstance(t, ast.Name) and t.id == 'OperatorType'
                for t in n.targets) and isinstance(n.value, ast.Call):
            for k in n.value.keywords:
                if isinstance(k.value, ast.Constant):
                    vals[k.arg] = k.value.value
    world.opaque_globals[('yaql.language.factory', 'OperatorType')] = \
        types.SimpleNamespace(**vals)


class names:
    is_factory = True

    def __call__(self, name, path):
        return iter(['A', 'B', 'C', 'D', 'E', 'F', 'G'])


class table:
    """operators list of the given shape: 'o' = a record with a distinct
    symbol and a SYMBOLIC kind, '|' = group separator."""
    is_factory = True

    def __init__(self, shape, arity=None):
        self.shape = shape
        self.arity = arity

    def __call__(self, name, path):
        ops, i = [], 0
        for ch in self.shape:
            if ch == '|':
                ops.append(())
            else:
                k = TStr.fresh('kind%d' % i)
                path.symbols['kind%d' % i] = k.t
                path.ghost['K%d' % i] = k
                ops.append(('s%d' % i, k))
                i += 1
        fac = obj('yaql.language.factory.YaqlFactory', _keyword_operator=None,
                  _allow_delegates=False)(name, path)
        fac.fields['operators'] = ops
        return fac


def contracts():
    cs = []
    for shape in ('o', 'o|o', 'oo|o', 'o||o', '|o|oo'):
        n = shape.count('o')
        req = ['(' + ' or '.join('K%d == "%s"' % (i, k) for k in KINDS) + ')'
               for i in range(n)]
        ens = []
        level, i = 1, 0
        for ch in shape:
            if ch == '|':
                level += 1
                continue
            e = 'result.operators["s%d"]' % i
            # group number = 1 + separators before the record; prefix and
            # left-associative are positive, suffix and right-associative
            # negative; the other component stays 0; a fresh token name
            ens += [
                'implies(K%d == "PREFIX_UNARY", %s[0] == %d and %s[1] == 0)'
                % (i, e, level, e),
                'implies(K%d == "SUFFIX_UNARY", %s[0] == %d and %s[1] == 0)'
                % (i, e, -level, e),
                'implies(K%d == "BINARY_LEFT_ASSOCIATIVE", %s[0] == 0 and '
                '%s[1] == %d)' % (i, e, e, level),
                'implies(K%d == "BINARY_RIGHT_ASSOCIATIVE", %s[0] == 0 and '
                '%s[1] == %d)' % (i, e, e, -level),
                '%s[2] == "OP_%s" and %s[3] is None' % (e, 'ABCDEFG'[i], e)]
            i += 1
        ens.append('len(result.operators) == %d and result.name_value_op '
                   'is None' % n)
        cs.append(Contract(
            F + 'YaqlFactory._build_operator_table',
            name='factory._build_operator_table/' + shape.replace('|', 'I'),
            params=dict(self=table(shape), name_generator=names()),
            requires=req, ensures=ens, serves=('C02',), native=False))
    return cs


# ---------------------------------------------------------------- insert ----
BIN = '(%s == "BINARY_LEFT_ASSOCIATIVE" or %s == "BINARY_RIGHT_ASSOCIATIVE")'
UNA = '(%s == "PREFIX_UNARY" or %s == "SUFFIX_UNARY")'


def expected_insert(shape, arity, anchor, anchor_binary, create_group):
    """The table after insert_operator, from the STATEMENT of what the
    helper is for (docs: 'insert an operator before or after some other
    existing operator to get the desired precedence'; property C02: 'group
    numbering in insert_operator'):
      * anchor None: the new operator becomes the tightest - the first
        member of the first group, or (create_group) a new first group;
      * anchor given: the first record with that symbol and arity decides
        the group; the new operator joins the END of that group, or
        (create_group) forms a new group of its own immediately AFTER
        (= looser than) it, tighter than the next one;
      * every other record and separator keeps its place and order.
    Returns a list of 'N' / record indices / '|', or None for ValueError."""
    items, i = [], 0
    for ch in shape:
        if ch == '|':
            items.append('|')
        else:
            items.append(i)
            i += 1
    if anchor is None:
        return (['N', '|'] if create_group else ['N']) + items
    pos = None
    for j, it in enumerate(items):
        if it != '|' and it == anchor and (arity[it] == 'b') == anchor_binary:
            pos = j
            break
    if pos is None:
        return None
    end = pos
    while end < len(items) and items[end] != '|':
        end += 1            # end of the anchor's group
    if create_group:
        return items[:end] + ['|', 'N'] + items[end:]
    return items[:end] + ['N'] + items[end:]


def insert_contracts():
    cs = []
    family = [('o', 'b'), ('oo', 'bu'), ('o|o', 'bb'), ('o|o', 'ub'),
              ('oo|o', 'bbb'), ('o|oo|o', 'bubb'), ('o|o|o', 'bub')]
    for shape, arity in family:
        n = len(arity)
        for anchor in [None] + list(range(n)):
            for anchor_binary in ((True,) if anchor is None
                                  else (True, False)):
                for cg in (False, True):
                    exp = expected_insert(shape, arity, anchor,
                                          anchor_binary, cg)
                    req = [(BIN if a == 'b' else UNA) % (('K%d' % i,) * 2)
                           for i, a in enumerate(arity)]
                    nm = 'factory.insert_operator/%s:%s/%s%s/%s' % (
                        shape.replace('|', 'I'), arity,
                        'head' if anchor is None else 's%d' % anchor,
                        '' if anchor is None else
                        ('b' if anchor_binary else 'u'),
                        'group' if cg else 'join')
                    ens, raises = [], {}
                    if exp is None:
                        raises = {'ValueError': 'True'}
                        ens = ['False']
                    else:
                        ens.append('len(self.operators) == %d' % len(exp))
                        for j, it in enumerate(exp):
                            e = 'self.operators[%d]' % j
                            if it == '|':
                                ens.append('len(%s) == 0' % e)
                            elif it == 'N':
                                ens.append(
                                    '%s[0] == "N" and %s[1] == '
                                    'new_operator_type and %s[2] is None'
                                    % (e, e, e))
                            else:
                                ens.append('%s[0] == "s%d" and %s[1] == K%d'
                                           % (e, it, e, it))
                    cs.append(Contract(
                        F + 'YaqlFactory.insert_operator', name=nm,
                        params=dict(
                            self=table(shape, arity),
                            existing_operator=(None if anchor is None
                                               else 's%d' % anchor),
                            existing_operator_binary=anchor_binary,
                            new_operator='N', new_operator_type=TStr,
                            create_group=cg, new_operator_alias=None),
                        requires=req, ensures=ens, raises=raises,
                        always_raises=exp is None,
                        serves=('C02',), native=False))
    # the legacy factory: no keyword pseudo-operator; `=>` is an ordinary
    # left-associative binary operator in a group of its own just below `or`
    cs.append(Contract(
        'yaql.legacy.YaqlFactory.__init__', name='legacy.factory.__init__',
        params=dict(self=obj('yaql.legacy.YaqlFactory'),
                    allow_delegates=TBool),
        env={'wf': _wf, 'std': obj('yaql.language.factory.YaqlFactory')},
        ensures=['self._keyword_operator is None', 'wf(self.operators)',
                 'self._allow_delegates is allow_delegates',
                 'len(self.operators) == len(std._standard_operators()) + 2',
                 'self.operators[-1][0] == "->" and len(self.operators[-2]) '
                 '== 0 and self.operators[-3][0] == "=>" and '
                 'self.operators[-3][1] == "BINARY_LEFT_ASSOCIATIVE" and '
                 'len(self.operators[-4]) == 0 and '
                 'self.operators[-5][0] == "or"',
                 'self.operators[:-4] == std._standard_operators()[:-2]'],
        serves=('C02',), native=False))
    return cs


def _wf(ops):
    """Well-formed operator table: starts and ends with a record, no two
    adjacent separators (every group number is used)."""
    if not ops or len(ops[0]) < 2 or len(ops[-1]) < 2:
        return False
    return not any(len(a) == 0 and len(b) == 0 for a, b in zip(ops, ops[1:]))


def init_contracts():
    cs = []
    blank = obj('yaql.language.factory.YaqlFactory')
    common = ['self._keyword_operator is keyword_operator',
              'self._allow_delegates is allow_delegates', 'wf(self.operators)']
    for nm, kw in (('none', None), ('empty', '')):
        cs.append(Contract(
            F + 'YaqlFactory.__init__', name='factory.__init__/keyword=' + nm,
            params=dict(self=blank, keyword_operator=kw,
                        allow_delegates=TBool),
            env={'wf': _wf},
            ensures=common + [
                # no keyword operator: exactly the standard table
                'self.operators == self._standard_operators()'],
            serves=('C02',), native=False))
    cs.append(Contract(
        F + 'YaqlFactory.__init__', name='factory.__init__/keyword=symbol',
        params=dict(self=blank, keyword_operator=TStr, allow_delegates=TBool),
        env={'wf': _wf},
        requires=['len(keyword_operator) > 0'],
        ensures=common + [
            # the keyword pseudo-operator joins the FIRST group
            'self.operators[0][0] == keyword_operator and '
            'self.operators[0][1] == "NAME_VALUE_PAIR" and '
            'len(self.operators[0]) == 2',
            'self.operators[1:] == self._standard_operators()'],
        serves=('C02',), native=False))
    # the legacy factory: no keyword pseudo-operator; `=>` is an ordinary
    # left-associative binary operator in a group of its own just below `or`
    cs.append(Contract(
        'yaql.legacy.YaqlFactory.__init__', name='legacy.factory.__init__',
        params=dict(self=obj('yaql.legacy.YaqlFactory'),
                    allow_delegates=TBool),
        env={'wf': _wf, 'std': obj('yaql.language.factory.YaqlFactory')},
        ensures=['self._keyword_operator is None', 'wf(self.operators)',
                 'self._allow_delegates is allow_delegates',
                 'len(self.operators) == len(std._standard_operators()) + 2',
                 'self.operators[-1][0] == "->" and len(self.operators[-2]) '
                 '== 0 and self.operators[-3][0] == "=>" and '
                 'self.operators[-3][1] == "BINARY_LEFT_ASSOCIATIVE" and '
                 'len(self.operators[-4]) == 0 and '
                 'self.operators[-5][0] == "or"',
                 'self.operators[:-4] == std._standard_operators()[:-2]'],
        serves=('C02',), native=False))
    return cs
