"""Sidecar contracts for yaql/language/factory.py (C02): the numbering of
groups and the sign conventions of the operator table."""
from vlib.pyvc.verify import Contract
from vlib.pyvc.sym import TInt, TBool, TStr, TVal
from contracts._util import obj

F = 'yaql.language.factory.'
KINDS = ['PREFIX_UNARY', 'SUFFIX_UNARY', 'BINARY_LEFT_ASSOCIATIVE',
         'BINARY_RIGHT_ASSOCIATIVE']


def setup(world):
    # OperatorType = namedtuple(...)(PREFIX_UNARY='PREFIX_UNARY', ...): its
    # field values are read from the call's keywords in the real source
    import ast
    import types
    mod = world.module('yaql.language.factory')
    vals = {}
    for n in mod.tree.body:
        if isinstance(n, ast.Assign) and any(
                isinstance(t, ast.Name) and t.id == 'OperatorType'
                for t in n.targets) and isinstance(n.value, ast.Call):
            for k in n.value.keywords:
                if isinstance(k.value, ast.Constant):
                    vals[k.arg] = k.value.value
    world.opaque_globals[('yaql.language.factory', 'OperatorType')] = \
        types.SimpleNamespace(**vals)


class names:
    is_factory = True

    def __call__(self, name, path):
        return iter(['A', 'B', 'C', 'D', 'E', 'F', 'G'])


class table:
    """operators list of the given shape: 'o' = a record with a distinct
    symbol and a SYMBOLIC kind, '|' = group separator."""
    is_factory = True

    def __init__(self, shape):
        self.shape = shape

    def __call__(self, name, path):
        ops, i = [], 0
        for ch in self.shape:
            if ch == '|':
                ops.append(())
            else:
                k = TStr.fresh('kind%d' % i)
                path.symbols['kind%d' % i] = k.t
                path.ghost['K%d' % i] = k
                ops.append(('s%d' % i, k))
                i += 1
        fac = obj('yaql.language.factory.YaqlFactory', _keyword_operator=None,
                  _allow_delegates=False)(name, path)
        fac.fields['operators'] = ops
        return fac


def contracts():
    cs = []
    for shape in ('o', 'o|o', 'oo|o', 'o||o', '|o|oo'):
        n = shape.count('o')
        req = ['(' + ' or '.join('K%d == "%s"' % (i, k) for k in KINDS) + ')'
               for i in range(n)]
        ens = []
        level, i = 1, 0
        for ch in shape:
            if ch == '|':
                level += 1
                continue
            e = 'result.operators["s%d"]' % i
            # group number = 1 + separators before the record; prefix and
            # left-associative are positive, suffix and right-associative
            # negative; the other component stays 0; a fresh token name
            ens += [
                'implies(K%d == "PREFIX_UNARY", %s[0] == %d and %s[1] == 0)'
                % (i, e, level, e),
                'implies(K%d == "SUFFIX_UNARY", %s[0] == %d and %s[1] == 0)'
                % (i, e, -level, e),
                'implies(K%d == "BINARY_LEFT_ASSOCIATIVE", %s[0] == 0 and '
                '%s[1] == %d)' % (i, e, e, level),
                'implies(K%d == "BINARY_RIGHT_ASSOCIATIVE", %s[0] == 0 and '
                '%s[1] == %d)' % (i, e, e, -level),
                '%s[2] == "OP_%s" and %s[3] is None' % (e, 'ABCDEFG'[i], e)]
            i += 1
        ens.append('len(result.operators) == %d and result.name_value_op '
                   'is None' % n)
        cs.append(Contract(
            F + 'YaqlFactory._build_operator_table',
            name='factory._build_operator_table/' + shape.replace('|', 'I'),
            params=dict(self=table(shape), name_generator=names()),
            requires=req, ensures=ens, serves=('C02',), native=False))
    return cs
