"""Sidecar contracts for the remaining small functions of the standard library
(session 4): thin wrappers and kind predicates of queries.py, collections.py,
system.py, strings.py, boolean.py, math.py - each the right builtin / callee
on the right arguments in the right order, with nothing consumed at call time
where the result is lazy (C13, C14, C15, C19)."""
from vlib.pyvc.verify import Contract
from vlib.pyvc.sym import (TInt, TBool, TStr, TVal, TSeq, TOpt, TFunc, TIter,
                           TSet, TMap, TReal, Opaque)
from contracts._util import obj, tuple_of

Q = 'yaql.standard_library.queries.'
C = 'yaql.standard_library.collections.'
SY = 'yaql.standard_library.system.'
ST = 'yaql.standard_library.strings.'
B = 'yaql.standard_library.boolean.'
MA = 'yaql.standard_library.math.'
RX = 'yaql.standard_library.regex.'
NV = Opaque('NO_VALUE')


def setup(world):
    world.opaque_globals[('yaql.language.utils', 'NO_VALUE')] = NV
    world.symbolic_sets = True
    world.callee_contract('yaql.language.utils.limit_memory_usage')
    world.callee_contract('yaql.language.utils.memorize', result=TVal)
    world.callee_contract('yaql.language.utils.is_iterator', result=TBool,
                          ensures=['result == isinstance(obj, "Iterator")'])
    world.callee_contract(ST + 'string_by_int', result=TVal)
    world.callee_contract(ST + 'join', result=TVal)
    world.callee_contract(Q + 'count_', result=TVal)
    world.callee_contract(Q + 'concat', result=TVal)


def predicate_contracts():
    """Kind predicates: exactly the Python class named by the function."""
    cs = []

    def c(target, **kw):
        kw.setdefault('serves', ('C13', 'C15', 'C19'))
        x = Contract(target, **kw)
        x.native_scope = 3
        cs.append(x)
        return x
    c(ST + 'is_string', params=dict(arg=TVal),
      ensures=['result == isinstance(arg, "str")'])
    # true and false only: 0 / 1 / null are not booleans
    c(B + 'is_boolean', params=dict(value=TVal),
      ensures=['result == isinstance(value, "bool")'])
    return cs


def wrapper_contracts():
    cs = []
    IT = TIter(TVal)

    def c(target, **kw):
        kw.setdefault('serves', ('C13',))
        kw.setdefault('native', False)
        x = Contract(target, **kw)
        cs.append(x)
        return x
    # ---- member projection over a collection: lazily, element by element,
    # the `.` operator applied to (element, attribute) ----------------------
    c(Q + 'collection_attribution',
      params=dict(collection=IT, attribute=TVal, operator=TFunc(2)),
      ensures=['isinstance(result, "Iterator")',
               'len(result.seq) == len(old_collection.seq)',
               'forall(range(0, len(result.seq)), lambda k: result.seq[k] == '
               'operator(old_collection.seq[k], attribute))',
               # nothing is pulled at call time
               'collection.pos == 0 and result.pos == 0'],
      serves=('C13', 'C14', 'C04', 'C11'))
    c(Q + 'count', params=dict(collection=TVal),
      ensures=['len(calls) == 1 and calls[0][0] == "contract:queries.count_"'
               ' and calls[0][1][0] == collection and result == calls[0][2]'])
    c(Q + 'memorize', params=dict(collection=TVal, engine=TVal),
      ensures=['len(calls) == 1 and calls[0][0] == "contract:utils.memorize"'
               ' and calls[0][1][0] == collection and calls[0][1][1] == '
               'engine and result == calls[0][2]'], serves=('C13', 'C14'))
    # ---- defaultIfEmpty on a sized collection: the collection itself, or
    # the default when it has no elements -----------------------------------
    c(Q + 'default_if_empty', name='queries.default_if_empty/seq',
      params=dict(engine=TVal, collection=TSeq(TVal), default=TVal),
      ensures=['implies(len(collection) == 0, val(result) == default)',
               'implies(len(collection) > 0, val(result) == '
               'val(collection))'])
    # ---- flatten: scalars stay in place (base case, any length) ... --------
    for tag, T in (('ints', TInt), ('strings', TStr)):
        # (strings are scalars for flatten: not iterated character-wise)
        c(C + 'flatten', name='collections.flatten/' + tag,
          params=dict(collection=TSeq(T)), yields=T,
          ensures=['out == collection'],
          loops=[dict(anchor='for t in collection', index='n',
                      invariant=['out == collection[:n]'])])
    # ---- ranges: [0, stop) and [start, stop) by step -----------------------
    c(Q + 'range_', params=dict(stop=TInt),
      ensures=['len(result.seq) == max(stop, 0)',
               'forall(range(0, len(result.seq)), lambda k: '
               'result.seq[k] == k)', 'result.pos == 0'])
    c(Q + 'range__', name='queries.range__/step=1',
      params=dict(start=TInt, stop=TInt, step=1),
      ensures=['len(result.seq) == max(stop - start, 0)',
               'forall(range(0, len(result.seq)), lambda k: '
               'result.seq[k] == start + k)', 'result.pos == 0'])
    # ---- strings ---------------------------------------------------------
    c(ST + 'join_', params=dict(separator=TStr, sequence=TVal,
                                str_delegate=TFunc(1)),
      ensures=['len(calls) == 1 and calls[0][0] == "contract:strings.join" '
               'and calls[0][1][0] == sequence and calls[0][1][1] == '
               'separator and calls[0][1][2] == str_delegate and '
               'result == calls[0][2]'], serves=('C19',))
    c(ST + 'int_by_string', params=dict(left=TInt, right=TStr, engine=TVal),
      ensures=['len(calls) == 1 and calls[0][0] == '
               '"contract:strings.string_by_int" and calls[0][1][0] == right '
               'and calls[0][1][1] == left and calls[0][1][2] == engine and '
               'result == calls[0][2]'], serves=('C15', 'C19', 'C08'))
    c(ST + 'hex_', params=dict(num=TInt),
      ensures=['result == ufn("py.hex", num, ret="Str")'], serves=('C19',))
    # ---- system ------------------------------------------------------------
    c(SY + 'lambda_', params=dict(func=TVal), ensures=['result is func'],
      serves=('C04', 'C11'))
    # assert: the condition is evaluated once, on the object (a one-shot
    # iterator is memorized first so that the caller still gets all of it);
    # the object comes back iff the condition holds
    CM = '[e for e in calls if e[0] == "contract:utils.memorize"]'
    c(SY + 'assert__', name='system.assert__/value',
      params=dict(engine=TVal, obj=TVal, condition=TFunc(1), message=TStr),
      requires=['not isinstance(obj, "Iterator")'],
      raises={'AssertionError': 'not truthy(condition(obj))'},
      ensures=['truthy(condition(obj))', 'result is obj',
               'ncalls(condition) == 1', 'len(%s) == 0' % CM],
      serves=('C11', 'C13'))
    c(SY + 'assert__', name='system.assert__/iterator',
      params=dict(engine=TVal, obj=TVal, condition=TFunc(1), message=TStr),
      requires=['isinstance(obj, "Iterator")'],
      raises={'AssertionError': 'len(%s) == 1 and not truthy(condition('
              '%s[0][2]))' % (CM, CM)},
      ensures=['len(%s) == 1 and %s[0][1][0] == obj and %s[0][1][1] == '
               'engine' % (CM, CM, CM),
               'result == %s[0][2] and truthy(condition(result))' % CM,
               'ncalls(condition) == 1'],
      serves=('C11', 'C13', 'C14'))
    # obj.name on a plain object: ONLY through a registered #property#name
    # function, never getattr
    c(SY + 'get_property', params=dict(func=TFunc(2), obj=TVal, name=TStr),
      ensures=['result == func("#property#" + name, obj)',
               'len([e for e in calls if e[0] == "getattr"]) == 0'],
      serves=('C07', 'C04'))
    return cs
