"""Sidecar contracts for yaql/standard_library/system.py and the evaluation
glue in specs / yaqltypes / expressions (C04, C11, C13)."""
from vlib.pyvc.verify import Contract
from vlib.pyvc.sym import (TInt, TBool, TStr, TVal, TSeq, TOpt, TFunc, TIter,
                           Opaque)
from contracts._util import obj, mapcell, writelog, tuple_of

M = 'yaql.standard_library.system.'
NV = Opaque('NO_VALUE')


def setup(world):
    world.opaque_globals[('yaql.language.utils', 'NO_VALUE')] = NV
    world.opaque_sig('create_child_context', log=True)
    world.opaque_sig('register_function', log=True)


def contracts():
    cs = []

    def c(fname, **kw):
        kw.setdefault('serves', ('C04',))
        kw.setdefault('native', False)
        x = Contract(M + fname if not fname.startswith('yaql.') else fname,
                     **kw)
        cs.append(x)
        return x

    c('get_context_data', params=dict(name=TStr, context=mapcell()),
      raises={'KeyError': 'not (name in context)'},
      ensures=['result == context[name]'])
    c('op_dot', params=dict(receiver=TVal, expr=TFunc(1)),
      ensures=['len(calls) == 1 and calls[0][1][0] == receiver',
               'result == calls[0][2]'], serves=('C04', 'C11'))
    c('elvis_operator', params=dict(operator=TFunc(2), receiver=TVal,
                                    expr=TVal),
      ensures=['implies(receiver is None, result is None and '
               'len(calls) == 0)',
               'implies(receiver is not None, len(calls) == 1 and '
               'calls[0][1][0] == receiver and calls[0][1][1] == expr and '
               'result == calls[0][2])'], serves=('C04', 'C11'))
    # def(name, body): the registered function hands the body exactly its
    # own arguments - nothing of the CALL site (no context, no receiver)
    # reaches the body, which was captured lexically by Lambda.convert
    class callback:
        is_factory = True

        def __init__(self, arity):
            self.arity = arity

        def __call__(self, name, path):
            return TFunc(self.arity).fresh(name)
    for n in (0, 1, 2):
        c('def_.<locals>.wrapper', name='system.def_.wrapper/%d' % n,
          params=dict(args=tuple_of(TVal, n)), env=dict(func=callback(n)),
          ensures=['len(calls) == 1 and calls[0][0] == func.name',
                   'len(calls[0][1]) == %d' % n] + [
                       'calls[0][1][%d] == args[%d]' % (k, k)
                       for k in range(n)] + ['result == calls[0][2]'])
    c('def_', params=dict(name=TStr, func=TFunc(1), context=TVal),
      ensures=['result is context',
               # registered under the name the EXPRESSION gave (explicitly:
               # a name left to register_function goes through the
               # context's naming convention, and `def(my_func, ..) ->
               # my_func(1)` would look for a function that was stored as
               # myFunc); trailing underscores as in every lookup
               'len(calls) == 1 and calls[0][0] == '
               '"m.register_function$name" and calls[0][1][0] == context',
               'calls[0][1][2] == name.rstrip("_")',
               # what is registered is the wrapper closed over THIS body
               'calls[0][1][1].closure_vars["func"] is func',
               # ... declared as a plain FUNCTION of that name and nothing
               # else: no method / extension-method marking (it would take
               # over every method call of the name inside the scope), no
               # parameter declarations
               'all([d[0] == "name" and d[1][0] == name '
               'for d in calls[0][1][1].decos])'])
    c('send_context', params=dict(left=TVal, right=TFunc(1)),
      ensures=['len(calls) == 1 and calls[0][1][0] == left',
               'result == calls[0][2]'])
    for n in (0, 1, 2, 3):
        c('with_', name='system.with_/%d' % n,
          params=dict(context=writelog(), args=tuple_of(TVal, n)),
          ensures=['result is context', 'len(context.keys) == %d' % n] + [
              'context.keys[%d] == "%d" and context.vals[%d] == args[%d]' % (
                  i, i + 1, i, i) for i in range(n)])
        c('let', name='system.let/%d' % n,
          params=dict(__context__=writelog(), args=tuple_of(TVal, n),
                      kwargs=kwdict(('a', 'b'))),
          ensures=['result is __context__',
                   'len(__context__.keys) == %d' % (n + 2)] + [
              '__context__.keys[%d] == "%d" and __context__.vals[%d] == '
              'args[%d]' % (i, i + 1, i, i) for i in range(n)] + [
              '__context__.keys[%d] == "a" and __context__.vals[%d] == '
              'kwargs["a"]' % (n, n),
              '__context__.keys[%d] == "b" and __context__.vals[%d] == '
              'kwargs["b"]' % (n + 1, n + 1)])
    # unpack(names...) : exactly len(args) elements, bound by name
    for kind, T in (('seq', TSeq(TVal)), ('iter', TIter(TVal))):
        S = 'old_sequence' if kind == 'seq' else 'old_sequence.seq'
        for n in (1, 2):
            c('unpack', name='system.unpack/%s/%d' % (kind, n),
              params=dict(sequence=T, context=writelog(),
                          args=tuple_of(TStr, n)),
              raises={'ValueError': 'len(%s) != %d' % (S, n)},
              ensures=['len(%s) == %d' % (S, n), 'result is context',
                       'len(context.keys) == %d' % n] + [
                  'context.keys[%d] == args[%d] and context.vals[%d] == '
                  '%s[%d]' % (i, i, i, S, i) for i in range(n)],
              serves=('C04', 'C13'))
        # unpack() : every element, under its 1-based index
        c('unpack', name='system.unpack/%s/0' % kind,
          params=dict(sequence=T, context=writelog()),
          ensures=['result is context',
                   'len(context.keys) == len(%s)' % S,
                   'len(context.vals) == len(%s)' % S,
                   'forall(range(0, len(%s)), lambda j: context.keys[j] == '
                   'str(j + 1) and context.vals[j] == %s[j])' % (S, S)],
          loops=[None, dict(
              anchor='for i, t in enumerate(itertools.chain(lst, sequence), 1)', index='n',
              invariant=['len(context.keys) == n', 'len(context.vals) == n',
                         'forall(range(0, n), lambda j: context.keys[j] == '
                         'str(j + 1) and context.vals[j] == %s[j])' % (
                             S,)])],
          serves=('C04', 'C13'))
    return cs


class kwdict:
    """Parameter factory: a ** dict with the given keys, fresh Val values."""
    is_factory = True

    def __init__(self, keys):
        self.keys = keys

    def __call__(self, name, path):
        return {k: TVal.fresh('%s.%s' % (name, k)) for k in self.keys}
