"""Sidecar contracts for yaql/standard_library/regex.py (C19).

Compiled patterns and match objects are opaque values under the assumed
contract T-re: `groups()` is a sequence of (str or None), `groupdict()` maps
group names to (str or None), `start/end/group` are functions of the match
and the group id."""
import z3
from vlib.pyvc import sym as S
from vlib.pyvc.verify import Contract
from vlib.pyvc.sym import (TInt, TBool, TStr, TVal, TSeq, TOpt, TFunc, SSeq,
                           SVal, SStr)
from vlib.pyvc.world import WriteLog, IterSpec
from vlib.pyvc import models

M = 'yaql.standard_library.regex.'


class GroupDict:
    """match.groupdict(): names[k] -> vals[k], k < n (insertion ordered)."""

    def __init__(self, match):
        self.n = models.uf('re.ngroups_named', S.Val, z3.IntSort())(match.t)
        self.names = models.uf('re.group_name', S.Val, z3.IntSort(),
                               z3.StringSort())
        self.vals = models.uf('re.named_value', S.Val, z3.IntSort(), S.Val)
        self.match = match

    def _k(self, k):
        return k if z3.is_expr(k) else z3.IntVal(k)

    def items(self):
        return IterSpec(self.n, lambda k: (
            SStr(self.names(self.match.t, self._k(k))),
            SVal(self.vals(self.match.t, self._k(k)))))

    def values(self):
        return IterSpec(self.n, lambda k: SVal(self.vals(self.match.t,
                                                         self._k(k))))

    def keys(self):
        return IterSpec(self.n, lambda k: SStr(self.names(self.match.t,
                                                          self._k(k))))


def setup(world):
    for nm, ret in (('group', 'Val'), ('start', 'Int'), ('end', 'Int'),
                    ('search', 'Val'), ('split', 'Val'), ('sub', 'Val')):
        world.opaque_sig(nm, ret)

    def groups(recv, args, kw, it):
        n = models.uf('re.ngroups', S.Val, z3.IntSort())(recv.t)
        it.path.assume(n >= 0)
        arr = models.uf('re.groups', S.Val, z3.ArraySort(z3.IntSort(),
                                                         S.Val))(recv.t)
        world.trusted_used.add('re match.groups() (T-re)')
        return SSeq(n, arr, TVal, kind='tuple')
    world.opaque_sigs['groups'] = groups

    def groupdict(recv, args, kw, it):
        world.trusted_used.add('re match.groupdict() (T-re)')
        g = GroupDict(recv)
        it.path.assume(g.n >= 0)
        # T-re: every value is a str or None
        k = z3.Int('gd_k')
        it.path.assume(z3.ForAll([k], z3.Or(
            S.tag_fn(g.vals(recv.t, k)) == 0,
            S.tag_fn(g.vals(recv.t, k)) == 4)))
        return g
    world.opaque_sigs['groupdict'] = groupdict

    def gd_methods(o, n, a, k, it, node):
        if isinstance(o, GroupDict) and n in ('items', 'values', 'keys'):
            return getattr(o, n)()
        return NotImplemented
    world.method_models.append(gd_methods)

    def gd_attr(o, name, it):
        if isinstance(o, GroupDict):
            from vlib.pyvc.interp import BoundMethod
            return BoundMethod(o, name)
        return NotImplemented
    world.attr_models.append(gd_attr)


class ctx_log:
    """Parameter factory: the context as a ghost write log."""
    is_factory = True

    def __call__(self, name, path):
        return WriteLog()


REC = "{'value': %s, 'start': %s, 'end': %s}"


def contracts():
    cs = []
    pm = Contract(
        M + '_publish_match',
        params=dict(context=ctx_log(), match=TVal),
        ensures=[
            # exactly 1 + ngroups + nnamed writes, nothing else
            'len(context.keys) == 1 + len(match.groups()) + '
            'ufn("re.ngroups_named", match, ret="Int")',
            'len(context.vals) == len(context.keys)',
            'context.keys[0] == "$1"',
            'context.vals[0] == val(' + REC % (
                'match.group()', 'match.start(0)', 'match.end(0)') + ')',
            'forall(range(0, len(match.groups())), lambda j: '
            'context.keys[1 + j] == "$" + str(j + 2) and '
            'context.vals[1 + j] == val(' + REC % (
                'match.groups()[j]', 'match.start(j + 1)',
                'match.end(j + 1)') + '))',
            'forall(range(0, ufn("re.ngroups_named", match, ret="Int")), '
            'lambda j: context.keys[1 + len(match.groups()) + j] == "$" + '
            'ufn("re.group_name", match, j, ret="Str") and '
            'context.vals[1 + len(match.groups()) + j] == val(' +
            REC % ('ufn("re.named_value", match, j)',
                   'match.start(ufn("re.group_name", match, j, ret="Str"))',
                   'match.end(ufn("re.group_name", match, j, ret="Str"))') +
            '))',
        ],
        loops=[
            dict(anchor='for i, t in enumerate(match.groups(), 1)',
                 index='n',
                 invariant=[
                     'len(context.keys) == 1 + n',
                     'len(context.vals) == 1 + n',
                     'context.keys[0] == "$1"',
                     'context.vals[0] == val(' + REC % (
                         'match.group()', 'match.start(0)',
                         'match.end(0)') + ')',
                     'forall(range(0, n), lambda j: '
                     'context.keys[1 + j] == "$" + str(j + 2) and '
                     'context.vals[1 + j] == val(' + REC % (
                         'match.groups()[j]', 'match.start(j + 1)',
                         'match.end(j + 1)') + '))']),
            dict(anchor='for key, value in match.groupdict().items()', index='n',
                 invariant=[
                     'len(context.keys) == 1 + len(match.groups()) + n',
                     'len(context.vals) == len(context.keys)',
                     'context.keys[0] == "$1"',
                     'context.vals[0] == val(' + REC % (
                         'match.group()', 'match.start(0)',
                         'match.end(0)') + ')',
                     'forall(range(0, len(match.groups())), lambda j: '
                     'context.keys[1 + j] == "$" + str(j + 2) and '
                     'context.vals[1 + j] == val(' + REC % (
                         'match.groups()[j]', 'match.start(j + 1)',
                         'match.end(j + 1)') + '))',
                     'forall(range(0, n), '
                     'lambda j: context.keys[1 + len(match.groups()) + j] '
                     '== "$" + ufn("re.group_name", match, j, ret="Str") and '
                     'context.vals[1 + len(match.groups()) + j] == '
                     'val(' + REC % (
                         'ufn("re.named_value", match, j)',
                         'match.start(ufn("re.group_name", match, j, '
                         'ret="Str"))',
                         'match.end(ufn("re.group_name", match, j, '
                         'ret="Str"))') + '))']),
        ],
        serves=('C19',), native=False)
    cs.append(pm)
    return cs


# ================= selector plumbing of search / searchAll ==================

def setup_plumbing(world):
    setup(world)
    world.opaque_sig('create_child_context', alloc=True, log=True)
    world.opaque_sig('sub', log=True)
    world.callee_contract(M + '_publish_match')

    def finditer(recv, args, kw, it):
        # T-re: the successive matches, an (unknown) finite sequence that is
        # a function of the pattern and the subject
        n = models.uf('re.nmatches', S.Val, z3.StringSort(), z3.IntSort())(
            recv.t, S.TStr.unwrap(args[0]))
        it.path.assume(n >= 0)
        if S.FIXED_SEQ_LEN[0] is not None:
            n = z3.IntVal(S.FIXED_SEQ_LEN[0])   # refutation mode
        arr = models.uf('re.matches', S.Val, z3.StringSort(), z3.ArraySort(
            z3.IntSort(), S.Val))(recv.t, S.TStr.unwrap(args[0]))
        world.trusted_used.add('re pattern.finditer() (T-re)')
        return SSeq(n, arr, TVal, kind='tuple')
    world.opaque_sigs['finditer'] = finditer


class _tv:
    is_factory = True

    def __init__(self, base):
        self.base = base

    def __call__(self, name, path):
        return TVal.fresh(self.base)


class _fn:
    is_factory = True

    def __init__(self, base):
        self.base = base

    def __call__(self, name, path):
        return TFunc(1).fresh(self.base)


def plumbing_contracts():
    """Every match is handed to the selector in a context OF ITS OWN: the
    k-th result is the selector applied to the k-th freshly allocated child
    of the caller's context (lazily built results of different matches must
    not see each other's $1..$n)."""
    cs = []
    CHILD = 'ufn("m.create_child_context#", context, %s)'
    MS = 'regexp.finditer(string)'
    cs.append(Contract(
        M + 'search_all', name='regex.search_all/selector',
        params=dict(context=TVal, regexp=TVal, string=TStr,
                    selector=TFunc(1)),
        ensures=['len(out) == len(%s)' % MS,
                 'forall(range(0, len(out)), lambda k: out[k] == selector('
                 '%s))' % (CHILD % 'k')],
        loops=[dict(anchor='for res in regexp.finditer(string)', index='n',
                    invariant=[
                        'len(out) == n',
                        'ncalls("m.create_child_context") == n',
                        'forall(range(0, n), lambda k: out[k] == selector('
                        '%s))' % (CHILD % 'k')])],
        serves=('C19', 'C04'), native=False))
    cs.append(Contract(
        M + 'search_all', name='regex.search_all/plain',
        params=dict(context=TVal, regexp=TVal, string=TStr, selector=None),
        ensures=['len(out) == len(%s)' % MS,
                 'forall(range(0, len(out)), lambda k: out[k] == '
                 '%s[k].group())' % MS],
        loops=[dict(anchor='for res in regexp.finditer(string)', index='n',
                    invariant=[
                        'len(out) == n',
                        'forall(range(0, n), lambda k: out[k] == '
                        '%s[k].group())' % MS])],
        serves=('C19',), native=False))
    PM = '[e for e in calls if e[0] == "contract:regex._publish_match"]'
    cs.append(Contract(
        M + 'search', name='regex.search/selector',
        params=dict(context=TVal, regexp=TVal, string=TStr,
                    selector=TFunc(1)),
        ensures=[
            'implies(regexp.search(string) is None, result is None)',
            # a match: published into a fresh child, the selector sees it
            'implies(regexp.search(string) is not None, len(%s) == 1 and '
            '%s[0][1][0] == %s and %s[0][1][1] == regexp.search(string) and '
            'result == selector(%s))' % (PM, PM, CHILD % '0', PM,
                                          CHILD % '0')],
        serves=('C19', 'C04'), native=False))
    # replaceBy: the substitution is driven by `regexp.sub` with the
    # function's own callback, the subject and the count unchanged; the
    # callback publishes THE match it was given where the replacement lambda
    # can see it (a fresh child per match, or that child's parent) and
    # returns what the lambda computes in the child
    cs.append(Contract(
        M + 'replace_by', name='regex.replace_by',
        params=dict(context=TVal, regexp=TVal, string=TStr, repl=TFunc(1),
                    count=TInt),
        ensures=['len(calls) == 1 and calls[0][0] == "m.sub" and '
                 'calls[0][1][0] == regexp and calls[0][1][2] == string and '
                 'calls[0][1][3] == count and result == calls[0][2]',
                 'calls[0][1][1] is LOCAL_repl_func'],
        serves=('C19', 'C04'), native=False))
    cs.append(Contract(
        M + 'replace_by.<locals>.repl_func', name='regex.replace_by.repl_func',
        params=dict(match=TVal),
        env=dict(context=_tv('context'), repl=_fn('repl')),
        ensures=['len(%s) == 1 and %s[0][1][1] == match' % (PM, PM),
                 '%s[0][1][0] == %s or %s[0][1][0] == context' % (
                     PM, CHILD % '0', PM),
                 'result == repl(%s)' % (CHILD % '0'),
                 'ncalls("m.create_child_context") == 1'],
        serves=('C19', 'C04'), native=False))
    cs.append(Contract(
        M + 'search', name='regex.search/plain',
        params=dict(context=TVal, regexp=TVal, string=TStr, selector=None),
        ensures=['implies(regexp.search(string) is None, result is None)',
                 'implies(regexp.search(string) is not None, result == '
                 'regexp.search(string).group())'],
        serves=('C19',), native=False))
    return cs


# ===================== thin wrappers over the re module ====================

def setup_wrappers(world):
    setup(world)
    import re as _re
    from vlib.pyvc.interp import Model
    for fname in ('UNICODE', 'IGNORECASE', 'MULTILINE', 'DOTALL'):
        world.lib[('re', fname)] = int(getattr(_re, fname))
    for fname in ('compile', 'search', 'escape'):
        world.lib[('re', fname)] = Model(
            're.' + fname, (lambda nm: lambda *a: models.apply_uf(
                're.' + nm, a, 'Val'))(fname))
    world.callee_contract(M + 'replace')
    world.callee_contract(M + 'replace_by')


def wrapper_contracts():
    """regex(): exactly the requested flags (and UNICODE); the operator and
    method forms search with the pattern on the right subject; the string
    spellings (`string.split(regex)`, `string.replace(regex, ...)`) hand
    their arguments on unchanged and in the right order."""
    import re as _re
    cs = []

    def c(fname, **kw):
        kw.setdefault('serves', ('C19',))
        kw.setdefault('native', False)
        x = Contract(M + fname, **kw)
        cs.append(x)
        return x
    c('regex', params=dict(pattern=TStr, ignore_case=TBool, multi_line=TBool,
                           dot_all=TBool),
      ensures=['result == ufn("re.compile", pattern, %d + (%d if ignore_case '
               'else 0) + (%d if multi_line else 0) + (%d if dot_all else 0))'
               % (_re.UNICODE, _re.IGNORECASE, _re.MULTILINE, _re.DOTALL)])
    for fn, neg in (('matches', False), ('matches_operator_regex', False),
                    ('not_matches_operator_regex', True)):
        c(fn, params=dict(regexp=TVal, string=TStr),
          ensures=['result == (regexp.search(string) is %s None)' % (
              '' if neg else 'not')])
    c('matches_', params=dict(string=TStr, regexp=TStr),
      ensures=['result == (ufn("re.search", regexp, string) is not None)'])
    for fn, neg in (('matches_operator_string', False),
                    ('not_matches_operator_string', True)):
        c(fn, params=dict(string=TStr, pattern=TStr),
          ensures=['result == (ufn("re.search", pattern, string) is %s None)'
                   % ('' if neg else 'not')])
    for fn in ('split', 'split_string'):
        c(fn, params=dict(regexp=TVal, string=TStr, max_split=TInt),
          ensures=['result == regexp.split(string, max_split)'])
    c('replace', params=dict(regexp=TVal, string=TStr, repl=TStr, count=TInt),
      ensures=['result == regexp.sub(repl, string, count)'])
    c('replace_string', params=dict(string=TStr, regexp=TVal, repl=TStr,
                                    count=TInt),
      ensures=['len(calls) == 1 and calls[0][0] == "contract:regex.replace" '
               'and calls[0][1][0] == regexp and calls[0][1][1] == string '
               'and calls[0][1][2] == repl and calls[0][1][3] == count and '
               'result == calls[0][2]'])
    c('replace_by_string', params=dict(context=TVal, string=TStr,
                                       regexp=TVal, repl=TFunc(1),
                                       count=TInt),
      ensures=['len(calls) == 1 and calls[0][0] == '
               '"contract:regex.replace_by" and calls[0][1][0] == context '
               'and calls[0][1][1] == regexp and calls[0][1][2] == string '
               'and calls[0][1][4] == count and result == calls[0][2]'])
    c('escape_regex', params=dict(string=TStr),
      ensures=['result == ufn("re.escape", string)'])
    return cs
