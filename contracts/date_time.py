"""Sidecar contracts for yaql/standard_library/date_time.py (C20) over the
assumed datetime model T-dt (vlib/pyvc/dtmodel.py)."""
from vlib.pyvc import dtmodel
from vlib.pyvc.dtmodel import TDt, TTd
from vlib.pyvc.verify import Contract
from vlib.pyvc.sym import TInt, TBool, TStr, TVal, TReal, TOpt

D = 'yaql.standard_library.date_time.'
US = 1000000


def setup(world):
    dtmodel.install(world)


def declared(func, param):
    """Precondition from the DECLARED smart type (runtime fact of the tree
    under test): yaqltypes.DateTime() => the runner hands over an aware
    datetime; a bare datetime type => naive host values arrive as they are."""
    import os
    from vlib import core, sigflow
    ctx = core.Ctx('C20', 'quick', 0)
    ctx.repo = os.environ.get('VERIF_REPO', '/repo')
    for fd in sigflow.facts(ctx)['default']:
        if fd['name'] == '#property#' + func:
            # wrapper(obj) built by @specs.yaql_property(<type>)
            for p in fd['params']:
                if p['name'] == 'obj':
                    return TDt(aware=True) if p['type']['cls'] == \
                        'DateTime' else TDt(aware=None)
        if fd['module'] == 'yaql.standard_library.date_time' and \
                fd['qualname'] == func:
            for p in fd['params']:
                if p['name'] == param:
                    return TDt(aware=True) if p['type']['cls'] == \
                        'DateTime' else TDt(aware=None)
    return TDt(aware=None)


def contracts():
    cs = []
    ENV = dtmodel.spec_functions()

    def c(fname, **kw):
        kw.setdefault('serves', ('C20',))
        kw.setdefault('native', False)
        env = dict(ENV)
        env.update(kw.pop('env', {}))
        x = Contract(D + fname if not fname.startswith('yaql.') else fname,
                     env=env, **kw)
        cs.append(x)
        return x
    AW = TDt(aware=True)        # what a yaqltypes.DateTime() parameter gets
    ANY = TDt(aware=None)       # what a bare datetime-typed parameter gets
    WHOLE = ['us(offset) % 1000000 == 0']      # offsets are whole seconds
    # ---- construction --------------------------------------------------
    for tag, T in (('int', TInt), ('float', TReal)):
        c('datetime_from_timestamp',
          name='date_time.datetime_from_timestamp/' + tag,
          params=dict(timestamp=T, offset=TTd()),
          requires=WHOLE + ['-86400000000 < us(offset)',
                            'us(offset) < 86400000000'],
          ensures=['aware(result)', 'off(result) == us(offset)',
                   # datetime(s, o) is the instant s (to the microsecond)
                   'instant(result) - real_us(timestamp) <= 0.5',
                   'real_us(timestamp) - instant(result) <= 0.5'] + (
              ['instant(result) == timestamp * 1000000']
              if tag == 'int' else []))
    c('build_timespan',
      params=dict(days=TInt, hours=TInt, minutes=TInt, seconds=TInt,
                  milliseconds=TInt, microseconds=TInt),
      ensures=['us(result) == 86400000000 * days + 3600000000 * hours + '
               '60000000 * minutes + 1000000 * seconds + 1000 * '
               'milliseconds + microseconds'])
    # ---- units: one quantity in different units ---------------------------
    c('microseconds', params=dict(timespan=TTd()),
      ensures=['result == us(timespan)'])
    for fn, k in (('milliseconds', '1000.0'), ('seconds', '1000000.0'),
                  ('minutes', '60000000.0'), ('hours', '3600000000.0'),
                  ('days', '86400000000.0')):
        c(fn, params=dict(timespan=TTd()),
          ensures=['result == fl(us(timespan) / %s)' % k])
    # timespan(microseconds => x.microseconds) == x exactly
    c('build_timespan', name='date_time.build_timespan/roundtrip',
      params=dict(microseconds=TInt),
      ensures=['us(result) == microseconds'])
    # ---- arithmetic: shifts the instant, keeps the zone --------------------
    c('datetime_plus_timespan', params=dict(dt=declared('datetime_plus_timespan', 'dt'), ts=TTd()),
      ensures=['instant(result) == instant(dt) + us(ts)',
               'off(result) == off(dt)', 'aware(result)'])
    c('timespan_plus_datetime', params=dict(ts=TTd(), dt=declared('timespan_plus_datetime', 'dt')),
      ensures=['instant(result) == instant(dt) + us(ts)',
               'off(result) == off(dt)', 'aware(result)'])
    c('datetime_minus_timespan', params=dict(dt=declared('datetime_minus_timespan', 'dt'), ts=TTd()),
      ensures=['instant(result) == instant(dt) - us(ts)',
               'off(result) == off(dt)', 'aware(result)'])
    c('datetime_minus_datetime', params=dict(dt1=declared('datetime_minus_datetime', 'dt1'), dt2=declared('datetime_minus_datetime', 'dt2')),
      ensures=['us(result) == instant(dt1) - instant(dt2)'])
    for fn, op in (('gt', '>'), ('gte', '>='), ('lt', '<'), ('lte', '<=')):
        c('datetime_%s_datetime' % fn,
          params=dict(dt1=declared('datetime_%s_datetime' % fn, 'dt1'),
                      dt2=declared('datetime_%s_datetime' % fn, 'dt2')),
          ensures=['result == (instant(dt1) %s instant(dt2))' % op])
        c('timespan_%s_timespan' % fn, params=dict(ts1=TTd(), ts2=TTd()),
          ensures=['result == (us(ts1) %s us(ts2))' % op])
    c('timespan_plus_timespan', params=dict(ts1=TTd(), ts2=TTd()),
      ensures=['us(result) == us(ts1) + us(ts2)'])
    c('timespan_minus_timespan', params=dict(ts1=TTd(), ts2=TTd()),
      ensures=['us(result) == us(ts1) - us(ts2)'])
    c('negative_timespan', params=dict(ts=TTd()),
      ensures=['us(result) == -us(ts)'])
    c('positive_timespan', params=dict(ts=TTd()),
      ensures=['us(result) == us(ts)'])
    c('timespan_by_num', name='date_time.timespan_by_num/int',
      params=dict(ts=TTd(), n=TInt), ensures=['us(result) == us(ts) * n'])
    c('num_by_timespan', name='date_time.num_by_timespan/int',
      params=dict(n=TInt, ts=TTd()), ensures=['us(result) == us(ts) * n'])
    # the ratio of two timespans is the float quotient of their lengths
    c('div_timespans', params=dict(ts1=TTd(), ts2=TTd()),
      raises={'ZeroDivisionError': 'us(ts2) == 0'},
      ensures=['us(ts2) != 0',
               'result == fl(fl(0.0 + us(ts1)) / us(ts2))'])
    # timespan / number: the quotient, rounded to the nearest microsecond
    c('div_timespan_by_num', name='date_time.div_timespan_by_num/int',
      params=dict(ts=TTd(), n=TInt),
      raises={'ZeroDivisionError': 'n == 0'},
      ensures=['n != 0',
               'us(result) - real_us(0) - us(ts) / n <= 0.5 and '
               'us(ts) / n - us(result) <= 0.5'])
    # construction from civil fields: the offset is the zone's, the value is
    # aware, whatever the offset (zero included)
    c('_get_tz', name='date_time._get_tz/none', params=dict(offset=None),
      ensures=['result is None'])
    c('_get_tz', name='date_time._get_tz/offset', params=dict(offset=TTd()),
      requires=WHOLE, ensures=['us(result) == us(offset)'])
    c('replace', name='date_time.replace/offset',
      params=dict(dt=AW, year=None, month=None, day=None, hour=None,
                  minute=None, second=None, microsecond=None, offset=TTd()),
      requires=WHOLE,
      # the wall-clock reading stays, the zone changes
      ensures=['local(result) == local(dt)', 'off(result) == us(offset)',
               'aware(result)'])
    c('replace', name='date_time.replace/nothing',
      params=dict(dt=AW, year=None, month=None, day=None, hour=None,
                  minute=None, second=None, microsecond=None, offset=None),
      ensures=['local(result) == local(dt)', 'off(result) == off(dt)',
               'aware(result)'])
    c('is_datetime', name='date_time.is_datetime/datetime',
      params=dict(value=ANY), ensures=['result is True'])
    c('is_datetime', name='date_time.is_datetime/timespan',
      params=dict(value=TTd()), ensures=['result is False'])
    c('is_timespan', name='date_time.is_timespan/timespan',
      params=dict(value=TTd()), ensures=['result is True'])
    c('is_timespan', name='date_time.is_timespan/datetime',
      params=dict(value=ANY), ensures=['result is False'])
    c('utctz', params={}, ensures=['us(result) == 0'])
    # ---- zone views -----------------------------------------------------
    # d.utc is the same instant expressed at offset zero
    c('utc', params=dict(dt=declared('utc', 'dt')),
      ensures=['instant(result) == instant(dt)', 'off(result) == 0',
               'aware(result)'])
    c('offset', params=dict(dt=declared('offset', 'dt')),
      ensures=['us(result) == (off(dt) if aware(dt) else 0)'])
    # a host datetime without zone is taken as UTC: naive or aware, the
    # timestamp is the instant in seconds
    c('timestamp', params=dict(dt=declared('timestamp', 'dt')),
      ensures=['result == fl((instant(dt) if aware(dt) else local(dt)) / '
               '1000000.0)'])
    c('yaql.language.yaqltypes.DateTime.convert',
      name='yaqltypes.DateTime.convert',
      params=dict(self=_dtype(), value=ANY),
      ensures=['aware(result)',
               'instant(result) == (instant(value) if aware(value) else '
               'local(value))',
               'off(result) == (off(value) if aware(value) else 0)'],
      serves=('C20',))
    # equality compares instants (aware values, whatever their offsets)
    c('yaql.standard_library.common.eq', name='common.eq/aware',
      params=dict(left=AW, right=AW),
      ensures=['result == (instant(left) == instant(right))'])
    c('yaql.standard_library.common.neq', name='common.neq/aware',
      params=dict(left=AW, right=AW),
      ensures=['result == (instant(left) != instant(right))'])
    # known finding: `=` is plain Python equality, so a naive host datetime
    # never equals the aware datetime denoting the same instant
    c('yaql.standard_library.common.eq', name='common.eq/naive-vs-aware',
      params=dict(left=TDt(aware=False), right=AW),
      requires=['local(left) == instant(right)'],
      ensures=['result is True'], serves=('C20-probe',))
    return cs


class _dtype:
    is_factory = True

    def __call__(self, name, path):
        from contracts.yaqltypes import typeobj
        return typeobj('DateTime')(name, path)
