"""Modifies clauses (frame contracts) for the repository's functions.

Default clause: EMPTY - a function may write only objects it allocated itself
(FRESH) and, in __init__, its own new object.  Every entry below widens the
clause for one function and says why.  Patterns: 'SELF', 'PARAM(x)',
'GLOBAL(x)', 'NONLOCAL(x)', 'UNKNOWN'.
"""

MODULES = (
    ['yaql', 'yaql.yaqlization', 'yaql.yaql_interface', 'yaql.legacy'] +
    ['yaql.language.' + m for m in
     'contexts conventions exceptions expressions factory lexer parser '
     'runner specs utils yaqltypes'.split()] +
    ['yaql.standard_library.' + m for m in
     'boolean branching collections common date_time legacy math queries '
     'regex strings system yaqlized'.split()])

L = 'yaql.language.'
SL = 'yaql.standard_library.'

MODIFIES = {
    # ---- host-facing API: writing is the documented purpose --------------
    'yaql._setup_context': ['PARAM(context)'],      # registers #iter/#finalize, binds $
    'yaql.create_context': ['PARAM(context)'],
    # benign caches (C18-4): the three module globals are only rebound /
    # filled; nothing reachable from them is written (in particular the
    # shared default context is never handed to evaluate())
    L + 'contexts.Context.__delitem__': ['SELF'],
    L + 'contexts.Context.__setitem__': ['SELF'],
    L + 'contexts.Context.delete_function': ['SELF'],
    L + 'contexts.Context.register_function': ['SELF', 'PARAM(spec)'],
    L + 'contexts.LinkedContext.__delitem__': ['SELF'],
    L + 'contexts.LinkedContext.__setitem__': ['SELF'],
    L + 'contexts.LinkedContext.delete_function': ['SELF'],
    L + 'contexts.LinkedContext.register_function': ['SELF'],
    L + 'contexts.MultiContext.__delitem__': ['SELF'],
    L + 'contexts.MultiContext.__setitem__': ['SELF'],
    L + 'contexts.MultiContext.delete_function': ['SELF'],
    L + 'contexts.MultiContext.register_function': ['SELF'],
    'yaql.yaql_interface.YaqlInterface.__setitem__': ['SELF'],
    # the documented exception of C09: evaluate binds `$` in the context it
    # was given
    L + 'expressions.Statement.evaluate': ['PARAM(context)'],
    # ---- engine construction (not on the parse / evaluation path) ---------
    L + 'factory.YaqlFactory._create_lexer': ['UNKNOWN'],
    L + 'factory.YaqlFactory.create': ['UNKNOWN'],
    L + 'factory.YaqlFactory.insert_operator': ['SELF'],
    L + 'lexer.Lexer.__init__': ['UNKNOWN'],       # setattr(self, 't_' + name)
    L + 'parser.Parser._generate_operator_funcs': ['SELF'],   # called from __init__
    'yaql.legacy.YaqlFactory.create': ['PARAM(options)'],
    # ---- ply callbacks: write the fresh token / production slot ------------
    L + 'lexer.Lexer.t_DOUBLE_QUOTED_STRING': ['PARAM(t)'],
    L + 'lexer.Lexer.t_FUNC': ['PARAM(t)'],
    L + 'lexer.Lexer.t_KEYWORD_STRING': ['PARAM(t)'],
    L + 'lexer.Lexer.t_NUMBER': ['PARAM(t)'],
    L + 'lexer.Lexer.t_QUOTED_STRING': ['PARAM(t)'],
    L + 'lexer.Lexer.t_QUOTED_VERBATIM_STRING': ['PARAM(t)'],
    # ---- resolution ---------------------------------------------------------
    # kwargs is the per-call ** dict of ContextBase.__call__'s lambda (or the
    # fresh dict returned by translate_args)
    L + 'runner.call': ['PARAM(kwargs)'],
    L + 'runner.choose_overload': ['PARAM(kwargs)'],
    # ---- function registration machinery (decorators, import time) ----------
    L + 'specs.FunctionDefinition.insert_parameter': ['SELF'],
    L + 'specs.FunctionDefinition.set_parameter': ['SELF'],
    L + 'specs._get_function_definition': ['PARAM(func)'],
    L + 'specs._parameter.<locals>.wrapper': ['PARAM(func)'],
    L + 'specs.get_function_definition': ['PARAM(func)'],
    L + 'specs.yaql_property.<locals>.decorator': ['PARAM(func)'],
    L + 'specs.name.<locals>.wrapper': ['PARAM(func)'],
    L + 'specs.meta.<locals>.wrapper': ['PARAM(func)'],
    L + 'specs.method': ['PARAM(func)'],
    L + 'specs.extension_method': ['PARAM(func)'],
    L + 'specs.no_kwargs': ['PARAM(func)'],
    # ---- stateful lazy objects: fresh in the evaluation that made them ------
    L + 'utils.FrozenDict.__hash__': ['SELF'],     # + single-publication rule
    L + 'utils.memorize.<locals>.RememberingIterator.__next__':
        ['SELF', 'NONLOCAL(yielded)'],
    SL + 'queries.GroupAggregator.__call__': ['SELF'],
    SL + 'queries.OrderingIterable.append_field': ['SELF'],
    SL + 'queries.OrderingIterable.do_sort': ['PARAM(outer_self)'],
    SL + 'queries.then_by': ['PARAM(collection)'],          # OrderingIterable only
    SL + 'queries.then_by_descending': ['PARAM(collection)'],
    # ---- writes into the context the runner injected / the caller passed ----
    L + 'yaqltypes.Lambda._call': ['PARAM(context)'],
    L + 'yaqltypes.Lambda._publish_params': ['PARAM(context)'],
    L + 'yaqltypes.Lambda.convert.<locals>.func': ['PARAM(args)'],
    SL + 'legacy.as_': ['PARAM(context)'],
    SL + 'regex._publish_match': ['PARAM(context)'],
    SL + 'regex.replace_by.<locals>.repl_func': ['NONLOCAL(context)'],
    SL + 'system.def_': ['PARAM(context)'],
    SL + 'system.let': ['PARAM(__context__)'],
    SL + 'system.unpack': ['PARAM(context)'],
    SL + 'system.with_': ['PARAM(context)'],
    SL + 'system.register_fallbacks': ['PARAM(context)'],
    # ---- yaqlization: marks host objects/classes on the host's request ------
    SL + 'yaqlized._auto_yaqlize': ['UNKNOWN'],
    SL + 'yaqlized.attribution': ['UNKNOWN'],
    SL + 'yaqlized.indexation': ['UNKNOWN'],
    SL + 'yaqlized.op_dot': ['UNKNOWN'],
    'yaql.yaqlization.yaqlize': ['UNKNOWN'],
    'yaql.yaqlization.yaqlize.<locals>.func': ['UNKNOWN'],
}
# clauses attached to a MODULE: every function of the module (also one
# added later, e.g. a helper extracted from eval()) may do exactly this to
# exactly these globals - the clause follows the state, not the function
MODULE_MODIFIES = {
    # benign caches (C18-4): the three module globals of yaql/__init__.py
    # are only rebound / filled; nothing reachable from them is written (in
    # particular the shared default context is never handed to evaluate())
    'yaql': ['GLOBAL(_cached_engine):rebind',
             'GLOBAL(_cached_expressions):store []',
             'GLOBAL(_default_context):rebind'],
}
# ply production callbacks p_*: write p[0] only
P_RULES = ['PARAM(p)']
# `register(context, ...)` functions of every stdlib module
REGISTER = ['PARAM(context)']

# module-level / class-level mutable objects that exist today, with the
# reason each is not shared evaluation state.  Anything else is reported.
MUTABLE_GLOBALS = {
    'yaql._cached_expressions': 'parse cache of yaql.eval (C18 benign-cache)',
    L + 'lexer.Lexer.keywords': 'constant table, never written',
    L + 'lexer.Lexer.keyword_to_val': 'constant table, never written',
    SL + 'date_time.UTCTZ': 'immutable tz object',
    SL + 'date_time.ZERO_TIMESPAN': 'immutable timedelta',
    SL + 'date_time.DATETIME_TYPE': 'type',
    SL + 'date_time.TIMESPAN_TYPE': 'type',
    SL + 'date_time.EPOCH': 'immutable datetime',
}


def modifies(key, qualname):
    mod = key[:-len(qualname) - 1] if key.endswith('.' + qualname) else ''
    extra = MODULE_MODIFIES.get(mod, [])
    if extra:
        # composed effects of same-module helpers on the same globals
        extra = extra + [e.split(':')[0] + ':via' for e in extra]
        return list(MODIFIES.get(key, [])) + extra
    if key in MODIFIES:
        return MODIFIES[key]
    last = qualname.split('.')[-1]
    if last.startswith('p_') and 'parser' in key:
        return P_RULES
    if last == 'register' and qualname == 'register':
        return REGISTER
    return []


# which functions a property's frame obligations range over
SCOPES = {
    'C01': lambda fi: fi.module in (L + 'lexer', L + 'parser') or (
        fi.module == L + 'factory' and fi.cls == 'YaqlEngine') or (
        fi.module == L + 'expressions' and fi.qualname.endswith('__init__'))
        or fi.key == 'yaql.eval',
    'C09': lambda fi: fi.module.startswith(SL) or fi.module in (
        L + 'runner', L + 'specs', L + 'yaqltypes', L + 'utils',
        L + 'expressions', L + 'contexts', 'yaql', 'yaql.yaql_interface'),
    'C18': lambda fi: fi.module.startswith(SL) or fi.module in (
        L + 'runner', L + 'specs', L + 'yaqltypes', L + 'utils',
        L + 'expressions', L + 'contexts', 'yaql', 'yaql.yaql_interface',
        L + 'conventions'),
    'C17': lambda fi: fi.module == L + 'contexts',
    'C04': lambda fi: fi.module in (L + 'contexts', SL + 'system') or (
        fi.module in (L + 'specs', L + 'yaqltypes', L + 'expressions')),
    'C20': lambda fi: fi.module == SL + 'date_time' or (
        fi.module == L + 'yaqltypes' and fi.cls == 'DateTime'),
    'C15': lambda fi: fi.module in (SL + 'math', SL + 'common',
                                    SL + 'boolean') or (
        fi.module == L + 'yaqltypes'),
    'C02': lambda fi: fi.module in (L + 'factory', L + 'parser', L + 'lexer',
                                    'yaql.legacy'),
    'C05': lambda fi: fi.module in (L + 'runner', L + 'specs',
                                    L + 'yaqltypes', L + 'contexts'),
    # choose_overload hands the SAME args / kwargs / mappings to every
    # candidate: its order-free postcondition relies on map_args,
    # get_delegate and the smart types' check/convert writing none of them
    'C06': lambda fi: fi.module in (L + 'runner', L + 'specs',
                                    L + 'yaqltypes'),
    # finalisation must not depend on state remembered between calls
    'C10': lambda fi: fi.module in ('yaql', 'yaql.yaql_interface',
                                    L + 'expressions') or (
        fi.module == L + 'utils' and fi.qualname.startswith('convert_')),
    'C07': lambda fi: fi.module in (SL + 'yaqlized', 'yaql.yaqlization'),
    # (the selectors / predicates the library functions call are Lambda
    # closures: each activation publishes its arguments into a scope of its
    # own - a lazy inner result keeps the scope it was made in)
    'C13': lambda fi: fi.module in (SL + 'collections', SL + 'queries') or (
        fi.module == L + 'yaqltypes' and 'Lambda.' in fi.qualname),
    'C19': lambda fi: fi.module in (SL + 'strings', SL + 'regex'),
    # what a word / literal denotes depends on THIS engine's tables only:
    # the lexer keeps no state shared between engines or between parses
    'C16': lambda fi: fi.module == L + 'lexer',
}
