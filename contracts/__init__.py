"""Sidecar contracts: one module per repository module. Never imported by yaql."""
