"""Contracts with ghost call logs for the lazily evaluating operators of
boolean.py and branching.py (C11)."""
from vlib.pyvc.verify import Contract
from vlib.pyvc.sym import TInt, TBool, TStr, TVal, TSeq, TFunc
from contracts._util import obj, tuple_of

B = 'yaql.standard_library.boolean.'
R = 'yaql.standard_library.branching.'


class thunks:
    is_factory = True

    def __init__(self, n):
        self.n = n

    def __call__(self, name, path):
        return tuple(TFunc(0).fresh('%s%d' % (name, i))
                     for i in range(self.n))


class rules:
    """Tuple of utils.MappingRule objects with thunk source/destination."""
    is_factory = True

    def __init__(self, n):
        self.n = n

    def __call__(self, name, path):
        f = obj('yaql.language.utils.MappingRule',
                source=TFunc(0), destination=TFunc(0))
        return tuple(f('%s%d' % (name, i), path) for i in range(self.n))


def setup(world):
    pass


def contracts():
    cs = []

    def c(target, **kw):
        kw.setdefault('serves', ('C11',))
        kw.setdefault('native', False)
        x = Contract(target, **kw)
        cs.append(x)
        return x
    for nm, sel in (('and_', 'not truthy(calls[0][2])'),
                    ('or_', 'truthy(calls[0][2])')):
        c(B + nm, params=dict(left=TFunc(0), right=TFunc(0)),
          ensures=['calls[0][0] == left.name',
                   # the right operand is evaluated iff the left one does
                   # not decide the result
                   'implies(%s, len(calls) == 1 and result == calls[0][2])'
                   % sel,
                   'implies(not (%s), len(calls) == 2 and calls[1][0] == '
                   'right.name and result == calls[1][2])' % sel],
          serves=('C11', 'C15'))
    c(B + 'not_', params=dict(arg=TVal),
      ensures=['result == (not truthy(arg))'], serves=('C11', 'C15'))
    c(B + 'bool_', params=dict(value=TVal),
      ensures=['result == truthy(value)'], serves=('C15',))
    for n in (0, 1, 2, 3):
        # switch: sources in order up to the first truthy one, then exactly
        # its destination; nothing after
        ens = []
        none = ' and '.join('not truthy(args[%d].source.r)' % i
                            for i in range(n)) or 'True'
        for k in range(n):
            before = ' and '.join(['not truthy(calls[%d][2])' % i
                                   for i in range(k)] +
                                  ['truthy(calls[%d][2])' % k])
            names = ' and '.join(
                ['calls[%d][0] == args[%d].source.name' % (i, i)
                 for i in range(k + 1)] +
                ['calls[%d][0] == args[%d].destination.name' % (k + 1, k)])
            ens.append('implies(len(calls) > %d and %s, len(calls) == %d '
                       'and %s and result == calls[%d][2])' % (
                           k, before, k + 2, names, k + 1))
        allfalse = ' and '.join('not truthy(calls[%d][2])' % i
                                for i in range(n)) or 'True'
        ens.append('implies(len(calls) == %d and %s, result is None and %s)'
                   % (n, allfalse, ' and '.join(
                       'calls[%d][0] == args[%d].source.name' % (i, i)
                       for i in range(n)) or 'True'))
        ens.append('len(calls) <= %d' % (n + 1))
        c(R + 'switch', name='branching.switch/%d' % n,
          params=dict(args=rules(n)), ensures=ens)
        # selectCase: predicates up to and including the first truthy one
        ens = []
        for k in range(n):
            before = ' and '.join(['not truthy(calls[%d][2])' % i
                                   for i in range(k)] +
                                  ['truthy(calls[%d][2])' % k])
            ens.append('implies(len(calls) > %d and %s, len(calls) == %d and '
                       'result == %d)' % (k, before, k + 1, k))
        ens.append('implies(len(calls) == %d and %s, result == %d)' % (
            n, allfalse, n))
        ens.append('len(calls) <= %d' % n)
        ens += ['implies(len(calls) > %d, calls[%d][0] == args[%d].name)' % (
            i, i, i) for i in range(n)]
        c(R + 'select_case', name='branching.select_case/%d' % n,
          params=dict(args=thunks(n)), ensures=ens)
        # coalesce: thunks up to the first non-null result
        ens = []
        for k in range(n):
            before = ' and '.join(['calls[%d][2] is None' % i
                                   for i in range(k)] +
                                  ['calls[%d][2] is not None' % k])
            ens.append('implies(len(calls) > %d and %s, len(calls) == %d and '
                       'result == calls[%d][2])' % (k, before, k + 1, k))
        ens.append('implies(len(calls) == %d and %s, result is None)' % (
            n, ' and '.join('calls[%d][2] is None' % i
                            for i in range(n)) or 'True'))
        ens.append('len(calls) <= %d' % n)
        ens += ['implies(len(calls) > %d, calls[%d][0] == args[%d].name)' % (
            i, i, i) for i in range(n)]
        c(R + 'coalesce', name='branching.coalesce/%d' % n,
          params=dict(args=thunks(n)), ensures=ens)
        # switchCase: exactly one thunk - the selected one, else the last
        if n:
            ens = ['len(calls) == 1']
            for k in range(n):
                ens.append('implies(case == %d, calls[0][0] == args[%d].name)'
                           % (k, k))
            ens.append('implies(case < 0 or case >= %d, calls[0][0] == '
                       'args[%d].name)' % (n, n - 1))
            ens.append('result == calls[0][2]')
        else:
            ens = ['len(calls) == 0 and result is None']
        c(R + 'switch_case', name='branching.switch_case/%d' % n,
          params=dict(case=TInt, args=thunks(n)), ensures=ens)
        # examine / selectAllCases: "the actual evaluation is done lazily
        # as the iterator advances, not during the function call". As a
        # generator: when the k-th element is emitted exactly the first
        # (index of that element)+1 predicates have been evaluated. Written
        # as a plain function: nothing may have been evaluated at return.
        c(R + 'examine', name='branching.examine/%d' % n,
          params=dict(args=thunks(n)),
          ensures=['len(calls) == 0'],
          gen_form=dict(track_calls=True, ensures=[
              'len(out) == %d and len(calls) == %d' % (n, n),
              'forall(range(0, len(out)), lambda k: ycalls[k] == k + 1)'] + [
              'calls[%d][0] == args[%d].name and '
              'out[%d] == truthy(calls[%d][2])' % (i, i, i, i)
              for i in range(n)]))
        c(R + 'select_all_cases', name='branching.select_all_cases/%d' % n,
          params=dict(args=thunks(n)), yields=TInt,
          ensures=['len(calls) == 0'],
          gen_form=dict(track_calls=True, ensures=[
              'len(calls) == %d' % n,
              'forall(range(0, len(out)), lambda k: 0 <= out[k] and '
              'out[k] < %d and ycalls[k] == out[k] + 1)' % n,
              'forall(range(1, len(out)), lambda k: out[k - 1] < out[k])'] + [
              'calls[%d][0] == args[%d].name and '
              'truthy(calls[%d][2]) == (%d in out)' % (i, i, i, i)
              for i in range(n)]))
    return cs
