"""Sidecar contracts for yaql/language/yaqltypes.py: what check() accepts
(C15, C05), what convert() guarantees (C08, C20)."""
from vlib.pyvc.verify import Contract
from vlib.pyvc.sym import (TInt, TBool, TStr, TVal, TSeq, TOpt, TFunc, TIter,
                           Opaque)
from contracts._util import obj, tuple_of
from contracts.utils import engine_with

Y = 'yaql.language.yaqltypes.'
NV = Opaque('NO_VALUE')


class typeobj:
    """Parameter factory: a smart-type object built by running the REAL
    constructor (symbolically) - e.g. typeobj('Integer', nullable=False)."""
    is_factory = True

    def __init__(self, cls, *args, **kwargs):
        self.cls, self.args, self.kwargs = cls, args, kwargs

    def __call__(self, name, path):
        from vlib.pyvc.interp import Interp
        world = obj.world
        mod = world.module('yaql.language.yaqltypes')
        cref = world.class_ref(mod, mod.top[self.cls][-1])
        it = Interp(world, path)
        return world.construct(cref, list(self.args), dict(self.kwargs), it,
                               None)


def setup(world):
    world.opaque_globals[('yaql.language.utils', 'NO_VALUE')] = NV
    world.callee_contract('yaql.language.utils.limit_memory_usage')
    world.callee_contract('yaql.language.utils.limit_iterable',
                          ensures=['result is not None'])
    world.lib[('dateutil', 'tz')] = __import__(
        'vlib.pyvc.interp', fromlist=['x']).ModuleRef('dateutil.tz')


PLAIN = ['not isinstance(value, "Constant")',
         'not isinstance(value, "Expression")']
TAG = 'ufn("tag", value, ret="Int")'


def contracts():
    cs = []

    def c(target, **kw):
        kw.setdefault('native', False)
        x = Contract(target, **kw)
        cs.append(x)
        return x
    eng = engine_with()
    # ---- scalar smart types: acceptance is a function of the value's kind
    # (tag: 0 None, 1 bool, 2 int, 3 float, 4 str, 5 other) ----------------
    kinds = {
        'Integer': '(%s == 2)' % TAG,
        'Number': '(%s == 2 or %s == 3)' % (TAG, TAG),
        'String': '(%s == 4)' % TAG,
    }
    for cls, accept in kinds.items():
        for nullable in (False, True):
            c(Y + 'GenericType.check',
              name='yaqltypes.%s(nullable=%s).check' % (cls, nullable),
              params=dict(self=typeobj(cls, nullable=nullable), value=TVal,
                          context=TVal, engine=TVal),
              requires=PLAIN,
              ensures=[
                  # a boolean is never a number; null only if nullable
                  'implies(value is None, result == %s)' % nullable,
                  'implies(value is not None, result == %s)' % accept,
                  'implies(%s == 1, result is False)' % TAG,
                  # acceptance depends on the KIND of the value alone, never
                  # on its magnitude (huge, infinite, NaN: still numbers)
                  'len([e for e in calls if e[0].startswith("math.")]) '
                  '== 0'],
              serves=('C15', 'C05'))
    # ---- convert: quota check on the VALUE that is handed on ------------
    c(Y + 'SmartType.convert',
      params=dict(self=obj('yaql.language.yaqltypes.SmartType',
                           nullable=TBool), value=TVal, receiver=TVal,
                  context=TVal, function_spec=TVal, engine=TVal),
      raises={'ArgumentValueException':
              'value is None and not self.nullable'},
      ensures=['not (value is None and not self.nullable)',
               'len(calls) == 1 and calls[0][0] == '
               '"contract:utils.limit_memory_usage" and calls[0][1][0] == '
               'engine and calls[0][1][1] == ((1, value),)',
               'result == value'],
      serves=('C08',))
    const = obj('yaql.language.expressions.Constant', value=TVal,
                uses_receiver=False)
    gt = obj('yaql.language.yaqltypes.GenericType', nullable=True,
             checker=None, converter=None)
    c(Y + 'GenericType.convert', name='yaqltypes.GenericType.convert/literal',
      params=dict(self=gt, value=const, receiver=TVal, context=TVal,
                  function_spec=TVal, engine=TVal),
      requires=['not isinstance(value.value, "Constant")',
                'not isinstance(value.value, "Expression")'],
      ensures=[
          # a literal argument is unwrapped BEFORE the quota check: the
          # string itself is measured, not its Constant node
          'len(calls) == 1 and calls[0][0] == '
          '"contract:utils.limit_memory_usage" and calls[0][1][1] == '
          '((1, old_value.value),)',
          'result == old_value.value'],
      serves=('C08',))
    c(Y + 'GenericType.convert', name='yaqltypes.GenericType.convert/value',
      params=dict(self=gt, value=TVal, receiver=TVal, context=TVal,
                  function_spec=TVal, engine=TVal),
      requires=PLAIN,
      ensures=['len(calls) == 1 and calls[0][1][1] == ((1, value),)',
               'result == value'],
      serves=('C08',))
    # ---- scalar smart types hand the payload THE value they were given:
    # a string argument reaches the function code point for code point (no
    # case / normal-form / whitespace canonicalisation on the way in) ----
    YT = "__import__('yaql.language.yaqltypes', fromlist=['x'])."
    ENG = "__import__('yaql').YaqlFactory().create()"
    for cls, vt in (('String', TStr), ('Integer', TInt), ('Number', TInt)):
        k = c(Y + ('String' if cls == 'String' else 'GenericType') +
              '.convert', name='yaqltypes.%s.convert/identity' % cls,
              params=dict(self=typeobj(cls), value=vt, receiver=None,
                          context=None, function_spec=None, engine=eng),
              ensures=['result == value'],
              serves=('C15', 'C19'))
        k.native = {
            'self': dict(kind='expr', code=YT + cls + '()'),
            'engine': dict(kind='expr', code=ENG)}
        k.native_scope = 2
    # ---- the specialization relation between declared types (C05 / C06):
    # a strict subclass relation between single classes; never reflexive;
    # anything that is not a PythonType, or a tuple of classes, is unrelated
    # (nullability plays no part in the specialization order)
    pt = obj('yaql.language.yaqltypes.PythonType', nullable=TBool,
             checker=None, converter=None, python_type=TVal, validators=())
    SUB = 'ufn("py.issubclass", %s, %s, ret="Bool")'
    c(Y + 'PythonType.is_specialization_of',
      name='yaqltypes.PythonType.is_specialization_of/classes',
      params=dict(self=pt, other=pt),
      requires=['isinstance(self.python_type, "type")',
                'isinstance(other.python_type, "type")'],
      ensures=['result == (%s and not %s)' % (
          SUB % ('self.python_type', 'other.python_type'),
          SUB % ('other.python_type', 'self.python_type'))],
      serves=('C05', 'C06'))
    # a declared type may also be a TUPLE of classes (Number is
    # (int, float)): such a type is related to nothing - and comparing it
    # with a single class must not blow up resolution with a TypeError
    for tag, a, b in (('tuple-vs-class', 'tuple', 'type'),
                      ('class-vs-tuple', 'type', 'tuple'),
                      ('tuple-vs-tuple', 'tuple', 'tuple')):
        c(Y + 'PythonType.is_specialization_of',
          name='yaqltypes.PythonType.is_specialization_of/' + tag,
          params=dict(self=pt, other=pt),
          requires=['isinstance(self.python_type, "%s")' % a,
                    'isinstance(other.python_type, "%s")' % b,
                    'not (isinstance(self.python_type, "type") and '
                    'isinstance(self.python_type, "tuple"))',
                    'not (isinstance(other.python_type, "type") and '
                    'isinstance(other.python_type, "tuple"))'],
          ensures=['result is False'], serves=('C05', 'C06'))
    c(Y + 'PythonType.is_specialization_of',
      name='yaqltypes.PythonType.is_specialization_of/foreign',
      params=dict(self=pt, other=TVal),
      requires=['not isinstance(other, "PythonType")'],
      ensures=['result is False'], serves=('C05', 'C06'))
    c(Y + 'SmartType.is_specialization_of',
      params=dict(self=obj('yaql.language.yaqltypes.SmartType',
                           nullable=TBool), other=TVal),
      ensures=['result is False'], serves=('C05', 'C06'))
    # ---- Iterable.convert: the payload only ever sees a LIMITED iterable --
    c(Y + 'Iterable.convert',
      params=dict(self=typeobj('Iterable'), value=TVal, receiver=TVal,
                  context=TVal, function_spec=TVal, engine=eng),
      requires=PLAIN + ['value is not None',
                        'isinstance(value, "Iterable")',
                        'not isinstance(value, "str")',
                        'not isinstance(value, "Mapping")'],
      ensures=[
          'len(calls) == 2',
          'implies(len(calls) == 2, calls[0][0] == '
          '"contract:utils.limit_memory_usage" and calls[1][0] == '
          '"contract:utils.limit_iterable" and calls[1][1][0] == value and '
          'calls[1][1][1] == val(engine) and result == calls[1][2])'],
      serves=('C08', 'C14'))
    return cs
