"""Sidecar contracts for yaql/language/contexts.py (C17, C04, C05).

Abstract view (uninterpreted, constrained only by the axioms below): a
context object c has  own(c, n)  - the value its own layer binds to the
normalised name n, or NO_VALUE -,  parent(c)  - its parent or None -, and
lookup(c, n, d) - the layer-by-layer resolution the property prescribes:

    lookup(None, n, d) = d
    lookup(c, n, d)    = own(c, n)                 if own(c, n) is not NO_VALUE
                       = lookup(parent(c), n, d)   otherwise

Every concrete method is proved against this view; callers see other context
objects only through it (behavioural subtyping of ContextBase)."""
import z3
from vlib.pyvc import sym as S
from vlib.pyvc import models
from vlib.pyvc.verify import Contract
from vlib.pyvc.sym import (TInt, TBool, TStr, TVal, TSeq, TOpt, SVal, SBool,
                           SStr, Opaque)
from contracts._util import obj, mapcell

M = 'yaql.language.contexts.'
NV = Opaque('NO_VALUE')


def own(c, n):
    return models.uf('ctx.own', S.Val, z3.StringSort(), S.Val)(c, n)


def parent(c):
    return models.uf('ctx.parent', S.Val, S.Val)(c)


def lookup(c, n, d):
    return models.uf('ctx.lookup', S.Val, z3.StringSort(), S.Val, S.Val)(
        c, n, d)


def is_ctx(c):
    return models.uf('ctx.is', S.Val, z3.BoolSort())(c)


def axioms():
    c, d = z3.Consts('ax_c ax_d', S.Val)
    n = z3.String('ax_n')
    nv = S.named_const('NO_VALUE')
    return [
        z3.ForAll([n, d], lookup(S.NONE_VAL, n, d) == d),
        z3.ForAll([c, n, d], z3.Implies(
            c != S.NONE_VAL,
            lookup(c, n, d) == z3.If(own(c, n) != nv, own(c, n),
                                     lookup(parent(c), n, d))),
            patterns=[lookup(c, n, d)]),
        # context objects are truthy; parents of contexts are contexts or None
        z3.ForAll([c], z3.Implies(is_ctx(c), z3.And(
            S.truthy_fn(c), c != S.NONE_VAL,
            z3.Or(parent(c) == S.NONE_VAL, is_ctx(parent(c))))),
            patterns=[is_ctx(c)]),
        z3.Not(is_ctx(S.NONE_VAL)),
    ]


def setup(world):
    from vlib.pyvc import setmap
    setmap.install(world)
    world.extra_axioms = lambda c: axioms()
    world.symbolic_sets = True
    world.opaque_globals[('yaql.language.utils', 'NO_VALUE')] = NV

    def get_data(recv, args, kw, it):
        name = args[0] if args else kw['name']
        default = args[1] if len(args) > 1 else kw.get('default', None)
        ask = args[2] if len(args) > 2 else kw.get('ask_parent', True)
        world.trusted_used.add('ContextBase.get_data of other contexts: '
                               'abstract view own/lookup')
        nt = TStr.unwrap(name)
        o = own(recv.t, nt)
        nv = S.named_const('NO_VALUE')
        dflt = S.box(default)
        if ask is False:
            return SVal(z3.If(o != nv, o, dflt))
        if ask is True:
            return SVal(lookup(recv.t, nt, dflt))
        raise S.Unsupported('symbolic ask_parent on opaque context')
    world.opaque_sigs['get_data'] = get_data
    world.opaque_attrs['parent'] = lambda recv, it: SVal(parent(recv.t))

    def get_functions(recv, args, kw, it):
        name = args[0]
        pred = args[1] if len(args) > 1 else kw.get('predicate')
        uc = args[2] if len(args) > 2 else kw.get('use_convention', False)
        pk = S.box_any(pred)
        layer = models.uf('ctx.layer', S.Val, z3.StringSort(), S.Val,
                          z3.BoolSort(), S.Val)(
            recv.t, TStr.unwrap(name), pk, TBool.unwrap(uc))
        ex = models.uf('ctx.excl', S.Val, z3.StringSort(), z3.BoolSort(),
                       z3.BoolSort())(recv.t, TStr.unwrap(name),
                                      TBool.unwrap(uc))
        return (SVal(layer), SBool(ex))
    world.opaque_sigs['get_functions'] = get_functions
    for nm in ('convert_function_name',):
        world.opaque_sig(nm, 'Str')
    for nm in ('keys', 'delete_function', 'register_function'):
        world.opaque_sig(nm, 'Val', log=True)

    # `del ctx[name]` / `name in ctx` / `ctx[name] = v` on another context:
    # behaviour prescribed by the Context contracts above (KeyError iff its
    # own layer does not define the name)
    def delitem(obj, idx, it, node):
        if isinstance(obj, SVal):
            nt = TStr.unwrap(idx)
            missing = own(obj.t, nt) == S.named_const('NO_VALUE')
            it.calls.append(('delitem', (obj, idx), None))
            if it.branch(missing):
                it.raise_('KeyError', idx, node=node)
            return True
        return NotImplemented
    world.delitem_hooks = list(getattr(world, 'delitem_hooks', [])) + [
        delitem]

    def contains(op, a, b, it):
        if op == 'in' and isinstance(a, SVal) and isinstance(
                b, (SStr, str)):
            return SBool(own(a.t, TStr.unwrap(b)) !=
                         S.named_const('NO_VALUE'))
        return NotImplemented
    world.binop_models.append(contains)


NORM = '("$1" if (name if name.startswith("$") else "$" + name) == "$" ' \
       'else (name if name.startswith("$") else "$" + name))'
LOOKUP = 'ufn("ctx.lookup", %s, %s, %s)'


class _kwargs:
    """A **kwargs dict with the given (symbolic) entries."""
    is_factory = True

    def __init__(self, d):
        self.d = d

    def __call__(self, name, path):
        return {k: t.fresh('kw_' + k) for k, t in self.d.items()}


def contracts():
    cs = []

    def c(fname, **kw):
        kw.setdefault('serves', ('C17', 'C04'))
        kw.setdefault('native', False)
        x = Contract(M + fname, **kw)
        cs.append(x)
        return x

    c('Context._normalize_name', params=dict(name=TStr),
      ensures=['result == ' + NORM,
               # `$`, `$1`, `1`, `` are one variable; idempotent
               'implies(name == "" or name == "$" or name == "1" or '
               'name == "$1", result == "$1")',
               'result.startswith("$") and len(result) >= 2'],
      native=None)
    ctx = obj('yaql.language.contexts.Context', _data=mapcell(),
              _parent_context=TVal, _functions=mapcell(),
              _exclusive_funcs=TVal, _convention=TVal)
    pre = ['self._parent_context is None or '
           'ufn("ctx.is", self._parent_context, ret="Bool")']
    c('Context.get_data',
      params=dict(self=ctx, name=TStr, default=TVal, ask_parent=TBool),
      requires=pre,
      ensures=[
          'implies(%s in self._data, result == self._data[%s])' % (NORM,
                                                                   NORM),
          'implies(not (%s in self._data) and ask_parent, result == ' % NORM +
          LOOKUP % ('self._parent_context', NORM, 'default') + ')',
          'implies(not (%s in self._data) and not ask_parent, '
          'result == default)' % NORM],
      loops=[dict(anchor='while ask_parent and ctx', invariant=[
          'ctx is None or ufn("ctx.is", ctx, ret="Bool")',
          LOOKUP % ('ctx', 'name', 'default') + ' == ' +
          LOOKUP % ('self._parent_context', 'name', 'default')])])
    # one KEY - the name without trailing underscores, converted when the
    # caller asks for the convention - selects the overloads AND decides
    # whether this layer is exclusive for the name
    for conv in (False, True):
        key = 'name.rstrip("_")'
        if conv:
            key = ('ite(use_convention, ufn("m.convert_function_name", '
                   'self._convention, %s, ret="Str"), %s)' % (key, key))
        c('Context.get_functions',
          name='contexts.Context.get_functions/%s' % (
              'convention' if conv else 'no-convention'),
          params=dict(self=ctx if conv else obj(
              'yaql.language.contexts.Context', _data=mapcell(),
              _parent_context=TVal, _functions=mapcell(),
              _exclusive_funcs=TVal, _convention=None),
                      name=TStr, predicate=TVal, use_convention=TBool),
          requires=['self._convention is not None'] if conv else [],
          ensures=['result[1] == (%s in self._exclusive_funcs)' % key,
                   'len(calls) >= 1 and calls[len(calls) - 1][0] == '
                   '"py.filter"',
                   'implies(%s in self._functions, calls[len(calls) - 1][1]'
                   '[1] == self._functions[%s])' % (key, key),
                   'implies(not (%s in self._functions), forall(Val, '
                   'lambda f: not (f in calls[len(calls) - 1][1][1])))'
                   % key],
          serves=('C17', 'C05'))
    c('Context.__setitem__', params=dict(self=ctx, name=TStr, value=TVal),
      ensures=['self._data[%s] == value' % NORM,
               'forall(Str, lambda k: implies(k != %s, '
               '(k in self._data) == (k in OLD__data) and implies('
               'k in OLD__data, self._data[k] == OLD__data[k])))' % NORM],
      env={})
    # a layer built WITH data: the data is the variable `$` (= `$1`) of the
    # layer, stored under the one key every read / write / delete uses
    c('Context.__init__', name='contexts.Context.__init__/data',
      params=dict(self=obj('yaql.language.contexts.Context'),
                  parent_context=None, data=TVal, convention=TVal),
      requires=['not (data is NV)'], env={'NV': NV},
      ensures=['len(self._data) == 1 and self._data["$1"] == data',
               'len(self._functions) == 0',
               'self._parent_context is None'])
    c('Context.__init__', name='contexts.Context.__init__/no-data',
      params=dict(self=obj('yaql.language.contexts.Context'),
                  parent_context=None, convention=TVal), env={'NV': NV},
      ensures=['len(self._data) == 0', 'len(self._functions) == 0',
               'self._parent_context is None'])
    c('Context.__delitem__', params=dict(self=ctx, name=TStr),
      raises={'KeyError': 'not (%s in OLD__data)' % NORM},
      ensures=['%s in OLD__data' % NORM,
               'not (%s in self._data)' % NORM,
               'forall(Str, lambda k: implies(k != %s, '
               '(k in self._data) == (k in OLD__data) and implies('
               'k in OLD__data, self._data[k] == OLD__data[k])))' % NORM])
    c('Context.__contains__', name='contexts.Context.__contains__/str',
      params=dict(self=ctx, item=TStr),
      ensures=['result == (%s in self._data)' % NORM.replace('name',
                                                             'item')])
    mctx = obj('yaql.language.contexts.MultiContext',
               _context_list=TSeq(TVal), _parent_context=TVal,
               _convention=TVal)
    mpre = pre + ['forall(range(0, len(self._context_list)), lambda j: '
                  'ufn("ctx.is", self._context_list[j], ret="Bool"))']
    OWN = 'ufn("ctx.own", self._context_list[%s], name)'
    c('MultiContext.get_data',
      params=dict(self=mctx, name=TStr, default=TVal, ask_parent=TBool),
      requires=mpre,
      ensures=[
          # first member that defines the name wins
          'forall(range(0, len(self._context_list)), lambda j: implies('
          + OWN % 'j' + ' is not NV and forall(range(0, j), lambda i: '
          + OWN % 'i' + ' is NV), result == ' + OWN % 'j' + '))',
          'implies(forall(range(0, len(self._context_list)), lambda j: '
          + OWN % 'j' + ' is NV), result == ite(ask_parent, '
          + LOOKUP % ('self._parent_context', 'name', 'default')
          + ', default))'],
      env={'NV': NV},
      loops=[dict(anchor='for context in self._context_list', index='n',
                  invariant=['forall(range(0, n), lambda j: '
                             + OWN % 'j' + ' is NV)']),
             dict(anchor='while ask_parent and ctx', invariant=[
                 'ctx is None or ufn("ctx.is", ctx, ret="Bool")',
                 'forall(range(0, len(self._context_list)), lambda j: '
                 + OWN % 'j' + ' is NV)',
                 LOOKUP % ('ctx', 'name', 'default') + ' == ' +
                 LOOKUP % ('self._parent_context', 'name', 'default')])])
    lctx = obj('yaql.language.contexts.LinkedContext', linked_context=TVal,
               _parent_context=TVal, _convention=TVal)
    c('LinkedContext.get_data',
      params=dict(self=lctx, name=TStr, default=TVal, ask_parent=TBool),
      requires=pre + ['ufn("ctx.is", self.linked_context, ret="Bool")'],
      env={'NV': NV},
      ensures=[
          'implies(ufn("ctx.own", self.linked_context, name) is not NV, '
          'result == ufn("ctx.own", self.linked_context, name))',
          'implies(ufn("ctx.own", self.linked_context, name) is NV and '
          'ask_parent, result == ' + LOOKUP % (
              'self._parent_context', 'name', 'default') + ')',
          'implies(ufn("ctx.own", self.linked_context, name) is NV and '
          'not ask_parent, result == default)'])
    # ---- the function table of a layer: name -> set of overloads, plus the
    # set of exclusively registered names. Whole-view postconditions: the
    # touched entry AND everything else ------------------------------------
    from vlib.pyvc import setmap
    from vlib.pyvc.sym import TSet
    SM = setmap.spec_functions()
    tctx = obj('yaql.language.contexts.Context', _data=mapcell(),
               _parent_context=TVal, _functions=setmap.setmapcell(),
               _exclusive_funcs=TSet(TStr), _convention=TVal)
    fdef = obj('yaql.language.specs.FunctionDefinition', name=TStr,
               is_method=False)
    OTHERS = ('forall(Str, lambda n: forall(Val, lambda f: implies('
              'n != spec.name or f is not spec, bucket_has(self._functions, '
              'n, f) == bucket_has(OLD__functions, n, f))))')
    EXCL_OTHERS = ('forall(Str, lambda n: implies(n != spec.name, '
                   '(n in self._exclusive_funcs) == '
                   '(n in OLD__exclusive_funcs)))')
    for tag, kw, flag in (('default', {}, 'False'),
                          ('exclusive=x', {'exclusive': TBool},
                           'kwargs["exclusive"]')):
        c('Context.register_function',
          name='contexts.Context.register_function/' + tag,
          params=dict(self=tctx, spec=fdef, args=(), kwargs=_kwargs(kw)),
          env=SM,
          ensures=['bucket_has(self._functions, spec.name, spec)', OTHERS,
                   # the layer becomes exclusive for the name iff asked to
                   # (and stays so if it was)
                   '(spec.name in self._exclusive_funcs) == (spec.name in '
                   'OLD__exclusive_funcs or truthy(%s))'
                   % flag.replace('kwargs', 'old_kwargs'), EXCL_OTHERS],
          serves=('C17', 'C05'))
    c('Context.delete_function',
      params=dict(self=tctx, spec=fdef), env=SM,
      ensures=['not bucket_has(self._functions, spec.name, spec)', OTHERS,
               # (the statement is silent on what a removal does to the
               # exclusive mark; the implemented rule - removing an overload
               # of a name lifts the layer's exclusiveness for that name -
               # is what hosts observe, so a change to it is reported)
               'not (spec.name in self._exclusive_funcs)', EXCL_OTHERS],
      serves=('C17', 'C05'))
    # ---- child creation under a linked context: whatever the linked
    # context is (plain, multi, linked to any depth) the child is a fresh
    # context whose parent is the linked context itself ----------------------
    plain = obj('yaql.language.contexts.Context', _data=mapcell(),
                _parent_context=TVal, _functions=mapcell(),
                _exclusive_funcs=TVal, _convention=TVal)
    multi = obj('yaql.language.contexts.MultiContext',
                _context_list=TSeq(TVal), _parent_context=TVal,
                _convention=TVal)

    def linked_to(x):
        return obj('yaql.language.contexts.LinkedContext', linked_context=x,
                   _parent_context=TVal, _convention=TVal)
    for tag, inner in (('plain', plain), ('multi', multi),
                       ('linked-plain', linked_to(plain)),
                       ('linked-multi', linked_to(multi)),
                       ('linked-linked-plain', linked_to(linked_to(plain)))):
        c('LinkedContext.create_child_context',
          name='contexts.LinkedContext.create_child_context/' + tag,
          params=dict(self=linked_to(inner)),
          ensures=['isinstance(result, "Context")',
                   'result._parent_context is self',
                   'result._convention is self._convention',
                   'result is not self and result is not '
                   'self.linked_context'],
          serves=('C17',))
    c('MultiContext.create_child_context',
      params=dict(self=multi),
      ensures=['isinstance(result, "Context")',
               'result._parent_context is self',
               'result._convention is self._convention'], serves=('C17',))
    c('ContextBase.create_child_context',
      name='contexts.Context.create_child_context',
      params=dict(self=plain),
      ensures=['isinstance(result, "Context")',
               'result._parent_context is self',
               'result._convention is self._convention',
               'result is not self'], serves=('C17',))
    # ---- MultiContext writes: the merged own layer ------------------------
    c('MultiContext.__setitem__',
      params=dict(self=mctx, name=TStr, value=TVal),
      requires=mpre + ['len(self._context_list) >= 1'],
      ensures=['len(calls) == 1 and calls[0][0] == "setitem" and '
               'calls[0][1][0] == self._context_list[0] and '
               'calls[0][1][1] == name and calls[0][1][2] == value'])
    c('MultiContext.__delitem__', params=dict(self=mctx, name=TStr),
      requires=mpre, env={'NV': NV},
      # deleting a variable of the merged layer removes it from every
      # member that defines it; KeyError only if no member does
      raises={'KeyError': 'forall(range(0, len(self._context_list)), '
              'lambda j: ' + OWN % 'j' + ' is NV)'},
      ensures=['exists(range(0, len(self._context_list)), lambda j: '
               + OWN % 'j' + ' is not NV)'],
      loops=[dict(anchor='for context in self._context_list', index='n',
                  invariant=['found == exists(range(0, n), lambda j: '
                             + OWN % 'j' + ' is not NV)'])])
    c('MultiContext.__contains__', name='contexts.MultiContext.__contains__',
      params=dict(self=mctx, item=TStr), requires=mpre, env={'NV': NV},
      ensures=['result == exists(range(0, len(self._context_list)), '
               'lambda j: ufn("ctx.own", self._context_list[j], item) '
               'is not NV)'],
      loops=[dict(anchor='for context in self._context_list', index='n',
                  invariant=['forall(range(0, n), lambda j: '
                             'ufn("ctx.own", self._context_list[j], item) '
                             'is NV)'])])
    # ---- function registration / removal on composite contexts: the write
    # goes to the first member (multi) / the linked context, a removal to
    # every member, with the caller's arguments unchanged ----------------------
    from contracts._util import tuple_of
    for n in (0, 1, 2, 3):
        c('MultiContext.delete_function',
          name='contexts.MultiContext.delete_function/%d' % n,
          params=dict(self=obj('yaql.language.contexts.MultiContext',
                               _context_list=tuple_of(TVal, n),
                               _parent_context=TVal, _convention=TVal),
                      spec=TVal),
          ensures=['len(calls) == %d' % n] + [
              'calls[%d][0] == "m.delete_function" and calls[%d][1][0] == '
              'self._context_list[%d] and calls[%d][1][1] == spec'
              % (k, k, k, k) for k in range(n)],
          serves=('C17',))
    c('MultiContext.register_function',
      name='contexts.MultiContext.register_function/exclusive=x',
      params=dict(self=mctx, spec=TVal, args=(),
                  kwargs=_kwargs({'exclusive': TBool})),
      requires=mpre + ['len(self._context_list) >= 1'],
      ensures=['len(calls) == 1 and calls[0][0] == '
               '"m.register_function$exclusive" '
               'and calls[0][1][0] == self._context_list[0] and '
               'calls[0][1][1] == spec and len(calls[0][1]) == 3',
               'calls[0][1][2] == old_kwargs["exclusive"]'],
      serves=('C17',))
    c('LinkedContext.delete_function', params=dict(self=lctx, spec=TVal),
      ensures=['len(calls) == 1 and calls[0][0] == "m.delete_function" and '
               'calls[0][1][0] == self.linked_context and '
               'calls[0][1][1] == spec'], serves=('C17',))
    c('LinkedContext.register_function',
      name='contexts.LinkedContext.register_function/exclusive=x',
      params=dict(self=lctx, spec=TVal, args=(),
                  kwargs=_kwargs({'exclusive': TBool})),
      ensures=['len(calls) == 1 and calls[0][0] == '
               '"m.register_function$exclusive" '
               'and calls[0][1][0] == self.linked_context and '
               'calls[0][1][1] == spec and len(calls[0][1]) == 3',
               'calls[0][1][2] == old_kwargs["exclusive"]'],
      serves=('C17',))
    # ---- functions -----------------------------------------------------
    LAYER = 'ufn("ctx.layer", %s, name, val(predicate), use_convention)'
    EXCL = 'ufn("ctx.excl", %s, name, use_convention, ret="Bool")'
    c('MultiContext.get_functions',
      params=dict(self=mctx, name=TStr, predicate=TVal,
                  use_convention=TBool),
      requires=mpre,
      ensures=[
          # the merged layer is the union of ALL members' layers:
          # completeness (no member's overload is dropped) ...
          'forall(range(0, len(self._context_list)), lambda j: '
          'forall(Val, lambda f: implies(f in '
          + LAYER % 'self._context_list[j]' + ', f in result[0])))',
          # ... and soundness (nothing else appears)
          'forall(Val, lambda f: implies(f in result[0], exists(range(0, '
          'len(self._context_list)), lambda j: f in '
          + LAYER % 'self._context_list[j]' + ')))',
          'forall(range(0, len(self._context_list)), lambda j: implies('
          + EXCL % 'self._context_list[j]' + ', result[1]))',
          'implies(result[1], exists(range(0, len(self._context_list)), '
          'lambda j: ' + EXCL % 'self._context_list[j]' + '))'],
      loops=[dict(anchor='for context in self._context_list', index='n',
                  invariant=[
                      'forall(range(0, n), lambda j: forall(Val, lambda f: '
                      'implies(f in ' + LAYER % 'self._context_list[j]'
                      + ', f in result)))',
                      'forall(Val, lambda f: implies(f in result, exists('
                      'range(0, n), lambda j: f in '
                      + LAYER % 'self._context_list[j]' + ')))',
                      'forall(range(0, n), lambda j: implies('
                      + EXCL % 'self._context_list[j]' + ', is_exclusive))',
                      'implies(is_exclusive, exists(range(0, n), lambda j: '
                      + EXCL % 'self._context_list[j]' + '))'],
                  havoc={'result': 'SSet'})],
      serves=('C17', 'C05'))
    # ---- collect_functions: layers from the nearest outward, non-empty
    # ones only, stopping AFTER a layer that registered the name exclusively
    LAY = 'ufn("ctx.layer", %s, name, PK, use_convention)'
    EXC = 'ufn("ctx.excl", %s, name, use_convention, ret="Bool")'
    CL = 'ufn("coll.len", %s, ret="Int")'
    CA = 'ufn("coll.at", %s, %s)'
    REST = 'ite(%s, None, ufn("ctx.parent", c))' % (EXC % 'c')
    NE = 'ite(truthy(%s), 1, 0)' % (LAY % 'c')
    c('ContextBase.collect_functions',
      params=dict(self=TVal, name=TStr, predicate=None, use_convention=TBool),
      env={'PK': None},
      requires=[
          'ufn("ctx.is", self, ret="Bool")',
          # recursive definition of the expected result (spec function)
          CL % 'None' + ' == 0',
          'forall(Val, lambda c: implies(ufn("ctx.is", c, ret="Bool"), '
          + CL % 'c' + ' == ' + NE + ' + ' + CL % ('(' + REST + ')')
          + ' and ' + CL % 'c' + ' >= 0))',
          'forall(Val, lambda c: implies(ufn("ctx.is", c, ret="Bool") and '
          'truthy(' + LAY % 'c' + '), ' + CA % ('c', '0') + ' == '
          + LAY % 'c' + '))',
          'forall(Val, lambda c: forall(Int, lambda k: implies('
          'ufn("ctx.is", c, ret="Bool") and k >= ' + NE + ', '
          + CA % ('c', 'k') + ' == ' + CA % ('(' + REST + ')',
                                            'k - ' + NE) + ')))'],
      ensures=['len(result) == ' + CL % 'self',
               'forall(range(0, len(result)), lambda k: result[k] == '
               + CA % ('self', 'k') + ')'],
      loops=[dict(anchor='while p is not None', invariant=[
          'p is None or ufn("ctx.is", p, ret="Bool")',
          'len(overloads) + ' + CL % 'p' + ' == ' + CL % 'self',
          'forall(range(0, len(overloads)), lambda k: overloads[k] == '
          + CA % ('self', 'k') + ')',
          'forall(Int, lambda k: implies(len(overloads) <= k and k < '
          + CL % 'self' + ', ' + CA % ('self', 'k') + ' == '
          + CA % ('p', 'k - len(overloads)') + '))'],
          havoc={'overloads': TSeq(TVal), 'p': TVal,
                 'context_predicate': TVal, 'layer_overloads': TVal,
                 'is_exclusive': TBool})],
      serves=('C17', 'C05'))
    return cs
