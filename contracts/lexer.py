"""Sidecar contracts for yaql/language/lexer.py and parser.py
(C03 totality, C16 literals, C12 empty argument slots).

Token rules get their precondition from their OWN docstring regex (ply only
calls t_X with t.value in L(regex)); what the regex guarantees is decided by
z3's regex theory in props/C03.py and enters here as named facts."""
import ast
import z3
from vlib.pyvc import sym as S
from vlib.pyvc import models
from vlib.pyvc.verify import Contract
from vlib.pyvc.sym import (TInt, TBool, TStr, TVal, TSeq, TOpt, SVal, SBool,
                           SStr, Opaque)
from contracts._util import obj, tuple_of

L = 'yaql.language.lexer.'
P = 'yaql.language.parser.'
NV = Opaque('NO_VALUE')


class token:
    """A ply LexToken: value (str), lexpos (int), type."""
    is_factory = True

    def __call__(self, name, path):
        from vlib.pyvc.world import ObjVal
        from vlib.pyvc.interp import ClassRef
        t = ObjVal(ClassRef('LexToken'))
        v = TStr.fresh('value')
        pos = TInt.fresh('lexpos')
        path.symbols['t.value'] = v.t
        path.symbols['t.lexpos'] = pos.t
        path.ghost['VALUE'] = v
        path.ghost['LEXPOS'] = pos
        t.fields.update(value=v, lexpos=pos, type='X',
                        lexer=TVal.fresh('lexer'))
        return t


def setup(world):
    world.opaque_globals[('yaql.language.utils', 'NO_VALUE')] = NV
    # decode_escapes is EXECUTED (not assumed): `PATTERN.sub(callback, s)`
    # is modelled as "the callback may be applied to a match whose text is
    # any member of L(PATTERN) occurring in s; what it raises propagates";
    # codecs.decode(.., 'unicode-escape') is T-conv (a string, or
    # UnicodeDecodeError); int(s, 16) / chr(n) follow CPython's error rules
    install_re_models(world)
    world.opaque_attrs['lexdata'] = lambda recv, it: models.apply_uf(
        'a.lexdata', (recv,), 'Val')

    def bytes_decode(recv, args, kw, it):
        # T-conv: bytes.decode(codec) returns a string or raises
        # UnicodeDecodeError (any codec other than a total one)
        world.trusted_used.add('T-conv: bytes.decode() returns a string or '
                               'raises UnicodeDecodeError')
        bad = z3.Bool(S.fresh_name('bytes_undecodable'))
        if it.branch(bad):
            it.raise_('UnicodeDecodeError')
        return SStr(models.apply_uf('bytes.decode', (recv,) + tuple(args),
                                    'Str').t)
    world.opaque_sigs['decode'] = bytes_decode
    for cls in ('Constant', 'KeywordConstant', 'GetContextValue', 'Wrap',
                'IndexExpression', 'ListExpression', 'MapExpression',
                'MappingRuleExpression', 'Function', 'BinaryOperator',
                'UnaryOperator'):
        world.opaque_ctor(cls)


LEXERR = 'YaqlLexicalException'


def install_re_models(world):
    import types
    from vlib import regexlang as R
    from vlib.pyvc.interp import Model

    def re_compile(it, node, pattern, flags=0):
        if not isinstance(pattern, str):
            raise models.Unsupported('re.compile of a symbolic pattern')
        fl = int(flags)
        try:
            lang = R.to_z3(pattern, fl)
        except R.Unsupported as e:
            raise models.Unsupported('regex translation: %s' % e)

        def sub(it, node, repl, s, count=0):
            s = TStr.wrap(TStr.unwrap(s)) if not isinstance(s, SStr) else s
            res = SStr(z3.String(S.fresh_name('re_sub')))
            it.calls.append(('re.sub', (pattern, s), res))
            world.trusted_used.add(
                're.Pattern.sub: the callback is applied to matches whose '
                'text is in L(pattern) and occurs in the subject; its '
                'exceptions propagate; the result is an uninterpreted '
                'string')
            if isinstance(repl, (str, SStr)):
                return res
            g = z3.String(S.fresh_name('match_text'))
            it.path.symbols[str(g)] = g
            has = z3.And(z3.InRe(g, lang), z3.Contains(s.t, g))
            if it.branch(has):
                m = types.SimpleNamespace(
                    group=Model('match.group', lambda *a: SStr(g)),
                    start=Model('match.start', lambda *a: TInt.fresh('ms')),
                    end=Model('match.end', lambda *a: TInt.fresh('me')))
                it.call(repl, [m], {}, node)
            return res
        return types.SimpleNamespace(pattern=pattern, flags=fl,
                                     sub=Model('re.sub', sub, True))
    world.lib[('re', 'compile')] = Model('re.compile', re_compile, True)
    import re as _re
    for fname in ('UNICODE', 'VERBOSE', 'IGNORECASE', 'MULTILINE', 'DOTALL'):
        world.lib[('re', fname)] = int(getattr(_re, fname))

    def codecs_decode(it, node, data, encoding='utf-8', errors='strict'):
        world.trusted_used.add(
            'T-conv: codecs.decode(str, "unicode-escape") returns a string '
            'or raises UnicodeDecodeError (ill-formed escape) or '
            'UnicodeEncodeError (the text is first encoded: a lone '
            'surrogate code point in it cannot be)')
        bad = z3.Bool(S.fresh_name('codec_rejects'))
        if it.branch(bad):
            it.raise_('UnicodeDecodeError', node=node)
        bad2 = z3.Bool(S.fresh_name('codec_cannot_encode'))
        if it.branch(bad2):
            it.raise_('UnicodeEncodeError', node=node)
        return SStr(models.apply_uf('codecs.decode', (data,), 'Str').t)
    world.lib[('codecs', 'decode')] = Model('codecs.decode', codecs_decode,
                                            True)


def regex_facts():
    """What the NUMBER token regex of the tree under test guarantees about
    t.value, decided by z3's regex theory (facts, not obligations: when one
    does not hold the conversion it would have justified must be guarded)."""
    import os
    from vlib import regexlang as R
    path = os.path.join(os.environ.get('VERIF_REPO', '/repo'), 'yaql',
                        'language', 'lexer.py')
    facts = dict(int_digits=False, float_ok=False)
    try:
        tree = ast.parse(open(path).read())
    except (IOError, OSError, SyntaxError):
        return facts
    num = None
    for n in ast.walk(tree):
        if isinstance(n, ast.FunctionDef) and n.name == 't_NUMBER':
            num = (ast.get_docstring(n) or '').strip()
    if not num:
        return facts
    D = z3.Range('0', '9')
    any_ = z3.Star(R.ANYCHAR)
    dot = z3.Concat(any_, z3.Re('.'), any_)
    num_ascii = num.replace('\\\\d', '[0-9]').replace('\\d', '[0-9]')
    st, _ = R.included(num_ascii, z3.Plus(D), extra=z3.Complement(dot))
    facts['int_digits'] = st == 'proved'
    # T-conv: float() accepts (at least) digits[.digits][e[+-]digits]
    exp = z3.Option(z3.Concat(z3.Union(z3.Re('e'), z3.Re('E')),
                              z3.Option(z3.Union(z3.Re('+'), z3.Re('-'))),
                              z3.Plus(D)))
    st, _ = R.included(num_ascii, z3.Concat(
        z3.Plus(D), z3.Option(z3.Concat(z3.Re('.'), z3.Plus(D))), exp),
        extra=dot)
    facts['float_ok'] = st == 'proved'
    return facts


def contracts():
    cs = []
    facts = regex_facts()

    def c(target, **kw):
        kw.setdefault('native', False)
        x = Contract(target, **kw)
        cs.append(x)
        return x
    # ---- token rules: only YAQL lexical errors may escape, at the token's
    # own position ---------------------------------------------------------
    c(L + 'Lexer.t_NUMBER', params=dict(t=token()),
      # facts of the docstring regex \d+(\.?\d+)? (regex obligations):
      requires=['len(VALUE) >= 1'] + ([
          'implies("." not in VALUE, ufn("conv.all_digits", VALUE, '
          'ret="Bool"))'] if facts['int_digits'] else []) + ([
              'implies("." in VALUE, ufn("conv.float_ok", VALUE, '
              'ret="Bool"))'] if facts['float_ok'] else []),
      raises={LEXERR: ('len(VALUE) > 4300 and ' if facts['int_digits']
                       else '') + '"." not in VALUE and '
              'raised.args[1] == LEXPOS'},
      ensures=['result is t',
               # an integer literal iff there is no dot (C16)
               'implies("." not in VALUE, isinstance(t.value, int) and '
               't.value == int(VALUE))',
               'implies("." in VALUE, isinstance(t.value, float))'],
      serves=('C03', 'C16'))
    for rule in ('t_QUOTED_STRING', 't_DOUBLE_QUOTED_STRING'):
        c(L + 'Lexer.' + rule, params=dict(t=token()),
          requires=['len(VALUE) >= 2'],
          raises={LEXERR: 'raised.args[1] == LEXPOS'},
          ensures=['result is t',
                   # the token's value is the escape substitution applied
                   # to exactly the text between the quotes
                   'calls[0][0] == "re.sub" and '
                   'calls[0][1][1] == VALUE[1:-1] and t.value == '
                   'calls[0][2]'] + ([] if rule == 't_QUOTED_STRING' else [
                       't.type == "QUOTED_STRING"']),
          serves=('C03', 'C16'))
    c(L + 'Lexer.t_QUOTED_VERBATIM_STRING', params=dict(t=token()),
      requires=['len(VALUE) >= 2'],
      ensures=['result is t', 't.type == "QUOTED_STRING"',
               # nothing changes except an escaped back quote
               't.value == VALUE[1:-1].replace("\\\\`", "`")'],
      serves=('C03', 'C16'))
    c(L + 'Lexer.t_FUNC', params=dict(t=token()),
      requires=['len(VALUE) >= 2'],
      ensures=['result is t', 't.value == VALUE[:-1]'], serves=('C03',))
    c(L + 'Lexer.t_DOLLAR', params=dict(t=token()),
      ensures=['result is t', 't.value == VALUE'], serves=('C03',))
    c(L + 'Lexer.t_error', params=dict(t=token()),
      requires=['len(VALUE) >= 1'],      # ply: the unmatched rest of input
      raises={LEXERR: 'raised.args[0] == VALUE[0:1] and '
              'raised.args[1] == LEXPOS'},
      ensures=['False'], always_raises=True, serves=('C03',))
    lexer = obj('yaql.language.lexer.Lexer',
                _operators_table={'and': (0, 1, 'OP_A', None),
                                  'not': (5, 0, 'OP_B', None),
                                  '+': (3, 7, 'OP_C', None),
                                  # identifier-shaped words that are not
                                  # purely alphabetic / not ASCII
                                  'is_set2': (7, 1, 'OP_E', None),
                                  'und\u00e9': (8, 1, 'OP_F', None)},
                tokens=None)
    c(L + 'Lexer.t_KEYWORD_STRING', params=dict(self=lexer, t=token()),
      ensures=[
          'result is t',
          # operator words become that operator's token, the three JSON
          # constants their values, anything else denotes its own text
          'implies(VALUE == "and", t.type == "OP_A" and t.value == VALUE)',
          'implies(VALUE == "not", t.type == "OP_B" and t.value == VALUE)',
          'implies(VALUE == "is_set2", t.type == "OP_E" and '
          't.value == VALUE)',
          'implies(VALUE == "und\u00e9", t.type == "OP_F" and '
          't.value == VALUE)',
          'implies(VALUE == "true", t.type == "TRUE" and t.value is True)',
          'implies(VALUE == "false", t.type == "FALSE" and t.value is '
          'False)',
          'implies(VALUE == "null", t.type == "NULL" and t.value is None)',
          'implies(VALUE != "and" and VALUE != "not" and VALUE != "+" and '
          'VALUE != "is_set2" and VALUE != "und\u00e9" and '
          'VALUE != "true" and VALUE != "false" and VALUE != "null", '
          't.type == "KEYWORD_STRING" and t.value == VALUE)'],
      serves=('C03', 'C16', 'C02'))
    # ---- grammar error: always a YaqlGrammarException -----------------------
    c(P + 'Parser.p_error', name='parser.Parser.p_error/token',
      params=dict(p=token()),
      raises={'YaqlGrammarException': 'raised.args[2] == LEXPOS'},
      ensures=['False'], always_raises=True, serves=('C03',))
    c(P + 'Parser.p_error', name='parser.Parser.p_error/eof',
      params=dict(p=None),
      raises={'YaqlGrammarException': 'True'},
      ensures=['False'], always_raises=True, serves=('C03',))
    # ---- productions: never raise; literal nodes carry the token value -------
    def prod(n):
        class f:
            is_factory = True

            def __init__(self, shape):
                self.shape = shape

            def __call__(self, name, path):
                out = [None]
                for i, s in enumerate(self.shape, 1):
                    if s == 'list':
                        out.append([TVal.fresh('p%d_0' % i),
                                    TVal.fresh('p%d_1' % i)])
                    else:
                        out.append(TVal.fresh('p%d' % i))
                return out
        return f(n)
    c(P + 'Parser.p_value_to_const', params=dict(p=prod(['v'])),
      ensures=['p[0] == calls[0][2] and calls[0][0] == "new:Constant" and '
               'calls[0][1][0] == p[1]'], serves=('C03', 'C16'))
    c(P + 'Parser.p_keyword_constant', params=dict(p=prod(['v'])),
      ensures=['p[0] == calls[0][2] and calls[0][0] == "new:KeywordConstant"'
               ' and calls[0][1][0] == p[1]'], serves=('C03', 'C16'))
    # empty argument slots (C12): f(a,,b) -> [a, NO_VALUE, b]
    c(P + 'Parser.p_arg_list', name='parser.p_arg_list/value',
      params=dict(p=prod(['v'])), ensures=['p[0] == [p[1]]'],
      serves=('C03', 'C12'))
    c(P + 'Parser.p_arg_list', name='parser.p_arg_list/leading-comma',
      params=dict(p=prod(['v', 'list'])), env={'NV': NV},
      ensures=['p[0] == [NV] + p[2]'], serves=('C03', 'C12'))
    c(P + 'Parser.p_arg_list', name='parser.p_arg_list/concat',
      params=dict(p=prod(['list', 'v', 'list'])),
      ensures=['p[0] == p[1] + p[3]'], serves=('C03', 'C12'))
    c(P + 'Parser.p_incomplete_arg_list', params=dict(p=prod(['list', 'v'])),
      env={'NV': NV}, ensures=['p[0] == p[1] + [NV]'],
      serves=('C03', 'C12'))
    c(P + 'Parser.p_named_arg_list', name='parser.p_named_arg_list/one',
      params=dict(p=prod(['v'])), ensures=['p[0] == [p[1]]'],
      serves=('C03', 'C12'))
    c(P + 'Parser.p_named_arg_list', name='parser.p_named_arg_list/more',
      params=dict(p=prod(['list', 'v', 'v'])),
      ensures=['p[0] == p[1] + [p[3]]'], serves=('C03', 'C12'))
    c(P + 'Parser.p_args', name='parser.p_args/empty', params=dict(p=prod([])),
      ensures=['p[0] == []'], serves=('C03', 'C12'))
    c(P + 'Parser.p_args', name='parser.p_args/one',
      params=dict(p=prod(['list'])), ensures=['p[0] == p[1]'],
      serves=('C03', 'C12'))
    c(P + 'Parser.p_args', name='parser.p_args/positional-then-named',
      params=dict(p=prod(['list', 'v', 'list'])),
      ensures=['p[0] == p[1] + p[3]'], serves=('C03', 'C12'))
    # ---- generated operator productions: never raise, whatever kind of
    # node the operand is (C03), and build the node the table dictates (C02)
    class Production(list):
        pyvc_attrs = ('slice',)

    class oprod:
        is_factory = True

        def __init__(self, shape, node_cls):
            self.shape, self.node_cls = shape, node_cls

        def __call__(self, name, path):
            import types
            out = Production([None])
            out.slice = [None]
            for i, s in enumerate(self.shape, 1):
                if s == 'node':
                    v = obj('yaql.language.expressions.' + self.node_cls)(
                        'p%d' % i, path)
                    out.slice.append(types.SimpleNamespace(type='value'))
                else:
                    v = s[0]
                    out.slice.append(types.SimpleNamespace(type=s[1]))
                out.append(v)
            return out
    ops = obj('yaql.language.factory.YaqlOperators',
              operators={'-': (3, 6, 'OP_A', None),
                         'not': (9, 0, 'OP_B', 'negate'),
                         '!': (-2, 0, 'OP_C', 'bang'),
                         '+': (0, 6, 'OP_D', 'plus')},
              name_value_op=None)
    parser = obj('yaql.language.parser.Parser',
                 _aliases={'OP_A': None, 'OP_B': 'negate', 'OP_C': 'bang',
                           'OP_D': 'plus'})
    G = P + 'Parser._generate_operator_funcs.<locals>.'
    for node_cls in ('Constant', 'KeywordConstant', 'GetContextValue',
                     'Function', 'UnaryOperator', 'ListExpression', 'Wrap'):
        for sym, tok, alias in (('-', 'OP_A', None), ('not', 'OP_B',
                                                      'negate')):
            c(G + 'p_unary', name='parser.p_unary/prefix:%s/%s' % (
                sym, node_cls),
              params=dict(this=parser, p=oprod([(sym, tok), 'node'],
                                               node_cls)),
              env=dict(yaql_operators=ops),
              ensures=['calls[0][0] == "new:UnaryOperator" and '
                       'calls[0][1][0] == "%s" and calls[0][1][1] is p[2] '
                       'and calls[0][1][2] == %r and p[0] == calls[0][2]'
                       % (sym, alias)],
              # (C15: a sign in front of a literal stays an operator call -
              # `-true` goes through the numeric overloads, which refuse it)
              serves=('C03', 'C02', 'C15'), native=False)
        c(G + 'p_unary', name='parser.p_unary/suffix/%s' % node_cls,
          params=dict(this=parser, p=oprod(['node', ('!', 'OP_C')],
                                           node_cls)),
          env=dict(yaql_operators=ops),
          ensures=['calls[0][0] == "new:UnaryOperator" and '
                   'calls[0][1][0] == "!" and calls[0][1][1] is p[1] '
                   'and calls[0][1][2] == "bang" and p[0] == calls[0][2]'],
          serves=('C03', 'C02'), native=False)
        c(G + 'p_binary', name='parser.p_binary/%s' % node_cls,
          params=dict(this=parser, p=oprod(['node', ('+', 'OP_D'), 'node'],
                                           node_cls)),
          env=dict(yaql_operators=ops),
          ensures=['calls[0][0] == "new:BinaryOperator" and '
                   'calls[0][1][0] == "+" and calls[0][1][1] is p[1] '
                   'and calls[0][1][2] is p[3] and calls[0][1][3] == "plus" '
                   'and p[0] == calls[0][2]'],
          serves=('C03', 'C02'), native=False)
    return cs


# ============ the ply precedence rows built from the operator table =========

PREC_TABLES = {
    # name: [(symbol, unary_prec, binary_prec, token)]; precedence numbers
    # as _build_operator_table assigns them (group index, sign = row)
    'default-like': [('.', 0, 1, 'A'), ('-', 2, 4, 'B'), ('*', 0, 3, 'C'),
                     ('not', 5, 0, 'D'), ('->', 0, -6, 'E')],
    # one group holding a prefix operator AND right-associative binaries:
    # the prefix operator takes the tightest operand the group allows, so
    # the right-associative row binds tighter than the prefix row
    'prefix+right-group': [('~', 1, 0, 'T'), ('**', 0, -1, 'P'),
                           ('+', 0, 2, 'Q')],
    'suffix-group': [('!', -1, 0, 'S'), ('+', 0, 2, 'Q'),
                     ('=>', 0, -3, 'R')],
    'indexer-map': [('[]', 0, 1, 'INDEXER'), ('{}', 0, 1, 'MAP'),
                    ('+', 0, 2, 'Q')],
}


def _expected_rows(table):
    """Reference: rows from the LOOSEST level to the tightest; inside a level
    the left-associative / prefix row, then the right-associative / suffix
    row; the argument separator last."""
    levels = {}
    for sym, up, bp, tok in table:
        if up:
            levels.setdefault((abs(up), 'l' if up > 0 else 'r'), []).append(
                'UNARY_' + tok if bp else tok)
        if bp:
            row = levels.setdefault((abs(bp), 'l' if bp > 0 else 'r'), [])
            if tok == 'INDEXER':
                row.extend(('LIST', 'INDEXER'))
            else:
                row.append(tok)
    out = []
    for lvl in sorted({k[0] for k in levels}, reverse=True):
        for row in ('l', 'r'):
            if (lvl, row) in levels:
                out.append((('left',) if row == 'l' else ('right',)) +
                           tuple(levels[(lvl, row)]))
    out.append(('left', ','))
    return tuple(out)


def setup_precedence(world):
    setup(world)
    world.opaque_attr_default = True
    import types
    from vlib.pyvc.interp import Model
    # binding a generated production to the parser: the function itself
    world.lib[('types', 'MethodType')] = Model(
        'types.MethodType', lambda f, o: f)
    world.setattr_models.append(
        lambda o, name, v, it, node: None if type(o).__name__ == 'FuncRef'
        and name == '__doc__' else NotImplemented)


def precedence_contracts():
    cs = []
    for name, table in PREC_TABLES.items():
        ops = obj('yaql.language.factory.YaqlOperators',
                  operators={sym: (up, bp, tok, None)
                             for sym, up, bp, tok in table},
                  name_value_op=None)
        parser = obj('yaql.language.parser.Parser', _aliases={},
                     precedence=None)
        cs.append(Contract(
            P + 'Parser._generate_operator_funcs',
            name='parser.precedence-rows/' + name,
            params=dict(self=parser, yaql_operators=ops, engine=TVal),
            ensures=['self.precedence == %r' % (_expected_rows(table),)],
            serves=('C02',), native=False))
    return cs
