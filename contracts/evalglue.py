"""Contracts for the evaluation glue: how a call gets its context (C04),
what Statement.evaluate / __call__ touch (C09), how nodes dispatch."""
from vlib.pyvc.verify import Contract
from vlib.pyvc.sym import (TInt, TBool, TStr, TVal, TSeq, TOpt, TFunc, Opaque)
from contracts._util import obj, mapcell, writelog, tuple_of

NV = Opaque('NO_VALUE')


def setup(world):
    world.opaque_globals[('yaql.language.utils', 'NO_VALUE')] = NV
    world.opaque_sig('create_child_context', log=True)
    world.opaque_sig('register_function', log=True)
    world.opaque_sig('collect_functions', log=True)
    world.opaque_sig('get', log=False)
    world.opaque_attrs['options'] = lambda recv, it: __import__(
        'vlib.pyvc.models', fromlist=['x']).apply_uf('a.options', (recv,))


class kw1:
    is_factory = True

    def __call__(self, name, path):
        return {'k': TFunc(1).fresh(name + '.k')}


class funcs:
    is_factory = True

    def __init__(self, n):
        self.n = n

    def __call__(self, name, path):
        return tuple(TFunc(1).fresh('%s%d' % (name, i))
                     for i in range(self.n))


def contracts():
    cs = []
    fd = obj('yaql.language.specs.FunctionDefinition', payload=TVal,
             name=TVal, parameters=TVal)
    # every invocation runs in a FRESH child of the caller's context, the
    # converters get that child, the payload gets their results in order
    cs.append(Contract(
        'yaql.language.specs.FunctionDefinition.get_delegate.<locals>.func',
        name='specs.get_delegate.func',
        params={},
        env=dict(self=fd, context=_tv('ctx'), positional_args=funcs(2),
                 keyword_args=kw1()),
        ensures=[
            'len(calls) == 5',
            'implies(len(calls) == 5, calls[0][0] == '
            '"m.create_child_context" and calls[0][1][0] == context)',
            'implies(len(calls) == 5, calls[1][0] == positional_args[0].name '
            'and calls[1][1][0] == calls[0][2])',
            'implies(len(calls) == 5, calls[2][0] == positional_args[1].name '
            'and calls[2][1][0] == calls[0][2])',
            'implies(len(calls) == 5, calls[3][0] == keyword_args["k"].name '
            'and calls[3][1][0] == calls[0][2])',
            'implies(len(calls) == 5, calls[4][0] == "call$k" and '
            'calls[4][1][0] == self.payload and calls[4][1][1] == calls[1][2]'
            ' and calls[4][1][2] == calls[2][2] and calls[4][1][3] == '
            'calls[3][2] and result == calls[4][2])'],
        serves=('C04', 'C09', 'C11'), native=False))
    # Lambda: lexical capture - the child is made from the context captured
    # at convert() time, once per activation; $1..$n are published into it
    for method in (False, True):
        for with_context in (False, True):
            lam = obj('yaql.language.yaqltypes.Lambda', method=method,
                      with_context=with_context, nullable=True)
            skip = (1 if method else 0) + (1 if with_context else 0)
            nargs = skip + 2
            if with_context:
                ctx_expr = 'args[%d]' % (1 if method else 0)
                pre_calls = 0
            else:
                ctx_expr = 'calls[0][2]'
                pre_calls = 1
            recv_expr = 'args[0]' if method else 'NV'
            ens = ['len(calls) == %d' % (pre_calls + 3)]
            if not with_context:
                ens.append('implies(len(calls) == %d, calls[0][0] == '
                           '"m.create_child_context" and calls[0][1][0] == '
                           'context)' % (pre_calls + 3))
            for j in range(2):
                ens.append(
                    'implies(len(calls) == %d, calls[%d][0] == "setitem" and '
                    'calls[%d][1][0] == %s and calls[%d][1][1] == "$%d" and '
                    'calls[%d][1][2] == args[%d])' % (
                        pre_calls + 3, pre_calls + j, pre_calls + j,
                        ctx_expr, pre_calls + j, j + 1, pre_calls + j,
                        skip + j))
            ens.append(
                'implies(len(calls) == %d, calls[%d][0] == "call" and '
                'calls[%d][1][0] == value and calls[%d][1][1] == val(%s) and '
                'calls[%d][1][2] == %s and calls[%d][1][3] == engine and '
                'result == calls[%d][2])' % (
                    pre_calls + 3, pre_calls + 2, pre_calls + 2,
                    pre_calls + 2, recv_expr, pre_calls + 2, ctx_expr,
                    pre_calls + 2, pre_calls + 2))
            cs.append(Contract(
                'yaql.language.yaqltypes.Lambda.convert.<locals>.func',
                name='yaqltypes.Lambda.func/method=%s,with_context=%s' % (
                    method, with_context),
                params=dict(args=tuple_of(TVal, nargs)),
                env=dict(self=lam, context=_tv('captured_ctx'),
                         value=_tv('expr'), engine=_tv('engine'), NV=NV),
                requires=['isinstance(value, "Expression")'],
                ensures=ens, serves=('C04', 'C11'), native=False))
    # Function node: dispatch by name through the context, then apply
    fnode = obj('yaql.language.expressions.Function', name=TStr,
                args=tuple_of(TVal, 2), uses_receiver=True)
    cs.append(Contract(
        'yaql.language.expressions.Function.__call__',
        params=dict(self=fnode, receiver=TVal, context=TVal, engine=TVal),
        ensures=['len(calls) == 2',
                 'implies(len(calls) == 2, calls[0][0] == "call" and '
                 'calls[0][1][0] == context and calls[0][1][1] == self.name '
                 'and calls[0][1][2] == engine and calls[0][1][3] == receiver'
                 ' and calls[0][1][4] == context)',
                 'implies(len(calls) == 2, calls[1][1][0] == calls[0][2] and '
                 'calls[1][1][1] == self.args[0] and calls[1][1][2] == '
                 'self.args[1] and result == calls[1][2])'],
        serves=('C04', 'C11'), native=False))
    return cs


class _tv:
    is_factory = True

    def __init__(self, base):
        self.base = base

    def __call__(self, name, path):
        return TVal.fresh(self.base)


def node_contracts():
    """The expression-tree nodes: which function name a node dispatches to
    (operators by symbol or by alias), in which order it holds its operands,
    and what the leaf nodes evaluate to (C02 tree shape, C04, C11 order)."""
    cs = []
    E = 'yaql.language.expressions.'

    def c(target, **kw):
        kw.setdefault('serves', ('C02', 'C04', 'C11'))
        kw.setdefault('native', False)
        x = Contract(E + target, **kw)
        cs.append(x)
        return x
    for alias in (True, False):
        nm = '"*" + alias' if alias else '"#operator_" + op'
        c('BinaryOperator.__init__', name='expressions.BinaryOperator/%s' % (
            'alias' if alias else 'symbol'),
          params=dict(self=obj(E + 'BinaryOperator'), op=TStr, obj1=TVal,
                      obj2=TVal, alias=TStr if alias else None),
          ensures=['self.name == %s' % nm, 'self.operator == op',
                   # left operand first
                   'self.args == (obj1, obj2)',
                   'self.uses_receiver is False'])
        nm = '"*" + alias' if alias else '"#unary_operator_" + op'
        c('UnaryOperator.__init__', name='expressions.UnaryOperator/%s' % (
            'alias' if alias else 'symbol'),
          params=dict(self=obj(E + 'UnaryOperator'), op=TStr, obj=TVal,
                      alias=TStr if alias else None),
          ensures=['self.name == %s' % nm, 'self.operator == op',
                   'self.args == (obj,)', 'self.uses_receiver is False'])
    c('IndexExpression.__init__',
      params=dict(self=obj(E + 'IndexExpression'), value=TVal,
                  args=tuple_of(TVal, 2)),
      ensures=['self.name == "#indexer"',
               'self.args == (value, args[0], args[1])',
               'self.uses_receiver is False'])
    for cls, nm in (('ListExpression', '#list'), ('MapExpression', '#map')):
        c(cls + '.__init__', params=dict(self=obj(E + cls),
                                         args=tuple_of(TVal, 3)),
          ensures=['self.name == "%s"' % nm, 'self.args == args',
                   'self.uses_receiver is False'])
    c('GetContextValue.__init__',
      params=dict(self=obj(E + 'GetContextValue'), path=TVal),
      ensures=['self.name == "#get_context_data"', 'self.args == (path,)',
               'self.path == path', 'self.uses_receiver is False'])
    c('Function.__init__', params=dict(self=obj(E + 'Function'), name=TStr,
                                       args=tuple_of(TVal, 2)),
      ensures=['self.name == name', 'self.args == args',
               'self.uses_receiver is True'])
    c('Constant.__call__',
      params=dict(self=obj(E + 'Constant', value=TVal, uses_receiver=False),
                  receiver=TVal, context=TVal, engine=TVal),
      ensures=['result == self.value', 'len(calls) == 0'])
    c('Wrap.__call__',
      params=dict(self=obj(E + 'Wrap', expr=TVal, uses_receiver=False),
                  receiver=TVal, context=TVal, engine=TVal),
      ensures=['len(calls) == 1 and calls[0][0] == "call" and '
               'calls[0][1][0] == self.expr and calls[0][1][1] == receiver '
               'and calls[0][1][2] == context and calls[0][1][3] == engine '
               'and result == calls[0][2]'])
    c('MappingRuleExpression.__call__',
      params=dict(self=obj(E + 'MappingRuleExpression', source=TVal,
                           destination=TVal, uses_receiver=False),
                  receiver=TVal, context=TVal, engine=TVal),
      ensures=[
          # source before destination, each once, same receiver / context
          'len([e for e in calls if e[0] == "call"]) == 2',
          'calls[0][1][0] == self.source and calls[1][1][0] == '
          'self.destination',
          'all([e[1][1] == receiver and e[1][2] == context and e[1][3] == '
          'engine for e in calls if e[0] == "call"])'])
    return cs


def setup_nodes(world):
    setup(world)
    world.opaque_ctor('MappingRule')
