"""Sidecar contracts for the set algebra, dict access / persistent update
and predicate functions of yaql/standard_library/collections.py (C13).

Sets are characteristic arrays, so every set postcondition is stated
extensionally for an ARBITRARY probe value x (a ghost parameter): it fixes
the whole result, not just the touched elements."""
from vlib.pyvc.verify import Contract
from vlib.pyvc.sym import (TInt, TBool, TStr, TVal, TSeq, TOpt, TFunc, TIter,
                           TSet, TMap, Opaque)
from contracts._util import obj, tuple_of

C = 'yaql.standard_library.collections.'
NV = Opaque('NO_VALUE')


def setup(world):
    world.opaque_globals[('yaql.language.utils', 'NO_VALUE')] = NV
    world.symbolic_sets = True
    world.callee_contract('yaql.language.utils.limit_memory_usage')


def contracts():
    cs = []

    def c(fname, **kw):
        kw.setdefault('serves', ('C13',))
        kw.setdefault('native', None)       # native twin: sets / maps
        x = Contract(C + fname, **kw)
        x.native_scope = 2
        cs.append(x)
        return x
    SET = TSet(TVal)
    two = dict(left=SET, right=SET, x=TVal)
    for fn, rel in (('union', '(x in left) or (x in right)'),
                    ('intersect', '(x in left) and (x in right)'),
                    ('difference', '(x in left) and not (x in right)'),
                    ('symmetric_difference',
                     '(x in left) != (x in right)')):
        c(fn, params=dict(two), ensures=[
            '(x in result) == (%s)' % rel,
            # persistent: the operands are not written
            '(x in left) == (x in old_left) and (x in right) == '
            '(x in old_right)'])
    SUB = 'forall(Val, lambda e: implies(e in %s, e in %s))'
    EQ = 'forall(Val, lambda e: (e in left) == (e in right))'
    for fn, rel in (('set_lte', SUB % ('left', 'right')),
                    ('set_gte', SUB % ('right', 'left')),
                    ('set_lt', '%s and not %s' % (SUB % ('left', 'right'),
                                                  EQ)),
                    ('set_gt', '%s and not %s' % (SUB % ('right', 'left'),
                                                  EQ))):
        c(fn, params=dict(left=SET, right=SET),
          ensures=['result == (%s)' % rel])
    for n in (0, 1, 2):
        vals = ' or '.join('x == values[%d]' % i for i in range(n)) or 'False'
        c('set_add', name='collections.set_add/%d' % n,
          params=dict(s=SET, values=tuple_of(TVal, n), x=TVal),
          ensures=['(x in result) == ((x in s) or %s)' % vals,
                   '(x in s) == (x in old_s)'])
        c('set_remove', name='collections.set_remove/%d' % n,
          params=dict(s=SET, values=tuple_of(TVal, n), x=TVal),
          ensures=['(x in result) == ((x in s) and not (%s))' % vals,
                   '(x in s) == (x in old_s)'])
    c('to_set', params=dict(collection=TVal, x=TVal),
      requires=['not isinstance(collection, (bool, int, float, str))',
                'collection is not None'],
      ensures=['(x in result) == (x in collection)'])
    # ---- membership ---------------------------------------------------
    c('in_', name='collections.in_/set', params=dict(value=TVal,
                                                     collection=SET),
      ensures=['result == (value in collection)'])
    c('contains', name='collections.contains/set',
      params=dict(collection=SET, value=TVal),
      ensures=['result == (value in collection)'])
    c('in_', name='collections.in_/seq', params=dict(value=TVal,
                                                     collection=TSeq(TVal)),
      ensures=['result == exists(range(0, len(collection)), lambda k: '
               'collection[k] == value)'])
    c('contains', name='collections.contains/seq',
      params=dict(collection=TSeq(TVal), value=TVal),
      ensures=['result == exists(range(0, len(collection)), lambda k: '
               'collection[k] == value)'])
    # ---- dicts: access -----------------------------------------------------
    MAP = TMap(TVal, TVal)
    MMAP = TMap(TVal, TVal)
    MMAP.mutable = True         # a dict the function could write
    for fn in ('dict_keyword_access', 'dict_indexer'):
        c(fn, params=dict(d=MAP, key=TVal),
          raises={'KeyError': 'not (key in d)'},
          ensures=['key in d', 'result == d[key]'])
    c('dict_indexer_with_default', params=dict(d=MAP, key=TVal,
                                               default=TVal),
      ensures=['result == (d[key] if key in d else default)'])
    c('dict_get', params=dict(d=MAP, key=TVal, default=TVal),
      ensures=['result == (d[key] if key in d else default)'])
    c('dict_get', name='collections.dict_get/default',
      params=dict(d=MAP, key=TVal),
      ensures=['implies(key in d, result == d[key])',
               'implies(not (key in d), result is None)'])
    c('contains_key', params=dict(d=MAP, key=TVal),
      ensures=['result == (key in d)'])
    c('list_indexer', params=dict(lst=TSeq(TVal), index=TInt),
      raises={'IndexError': 'index >= len(lst) or index < -len(lst)'},
      ensures=['-len(lst) <= index and index < len(lst)',
               'result == lst[index if index >= 0 else index + len(lst)]'])
    c('sequence_len', params=dict(sequence=TSeq(TVal)),
      ensures=['result == len(sequence)'])
    # ---- type predicates --------------------------------------------------
    c('is_dict', params=dict(arg=TVal),
      ensures=['result == isinstance(arg, "Mapping")'])
    c('is_set', params=dict(arg=TVal),
      ensures=['result == isinstance(arg, "Set")'])
    c('is_list', params=dict(arg=TVal),
      ensures=['result == (isinstance(arg, "Sequence") and not '
               'isinstance(arg, "str"))'])
    # ---- [..] literal -----------------------------------------------------
    c('build_list', params=dict(engine=TVal, args=tuple_of(TVal, 3)),
      ensures=['result == args'])
    c('int_by_list', params=dict(left=TInt, right=TVal, engine=TVal),
      ensures=['len(calls) == 1 and calls[0][0] == '
               '"contract:collections.list_by_int" and calls[0][1][0] == '
               'right and calls[0][1][1] == left and calls[0][1][2] == '
               'engine and result == calls[0][2]'])
    # ---- dicts: persistent update (a NEW frozen mapping; the operands are
    # not written; later pairs win) ----------------------------------------
    FZ = 'isinstance(result, "FrozenDict")'
    c('dict_set', params=dict(engine=TVal, d=MAP, key=TVal, value=TVal,
                              x=TVal),
      ensures=[FZ, '(x in result._d) == ((x in d) or x == key)',
               'implies(x in result._d, result._d[x] == '
               '(value if x == key else d[x]))',
               '(x in d) == (x in old_d) and implies(x in d, d[x] == '
               'old_d[x])'])
    c('dict_set_many', params=dict(engine=TVal, d=MAP, replacements=MAP,
                                   x=TVal),
      ensures=[FZ, '(x in result._d) == ((x in d) or (x in replacements))',
               'implies(x in result._d, result._d[x] == (replacements[x] '
               'if x in replacements else d[x]))'])
    rule = obj('yaql.language.utils.MappingRule', source=TVal,
               destination=TVal)

    class rules_of:
        is_factory = True

        def __init__(self, n):
            self.n = n

        def __call__(self, name, path):
            return tuple(rule('%s%d' % (name, i), path)
                         for i in range(self.n))
    LAST2 = ('(args[1].destination if x == args[1].source else '
             'args[0].destination)')
    c('dict_set_many_inline', params=dict(engine=TVal, d=MAP,
                                          args=rules_of(2), x=TVal),
      ensures=[FZ, '(x in result._d) == ((x in d) or x == args[0].source '
               'or x == args[1].source)',
               'implies(x in result._d, result._d[x] == (%s if (x == '
               'args[0].source or x == args[1].source) else d[x]))' % LAST2])
    c('dict_', params=dict(engine=TVal, args=rules_of(2), x=TVal),
      ensures=[FZ, '(x in result._d) == (x == args[0].source or x == '
               'args[1].source)',
               'implies(x in result._d, result._d[x] == %s)' % LAST2])
    c('combine_dicts', params=dict(left=MAP, right=MAP, engine=TVal,
                                   x=TVal),
      ensures=[FZ, '(x in result._d) == ((x in left) or (x in right))',
               'implies(x in result._d, result._d[x] == (right[x] if x in '
               'right else left[x]))',
               '(x in left) == (x in old_left) and implies(x in left, '
               'left[x] == old_left[x])'])
    # delete: a copy without the given keys; the operand keeps them
    for n in (0, 1, 2):
        gone = ' or '.join('x == keys[%d]' % i for i in range(n)) or 'False'
        for fn in ('delete_keys_seq', 'delete_keys'):
            c(fn, name='collections.%s/%d' % (fn, n),
              params=dict(d=MMAP, keys=tuple_of(TVal, n), x=TVal),
              ensures=['result is not d', 'isinstance(result, "FrozenDict")',
                       '(x in result) == ((x in OLD_d) and not (%s))' % gone,
                       'implies(x in result, result[x] == OLD_d[x])',
                       # the (possibly host-owned, mutable) operand is intact
                       '(x in d) == (x in OLD_d) and implies(x in d, d[x] '
                       '== OLD_d[x])'])
    return cs


def setup_byint(world):
    setup(world)
    world.callee_contract(C + 'list_by_int')
