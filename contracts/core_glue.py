"""Contracts for the small glue functions between host API, parser and
evaluator (factory.YaqlEngine, yaql.eval, expressions.Statement)."""
from vlib.pyvc.verify import Contract
from vlib.pyvc.sym import TInt, TBool, TStr, TVal, TSeq, TOpt
from contracts._util import obj, mapcell
from vlib.pyvc.sym import Opaque

NV = Opaque('NO_VALUE')

F = 'yaql.language.factory.'


def setup(world):
    world.opaque_globals[('yaql.language.utils', 'NO_VALUE')] = NV
    world.callee_contract('yaql.language.utils.convert_input_data')
    world.opaque_sig('register_function', log=True)
    world.opaque_sig('collect_functions', log=True)
    world.opaque_sig('clone', log=True)
    world.opaque_sig('parse', log=True)
    world.opaque_sig('create_child_context', log=True)
    world.opaque_sig('evaluate', log=True)
    world.opaque_sig('create', log=True)
    world.opaque_sig('get', log=False)
    world.opaque_ctor('Statement')
    world.opaque_ctor('YaqlFactory')


def contracts():
    cs = []
    engine = obj('yaql.language.factory.YaqlEngine', _lexer=TVal,
                 _parser=TVal, _options=TVal, _factory=TVal)
    # C01 obligation 7: every parse gets a private lexer (a clone of the
    # engine-wide one), the text itself, and nothing of the engine is written
    cs.append(Contract(
        F + 'YaqlEngine.__call__', name='factory.YaqlEngine.__call__',
        params=dict(self=engine, expression=TStr),
        ensures=[
            'len(calls) == 3',
            'implies(len(calls) == 3, calls[0][0] == "m.clone" and '
            'calls[0][1][0] == self._lexer)',
            'implies(len(calls) == 3, calls[1][0] == "m.parse$lexer" and '
            'calls[1][1][0] == self._parser and calls[1][1][1] == expression '
            'and calls[1][1][2] == calls[0][2])',
            'implies(len(calls) == 3, calls[2][0] == "new:Statement" and '
            'calls[2][1][0] == calls[1][2] and calls[2][1][1] == val(self) '
            'and result == calls[2][2])',
        ],
        serves=('C01',), native=False))
    # yaql.eval: the parse cache is keyed by the exact text, the evaluation
    # runs in a fresh child of the shared default context
    cs.append(Contract(
        'yaql.eval', name='yaql.eval/warm',
        params=dict(expression=TStr, data=TVal),
        env={'global:_cached_engine': _tv('engine'),
             'global:_cached_expressions': mapcell(),
             'global:_default_context': _tv('defctx')},
        requires=['G__cached_engine is not None',
                  'G__default_context is not None',
                  'forall(Str, lambda k: implies(k in G__cached_expressions, '
                  'G__cached_expressions[k] is not None))'],
        ensures=[
            # cached: no parse; otherwise parse exactly `expression` and store
            # it under exactly `expression`
            'implies(expression in OLD__cached_expressions, len(calls) == 2 and '
            'calls[1][1][0] == OLD__cached_expressions[expression])',
            'implies(not (expression in OLD__cached_expressions), len(calls) == 3 and '
            'calls[0][0] == "call" and calls[0][1][0] == G__cached_engine and calls[0][1][1] == expression '
            'and NEW__cached_expressions[expression] == calls[0][2] and '
            'calls[2][1][0] == calls[0][2])',
            'forall(Str, lambda k: implies(k != expression, '
            '(k in NEW__cached_expressions) == (k in OLD__cached_expressions) and '
            'implies(k in OLD__cached_expressions, '
            'NEW__cached_expressions[k] == OLD__cached_expressions[k])))',
            # evaluation in a fresh child of the default context, with data
            'calls[-2][0] == "m.create_child_context" and '
            'calls[-2][1][0] == G__default_context',
            'calls[-1][0] == "m.evaluate$context$data"',
            'calls[-1][1][1] == calls[-2][2] and calls[-1][1][2] == data',
            'result == calls[-1][2]',
        ],
        serves=('C01', 'C18'), native=False))
    # the host document is bound to `$` whatever its truth value
    cs.append(Contract(
        'yaql._setup_context', name='yaql._setup_context',
        params=dict(data=TVal, context=TVal, finalizer=TVal,
                    convention=TVal),
        env={'NV': NV},
        requires=['context is not None', 'finalizer is not None'],
        ensures=[
            'result == context',
            'implies(data is NV, len([e for e in calls '
            'if e[0] == "setitem"]) == 0)',
            'implies(data is not NV, len(calls) == 3 and calls[1][0] == '
            '"contract:utils.convert_input_data" and calls[1][1][0] == data '
            'and calls[2][0] == "setitem" and calls[2][1][0] == context and '
            'calls[2][1][1] == "$" and calls[2][1][2] == calls[1][2])'],
        serves=('C10', 'C09'), native=False))
    for conv in (True, False):
        stmt = obj('yaql.language.expressions.Statement', engine=_eng(conv),
                   expression=TVal, name='#finalize', args=(),
                   uses_receiver=False)
        cs.append(Contract(
            'yaql.language.expressions.Statement.evaluate',
            name='expressions.Statement.evaluate/convertInputData=%s' % conv,
            params=dict(self=stmt, data=TVal, context=TVal),
            env={'NV': NV, 'CONV': conv},
            requires=['context is not None', 'context is not NV',
                      'data is not NV'],
            ensures=[
                # `$` of the supplied context is the only thing written;
                # the data is deep-converted iff the option says so
                'len([e for e in calls if e[0] == "setitem"]) == 1',
                'all([e[1][0] == context and e[1][1] == "$" and '
                'e[1][2] == (calls[0][2] if CONV else data) '
                'for e in calls if e[0] == "setitem"])',
                'implies(CONV, calls[0][0] == '
                '"contract:utils.convert_input_data" and '
                'calls[0][1][0] == data)',
                'implies(not CONV, len([e for e in calls if e[0] == '
                '"contract:utils.convert_input_data"]) == 0)'],
            serves=('C09', 'C10'), native=False, note=str(conv)))
    return cs


class _eng:
    is_factory = True

    def __init__(self, flag):
        self.flag = flag

    def __call__(self, name, path):
        from contracts.utils import engine_with
        return engine_with(**{'yaql.convertInputData': self.flag})(name, path)


class _tv:
    is_factory = True

    def __init__(self, base):
        self.base = base

    def __call__(self, name, path):
        return TVal.fresh(self.base)
