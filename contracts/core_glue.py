"""Contracts for the small glue functions between host API, parser and
evaluator (factory.YaqlEngine, yaql.eval, expressions.Statement)."""
from vlib.pyvc.verify import Contract
from vlib.pyvc.sym import TInt, TBool, TStr, TVal, TSeq, TOpt
from contracts._util import obj, mapcell, tuple_of
from vlib.pyvc.sym import Opaque

NV = Opaque('NO_VALUE')

F = 'yaql.language.factory.'


def setup(world):
    world.opaque_globals[('yaql.language.utils', 'NO_VALUE')] = NV
    world.callee_contract('yaql.language.utils.convert_input_data')
    world.callee_contract('yaql.language.utils.convert_output_data')
    world.opaque_sig('register_function', log=True)
    world.opaque_sig('collect_functions', log=True)
    world.opaque_sig('clone', log=True)
    world.opaque_sig('parse', log=True)
    world.opaque_sig('create_child_context', log=True)
    world.opaque_sig('evaluate', log=True)
    world.opaque_sig('create', log=True)
    world.opaque_sig('get', log=False)
    world.opaque_ctor('Statement')
    world.opaque_ctor('YaqlFactory')
    world.opaque_attr_default = True
    world.callee_contract('yaql.language.expressions.Function.__call__',
                          raises={'WrappedException': True})


def contracts():
    cs = []
    engine = obj('yaql.language.factory.YaqlEngine', _lexer=TVal,
                 _parser=TVal, _options=TVal, _factory=TVal)
    # C01 obligation 7: every parse gets a private lexer (a clone of the
    # engine-wide one), the text itself, and nothing of the engine is written
    cs.append(Contract(
        F + 'YaqlEngine.__call__', name='factory.YaqlEngine.__call__',
        params=dict(self=engine, expression=TStr),
        ensures=[
            'len(calls) == 3',
            'implies(len(calls) == 3, calls[0][0] == "m.clone" and '
            'calls[0][1][0] == self._lexer)',
            'implies(len(calls) == 3, calls[1][0] == "m.parse$lexer" and '
            'calls[1][1][0] == self._parser and calls[1][1][1] == expression '
            'and calls[1][1][2] == calls[0][2])',
            'implies(len(calls) == 3, calls[2][0] == "new:Statement" and '
            'calls[2][1][0] == calls[1][2] and calls[2][1][1] == val(self) '
            'and result == calls[2][2])',
        ],
        # (C18: yaql.eval and host callbacks parse on a shared engine WHILE
        # other threads evaluate - the private lexer is what makes that safe)
        serves=('C01', 'C18'), native=False))
    # the statement a parse returns belongs to the engine that was ASKED
    # (its options - limits, quotas, conversion switches - govern every
    # evaluation of it); a copy carries the merged options and shares
    # nothing mutable with the original
    cs.append(Contract(
        F + 'YaqlEngine.copy', name='factory.YaqlEngine.copy',
        params=dict(self=obj('yaql.language.factory.YaqlEngine', _lexer=TVal,
                             _parser=TVal, _options={'a': 1, 'b': 2},
                             _factory=TVal),
                    options={'b': 3, 'c': 4}),
        ensures=['result is not self',
                 'isinstance(result, "YaqlEngine")',
                 'result._lexer == self._lexer and result._parser == '
                 'self._parser and result._factory == self._factory',
                 'result._options._d == {"a": 1, "b": 3, "c": 4}',
                 'self._options == {"a": 1, "b": 2}'],
        serves=('C08', 'C01'), native=False))
    # yaql.eval: the parse cache is keyed by the exact text, the evaluation
    # runs in a fresh child of the shared default context
    cs.append(Contract(
        'yaql.eval', name='yaql.eval/warm',
        params=dict(expression=TStr, data=TVal),
        env={'global:_cached_engine': _tv('engine'),
             'global:_cached_expressions': mapcell(),
             'global:_default_context': _tv('defctx')},
        requires=['G__cached_engine is not None',
                  'G__default_context is not None',
                  'forall(Str, lambda k: implies(k in G__cached_expressions, '
                  'G__cached_expressions[k] is not None))'],
        ensures=[
            # cached: no parse; otherwise parse exactly `expression` and store
            # it under exactly `expression`
            'implies(expression in OLD__cached_expressions, len(calls) == 2 and '
            'calls[1][1][0] == OLD__cached_expressions[expression])',
            'implies(not (expression in OLD__cached_expressions), len(calls) == 3 and '
            'calls[0][0] == "call" and calls[0][1][0] == G__cached_engine and calls[0][1][1] == expression '
            'and NEW__cached_expressions[expression] == calls[0][2] and '
            'calls[2][1][0] == calls[0][2])',
            'forall(Str, lambda k: implies(k != expression, '
            '(k in NEW__cached_expressions) == (k in OLD__cached_expressions) and '
            'implies(k in OLD__cached_expressions, '
            'NEW__cached_expressions[k] == OLD__cached_expressions[k])))',
            # evaluation in a fresh child of the default context, with data
            'calls[-2][0] == "m.create_child_context" and '
            'calls[-2][1][0] == G__default_context',
            'calls[-1][0] == "m.evaluate$context$data"',
            'calls[-1][1][1] == calls[-2][2] and calls[-1][1][2] == data',
            'result == calls[-1][2]',
        ],
        serves=('C01', 'C18'), native=False))
    # the host document is bound to `$` whatever its truth value
    cs.append(Contract(
        'yaql._setup_context', name='yaql._setup_context',
        params=dict(data=TVal, context=TVal, finalizer=TVal,
                    convention=TVal),
        env={'NV': NV},
        requires=['context is not None', 'finalizer is not None'],
        ensures=[
            'result == context',
            'implies(data is NV, len([e for e in calls '
            'if e[0] == "setitem"]) == 0)',
            'implies(data is not NV, len(calls) == 3 and calls[1][0] == '
            '"contract:utils.convert_input_data" and calls[1][1][0] == data '
            'and calls[2][0] == "setitem" and calls[2][1][0] == context and '
            'calls[2][1][1] == "$" and calls[2][1][2] == calls[1][2])'],
        serves=('C10', 'C09'), native=False))
    for conv in (True, False):
        stmt = obj('yaql.language.expressions.Statement', engine=_eng(conv),
                   expression=TVal, name='#finalize', args=(),
                   uses_receiver=False)
        cs.append(Contract(
            'yaql.language.expressions.Statement.evaluate',
            name='expressions.Statement.evaluate/convertInputData=%s' % conv,
            params=dict(self=stmt, data=TVal, context=TVal),
            env={'NV': NV, 'CONV': conv},
            requires=['context is not None', 'context is not NV',
                      'data is not NV'],
            ensures=[
                # `$` of the supplied context is the only thing written;
                # the data is deep-converted iff the option says so
                'len([e for e in calls if e[0] == "setitem"]) == 1',
                'all([e[1][0] == context and e[1][1] == "$" and '
                'e[1][2] == (calls[0][2] if CONV else data) '
                'for e in calls if e[0] == "setitem"])',
                'implies(CONV, calls[0][0] == '
                '"contract:utils.convert_input_data" and '
                'calls[0][1][0] == data)',
                'implies(not CONV, len([e for e in calls if e[0] == '
                '"contract:utils.convert_input_data"]) == 0)'],
            # evaluation errors of the expression propagate to the host
            raises={'Exception': 'True'},
            serves=('C09', 'C10'), native=False, note=str(conv)))
    # Statement.__call__: whether an identity '#finalize' is installed is
    # decided per call from the context of THAT call (never remembered on
    # the statement), and only in a fresh child; the body is then dispatched
    # as the '#finalize' function of that context
    stmt = obj('yaql.language.expressions.Statement', engine=TVal,
               expression=TVal, name='#finalize', args=tuple_of(TVal, 1),
               uses_receiver=False)
    FC = 'contract:Function.__call__'
    cs.append(Contract(
        'yaql.language.expressions.Statement.__call__',
        name='expressions.Statement.__call__',
        params=dict(self=stmt, receiver=TVal, context=TVal, engine=TVal),
        ensures=[
            'calls[0][0] == "m.collect_functions" and calls[0][1][0] == '
            'context and calls[0][1][1] == "#finalize"',
            # a finalizer is present: evaluate in the given context
            'implies(truthy(calls[0][2]), len(calls) == 2 and '
            'calls[1][0] == "%s" and calls[1][1][0] == val(self) and '
            'calls[1][1][2] == context)' % FC,
            # none: identity finalizer in a fresh child, evaluate there
            'implies(not truthy(calls[0][2]), len(calls) == 4 and '
            'calls[1][0] == "m.create_child_context" and calls[1][1][0] == '
            'context and calls[2][0] == "m.register_function$name" and '
            'calls[2][1][0] == calls[1][2] and calls[2][1][2] == '
            '"#finalize" and calls[3][0] == "%s" and calls[3][1][2] == '
            'calls[1][2])' % FC,
            'calls[-1][1][1] == receiver and calls[-1][1][3] == engine and '
            'result == calls[-1][2]'],
        raises={'Exception': 'True'},
        serves=('C09', 'C10'), native=False))
    return cs


def setup_yi_inline(world):
    """YaqlInterface.__call__ with no extra arguments: convert_input_data is
    inlined (its real body on the empty tuple / dict)."""
    world.opaque_globals[('yaql.language.utils', 'NO_VALUE')] = NV
    world.callee_contract('yaql.language.utils.convert_output_data')
    for nm in ('create_child_context', 'evaluate'):
        world.opaque_sig(nm, log=True)


def yi_contracts():
    """-> [(contract, world_setup)]"""
    cs = []
    # YaqlInterface: whatever a call through the interface returns - the
    # yi(expr) form and the yi.name(...) / yi.on(x).name(...) stub - goes
    # through convert_output_data exactly once, unconditionally, with the
    # context's '#iter' limiter, and THAT is what the host receives
    yi = obj('yaql.yaql_interface.YaqlInterface', __context=TVal,
             __engine=TVal, __sender=TVal)
    CO = 'contract:utils.convert_output_data'
    cs.append(Contract(
        'yaql.yaql_interface.YaqlInterface.__getattr__.<locals>.stub',
        name='YaqlInterface.stub',
        params=dict(args=TVal, kwargs=TVal),
        env=dict(self=yi, item=_ts('item')),
        ensures=[
            'len([e for e in calls if e[0] == "%s"]) == 1' % CO,
            'calls[-1][0] == "%s" and result == calls[-1][2]' % CO,
            # what is converted is the result of calling function `item`
            # resolved in the interface's context with its engine / sender
            'calls[-1][1][0] == calls[-2][2] and calls[-2][0] == '
            '"call$**" and calls[-2][1][0] == calls[-3][2]',
            'calls[-3][0] == "call" and calls[-3][1][0] == self.__context '
            'and calls[-3][1][1] == item and calls[-3][1][2] == '
            'self.__engine and calls[-3][1][3] == self.__sender',
            'calls[-1][1][2] == self.__engine',
            'sum([ite(e[2] == calls[-1][1][1] and e[1][0] == self.__context '
            'and e[1][1] == "#iter", 1, 0) for e in calls '
            'if e[0] == "call" and len(e[1]) == 3]) == 1'],
        serves=('C10',), native=False))
    cs.append(Contract(
        'yaql.yaql_interface.YaqlInterface.__call__',
        name='YaqlInterface.__call__',
        params={'self': yi, '__expression': TStr, 'args': (), 'kwargs': {}},
        ensures=[
            'len([e for e in calls if e[0] == "%s"]) == 1' % CO,
            'calls[-1][0] == "%s" and result == calls[-1][2]' % CO,
            'len([e for e in calls if e[0] == "m.evaluate$context"]) == 1',
            'all([calls[-1][1][0] == e[2] and e[1][1] == calls[0][2] '
            'for e in calls if e[0] == "m.evaluate$context"])',
            'calls[0][0] == "m.create_child_context" and calls[0][1][0] == '
            'self.__context',
            'calls[-1][1][2] == self.__engine'],
        serves=('C10',), native=False))
    return [(cs[0], setup), (cs[1], setup_yi_inline)]


class _ts:
    is_factory = True

    def __init__(self, base):
        self.base = base

    def __call__(self, name, path):
        from vlib.pyvc.verify import make_param
        return make_param(self.base, TStr, path)


class _eng:
    is_factory = True

    def __init__(self, flag):
        self.flag = flag

    def __call__(self, name, path):
        from contracts.utils import engine_with
        return engine_with(**{'yaql.convertInputData': self.flag})(name, path)


class _tv:
    is_factory = True

    def __init__(self, base):
        self.base = base

    def __call__(self, name, path):
        return TVal.fresh(self.base)
