"""Sidecar contracts for yaql/standard_library/yaqlized.py (C07): the
name policy and the dominance of every host access by it."""
from vlib.pyvc.verify import Contract
from vlib.pyvc.sym import (TInt, TBool, TStr, TVal, TSeq, TOpt, TFunc)
from contracts._util import obj, tuple_of

Z = 'yaql.standard_library.yaqlized.'
MATCH = 'ufn("yz.match", %s, %s, ret="Bool")'


def setup(world):
    from vlib.pyvc import models

    def mod_attr(recv, it):
        return models.apply_uf('a.__module__', (recv,), 'Val')
    world.opaque_attrs['__module__'] = mod_attr

    def model_attr(o, name, it):
        from vlib.pyvc.interp import Model
        if isinstance(o, Model) and name == '__module__':
            return 'builtins'
        return NotImplemented
    world.attr_models.append(model_attr)
    for nm in ('search', 'match', 'fullmatch'):
        world.opaque_sig(nm, log=True)
    world.opaque_sig('get', log=False)


def setup_validate(world):
    setup(world)
    world.callee_contract(
        Z + '_match_name_to_entry', result=TBool,
        ensures=['result == ' + MATCH % ('name', 'entry')])


def setup_sinks(world):
    setup(world)
    world.callee_contract(Z + '_validate_name', result=TVal)
    world.callee_contract(Z + '_auto_yaqlize', result=TVal)
    world.callee_contract('yaql.yaqlization.get_yaqlization_settings',
                          result=TVal, ensures=['result is not None'])
    world.callee_contract('yaql.yaqlization.yaqlize', result=TVal,
                          raises={'AttributeError': True})


def setup_sinks_opdot(world):
    setup_sinks(world)
    # ASSUMED (host configuration domain, yaqlization.yaqlize docstring): a
    # value of attributeRemapping is a name or a (name, argument-mapping)
    # pair - in particular not a class object (len() of which raises)
    world.callee_contract(Z + '_remap_name', result=TVal,
                          ensures=['not isinstance(result, "type")'])


class settings_of:
    is_factory = True

    def __call__(self, name, path):
        from vlib.pyvc.verify import make_param
        return {'whitelist': make_param('W', TSeq(TVal), path),
                'blacklist': make_param('B', TSeq(TVal), path),
                'attributeRemapping': make_param('remap', TVal, path)}


def contracts():
    cs = []
    # ---- the matching predicate ------------------------------------------
    cs.append(Contract(
        Z + '_match_name_to_entry', params=dict(name=TStr, entry=TVal),
        ensures=[
            # equal string, or regex SEARCH (anywhere in the name), or
            # predicate - and nothing else
            'implies(val(name) == entry, result is True)',
            'implies(val(name) != entry and isinstance(entry, "REGEX_TYPE"), '
            'len(calls) == 1 and calls[0][0] == "m.search" and '
            'calls[0][1][0] == entry and calls[0][1][1] == name and '
            'result == (calls[0][2] is not None))',
            'implies(val(name) != entry and not isinstance(entry, '
            '"REGEX_TYPE") and callable(entry), len(calls) == 1 and '
            'calls[0][0] == "call" and calls[0][1][0] == entry and '
            'calls[0][1][1] == name and result == calls[0][2])',
            'implies(val(name) != entry and not isinstance(entry, '
            '"REGEX_TYPE") and not callable(entry), result is False)'],
        serves=('C07',), native=False))
    # ---- the policy ----------------------------------------------------------
    W = 'settings["whitelist"]'
    B = 'settings["blacklist"]'
    allowed = ('(not name.startswith("_") and ((len(%s) > 0 and exists('
               'range(0, len(%s)), lambda j: %s)) or (len(%s) == 0 and not '
               'exists(range(0, len(%s)), lambda j: %s))))' % (
                   W, W, MATCH % ('name', W + '[j]'), W, B,
                   MATCH % ('name', B + '[j]')))
    for exc in ('AttributeError', 'KeyError'):
        cs.append(Contract(
            Z + '_validate_name', name='yaqlized._validate_name/' + exc,
            params=dict(name=TStr, settings=settings_of(),
                        exception_cls=_cls(exc)),
            raises={exc: 'not ' + allowed},
            ensures=[allowed],
            loops=[dict(anchor='for entry in whitelist', index='n',
                        invariant=['not exists(range(0, n), lambda j: %s)'
                                   % MATCH % ('name', W + '[j]')]),
                   dict(anchor='for entry in blacklist', index='n',
                        invariant=['not exists(range(0, n), lambda j: %s)'
                                   % MATCH % ('name', B + '[j]')])],
            serves=('C07',), native=False))
    # a name that is not a string (indexation takes ANY key: $[0], $[null],
    # $[true], $[1.5]) is never validated successfully: no member of the
    # host object is reachable through it
    for exc in ('AttributeError', 'KeyError'):
        cs.append(Contract(
            Z + '_validate_name', name='yaqlized._validate_name/non-str/'
            + exc, params=dict(name=TVal, settings=settings_of(),
                               exception_cls=_cls(exc)),
            requires=['name is None or isinstance(name, (bool, int, float))'],
            raises={'AttributeError': 'True', exc: 'True'},
            ensures=['False'], always_raises=True,
            serves=('C07',), native=False))
        # ... and when the key is itself a host object ($.a[$.b]) it is
        # refused WITHOUT being touched: no attribute of it is read, no
        # method of it is called (it was never yaqlized)
        cs.append(Contract(
            Z + '_validate_name', name='yaqlized._validate_name/host-key/'
            + exc, params=dict(name=TVal, settings=settings_of(),
                               exception_cls=_cls(exc)),
            requires=['not isinstance(name, "str")'],
            raises={exc: 'len(calls) == 0'},
            ensures=['False'], always_raises=True,
            serves=('C07',), native=False))
    return cs


def sink_contracts():
    """Each host access is dominated by _validate_name on the expression-
    side name and uses the remapped name; results are auto-yaqlized as
    objects, never by widening their class."""
    cs = []
    cs.append(Contract(
        Z + 'attribution', params=dict(obj=TVal, attr=TStr),
        ensures=[
            'len(calls) == 5',
            'implies(len(calls) == 5, calls[0][0] == '
            '"contract:yaqlization.get_yaqlization_settings" and '
            'calls[0][1][0] == obj)',
            'implies(len(calls) == 5, calls[1][0] == '
            '"contract:yaqlized._validate_name" and calls[1][1][0] == attr '
            'and calls[1][1][1] == calls[0][2])',
            'implies(len(calls) == 5, calls[2][0] == "getitem" and '
            'calls[3][0] == "getattr" and calls[3][1][0] == obj and '
            'calls[3][1][1] == ufn("m.get", calls[2][2], attr, attr))',
            'implies(len(calls) == 5, calls[4][0] == '
            '"contract:yaqlized._auto_yaqlize" and calls[4][1][0] == '
            'calls[3][2] and result == calls[3][2])'],
        serves=('C07',), native=False))
    # the key has NO declared type: it is an arbitrary value (`$[0]`,
    # `$[null]`, `$[[1]]` ...), and validation must precede the host access
    # whatever it is
    cs.append(Contract(
        Z + 'indexation', params=dict(obj=TVal, key=TVal),
        ensures=[
            'len(calls) == 4',
            'implies(len(calls) == 4, calls[1][0] == '
            '"contract:yaqlized._validate_name" and calls[1][1][0] == key '
            'and calls[1][1][1] == calls[0][2] and calls[1][1][2].name == '
            '"KeyError")',
            'implies(len(calls) == 4, calls[2][0] == "getitem" and '
            'calls[2][1][0] == obj and calls[2][1][1] == key and result == '
            'calls[2][2])'],
        serves=('C07',), native=False))
    fexpr = obj('yaql.language.expressions.Function', name=TStr, args=(),
                uses_receiver=True)
    cs.append(Contract(
        Z + 'op_dot', params=dict(receiver=TVal, expr=fexpr, context=TVal,
                                  engine=TVal),
        ensures=[
            # the method is looked up on the host object only after the
            # expression-side name passed the policy, and is called once
            'len([e for e in calls if e[0] == "getattr"]) == 1',
            'all([e[1][0] == receiver for e in calls if e[0] == "getattr"])',
            'len([e for e in calls if e[0] == '
            '"contract:yaqlized._validate_name"]) == 1',
            'all([e[1][0] == expr.name and e[1][1] == calls[0][2] '
            'for e in calls if e[0] == "contract:yaqlized._validate_name"])',
            'all([all([i < j for j, g in enumerate(calls) '
            'if g[0] == "getattr"]) for i, e in enumerate(calls) '
            'if e[0] == "contract:yaqlized._validate_name"])',
            'all([e[1][0] == result for e in calls if e[0] == '
            '"contract:yaqlized._auto_yaqlize"])'],
        serves=('C07',), native=False))
    # operands of a host method call: evaluated once each, in written
    # order (positional before the keyword ones that follow them), all of
    # them BEFORE the method runs
    class cb:
        is_factory = True

        def __call__(self, name, path):
            f = TFunc(3).fresh(name)
            path.ghost[name] = f
            return f

    class expr2:
        is_factory = True

        def __call__(self, name, path):
            a0, a1 = cb()('A0', path), cb()('A1', path)
            kc = obj('yaql.language.expressions.KeywordConstant',
                     value='k', uses_receiver=False)('KC', path)
            mr = obj('yaql.language.expressions.MappingRuleExpression',
                     source=None, destination=None,
                     uses_receiver=False)('MR', path)
            mr.fields['source'] = kc
            mr.fields['destination'] = a1
            e = obj('yaql.language.expressions.Function', name=TStr,
                    args=None, uses_receiver=True)(name, path)
            e.fields['args'] = (a0, mr)
            return e
    EV = '[i for i, e in enumerate(calls) if e[0] == %s.name]'
    cs.append(Contract(
        Z + 'op_dot', name='yaqlized.op_dot/operands',
        params=dict(receiver=TVal, expr=expr2(), context=TVal, engine=TVal),
        # (a host-configured argument mapping may hand back an unhashable
        # keyword name: host configuration domain, not under contract)
        raises={'TypeError': 'True'},
        ensures=[
            'len(%s) == 1 and len(%s) == 1' % (EV % 'A0', EV % 'A1'),
            '%s[0] < %s[0]' % (EV % 'A0', EV % 'A1'),
            # the method itself is the last host event but for the
            # auto-yaqlization of its result
            'all([i > %s[0] for i, e in enumerate(calls) if '
            'e[0].startswith("call")])' % (EV % 'A1'),
            'len([e for e in calls if e[0].startswith("call")]) == 1'],
        serves=('C11', 'C07'), native=False))
    cs.append(Contract(
        Z + '_auto_yaqlize', params=dict(value=TVal, settings=TVal),
        ensures=[
            # at most one yaqlize call, and only ever of the VALUE itself
            'len([e for e in calls if e[0] == "contract:yaqlization.yaqlize"'
            ']) <= 1',
            'all([e[1][0] == value for e in calls if e[0] == '
            '"contract:yaqlization.yaqlize"])'],
        serves=('C07',), native=False))
    return cs


def yaqlize_contracts():
    """yaqlization.yaqlize: settings are attached ONCE - to something that
    has none yet, however it would come by them (its own, its class's, a base
    class's): auto-yaqlization of results relies on it not to replace the
    restrictions of an already yaqlized object with permissive defaults."""
    cs = []
    HAS = 'ufn("has___yaqlization__", something, ret="Bool")'
    SA = '[e for e in calls if e[0] == "setattr"]'
    BS = ('[e for e in calls if e[0] == '
          '"contract:yaqlization.build_yaqlization_settings"]')
    names = ['yaqlize_attributes', 'yaqlize_methods', 'yaqlize_indexer',
             'auto_yaqlize_result', 'whitelist', 'blacklist',
             'attribute_remapping']
    cs.append(Contract(
        'yaql.yaqlization.yaqlize.<locals>.func',
        name='yaqlization.yaqlize.func',
        params=dict(something=TVal),
        env={n: _tv(n) for n in names},
        ensures=['result is something',
                 'implies(%s, len(%s) == 0)' % (HAS, SA),
                 'implies(not %s, len(%s) == 1 and %s[0][1][0] == something '
                 'and %s[0][1][1] == "__yaqlization__" and len(%s) == 1 and '
                 '%s[0][1][2] == %s[0][2])' % (HAS, SA, SA, SA, BS, SA, BS)],
        serves=('C07',), native=False))
    return cs


class _tv:
    is_factory = True

    def __init__(self, base):
        self.base = base

    def __call__(self, name, path):
        return TVal.fresh(self.base)


def setup_yaqlize(world):
    setup(world)
    world.callee_contract('yaql.yaqlization.build_yaqlization_settings',
                          result=TVal)


def setup_settings(world):
    setup(world)
    world.symbolic_sets = True


def settings_contracts():
    """yaqlization.build_yaqlization_settings: the policy sets the access
    paths consult are exactly the host's lists, plus - unless switched off -
    the TARGET of every remapping, whether it is given as a plain name or
    as a (name, argument-mapping) pair: a remapped member is reachable
    under its alias only."""
    cs = []
    Y = 'yaql.yaqlization.'

    class remap_of:
        is_factory = True

        def __init__(self, kinds):
            self.kinds = kinds

        def __call__(self, name, path):
            from vlib.pyvc.verify import make_param
            d = {}
            for i, k in enumerate(self.kinds):
                t = make_param('T%d' % i, TStr, path)
                d['alias%d' % i] = t if k == 's' else (
                    t, make_param('M%d' % i, TVal, path))
            return d
    for kinds in ('', 's', 'p', 'sp', 'ps'):
        targets = ['attribute_remapping["alias%d"]%s' % (
            i, '' if k == 's' else '[0]') for i, k in enumerate(kinds)]
        for flag in (True, False):
            tg = targets if flag else []
            member = ' or '.join(['(truthy(blacklist) and x in blacklist)'] +
                                 ['x == val(%s)' % t for t in tg])
            cs.append(Contract(
                Y + 'build_yaqlization_settings',
                name='yaqlization.build_settings/%s/%s' % (
                    kinds or 'none', 'blacklist-targets' if flag else 'off'),
                params=dict(whitelist=TVal, blacklist=TVal,
                            attribute_remapping=remap_of(kinds) if kinds
                            else None,
                            blacklist_remapped_attributes=flag, x=TVal),
                requires=['whitelist is None or not isinstance(whitelist, '
                          '(bool, int, float, str))',
                          'blacklist is None or not isinstance(blacklist, '
                          '(bool, int, float, str))'],
                ensures=[
                    # for an arbitrary value x (ghost parameter)
                    '(x in result["blacklist"]) == (%s)' % member,
                    '(x in result["whitelist"]) == (truthy(whitelist) and '
                    'x in whitelist)',
                    'result["attributeRemapping"] == (attribute_remapping '
                    'if attribute_remapping else {})',
                    # snapshots taken NOW (sets of their own): a one-shot
                    # iterable handed in by the host is not what a later
                    # name check walks, and a later change of the host's
                    # list changes nothing
                    'isinstance(result["blacklist"], "Set") and '
                    'isinstance(result["whitelist"], "Set")'] + [
                    '%s in result["blacklist"]' % t for t in tg],
                serves=('C07',), native=False))
    return cs


class _cls:
    is_factory = True

    def __init__(self, name):
        self.name = name

    def __call__(self, name, path):
        from vlib.pyvc.interp import BUILTIN_EXC
        return BUILTIN_EXC[self.name]
