"""Sidecar contracts for yaql/language/utils.py and the convert() methods of
yaql/language/yaqltypes.py (C08, C10, C09)."""
import z3
from vlib.pyvc import sym as S
from vlib.pyvc import models
from vlib.pyvc.verify import Contract
from vlib.pyvc.sym import (TInt, TBool, TStr, TVal, TSeq, TOpt, TFunc, TIter,
                           SVal, SBool, SInt, Opaque)
from contracts._util import obj, tuple_of

U = 'yaql.language.utils.'
Y = 'yaql.language.yaqltypes.'
NV = Opaque('NO_VALUE')


class logged_identity:
    """Parameter factory: a callable that returns its argument and logs the
    call (model of the `#iter` limiter delegate: it yields what it is given
    or raises; the pass-through case is the one under contract)."""
    is_factory = True

    def __call__(self, name, path):
        from vlib.pyvc.interp import Model

        def fn(it, node, x):
            it.calls.append((name, (x,), x))
            return x
        return Model(name, fn, True)


class engine_with:
    is_factory = True

    def __init__(self, **options):
        self.options = options

    def __call__(self, name, path):
        return obj('yaql.language.factory.YaqlEngine',
                   _options=dict(self.options), _lexer=None, _parser=None,
                   _factory=None)(name, path)


def setup(world):
    world.opaque_globals[('yaql.language.utils', 'NO_VALUE')] = NV
    world.opaque_sig('items')
    world.opaque_sig('check', 'Bool')
    world.callee_contract('yaql.language.utils.limit_memory_usage')
    world.callee_contract('yaql.language.utils.limit_iterable',
                          ensures=['result is not None'])


REC = 'rec(%s, limit_func, engine, rec)'


def contracts():
    cs = []

    def c(target, **kw):
        kw.setdefault('native', False)
        x = Contract(target, **kw)
        cs.append(x)
        return x

    # ---- limit_iterable --------------------------------------------------
    c(U + 'limit_iterable', name='utils.limit_iterable/sized',
      params=dict(iterable=TSeq(TVal), limit_or_engine=TInt),
      raises={'CollectionTooLargeException':
              '0 <= limit_or_engine and limit_or_engine < len(iterable)'},
      ensures=['not (0 <= limit_or_engine and limit_or_engine < '
               'len(iterable))', 'result is iterable'],
      serves=('C08',))
    c(U + 'limit_iterable.<locals>.limiting_iterator',
      name='utils.limit_iterable/iterator',
      params={}, env=dict(iterable=_it('iterable'), max_count=_int('N')),
      raises={'CollectionTooLargeException':
              # raised exactly when item N is asked for: N items were
              # yielded and N + 1 pulled, never more
              '0 <= max_count and max_count < len(old_iterable.seq) and '
              'out == old_iterable.seq[:max_count] and '
              'iterable.pos == max_count + 1'},
      ensures=['not (0 <= max_count and max_count < len(old_iterable.seq))',
               'out == old_iterable.seq',
               'iterable.pos == len(old_iterable.seq)'],
      loops=[dict(anchor='for i, t in enumerate(iterable)', index='n',
                  invariant=['out == old_iterable.seq[:n]',
                             'implies(0 <= max_count, n <= max_count)'])],
      serves=('C08', 'C14'))
    # ---- limit_memory_usage ------------------------------------------------
    SZ = 'ufn("getsizeof", %s, ret="Int")'
    c(U + 'limit_memory_usage', name='utils.limit_memory_usage/1',
      params=dict(quota_or_engine=TInt, args=pairs(1)),
      raises={'MemoryQuotaExceededException':
              'quota_or_engine > 0 and args[0][0] * %s > quota_or_engine'
              % (SZ % 'args[0][1]')},
      ensures=['not (quota_or_engine > 0 and args[0][0] * %s > '
               'quota_or_engine)' % (SZ % 'args[0][1]'),
               # measuring is shallow: the value is never walked (it may be
               # a lazy or endless stream on its way to a function)
               'len([e for e in calls if e[0] in ("iter", "next")]) == 0'],
      serves=('C08', 'C14'))
    c(U + 'limit_memory_usage', name='utils.limit_memory_usage/2',
      params=dict(quota_or_engine=TInt, args=pairs(2)),
      raises={'MemoryQuotaExceededException':
              'quota_or_engine > 0 and (args[0][0] * %s > quota_or_engine or '
              'args[0][0] * %s + args[1][0] * %s > quota_or_engine)' % (
                  SZ % 'args[0][1]', SZ % 'args[0][1]', SZ % 'args[1][1]')},
      ensures=['not (quota_or_engine > 0 and (args[0][0] * %s > '
               'quota_or_engine or args[0][0] * %s + args[1][0] * %s > '
               'quota_or_engine))' % (SZ % 'args[0][1]', SZ % 'args[0][1]',
                                      SZ % 'args[1][1]')],
      serves=('C08',))
    # the yaql dict is a wrapper: what the quota sees of it (its own size)
    # covers its storage, so a dict grown step by step is bounded like a list
    c(U + 'FrozenDict.__sizeof__',
      params=dict(self=obj('yaql.language.utils.FrozenDict', _d=TVal,
                           _hash=TVal)),
      ensures=['result >= %s' % (SZ % 'self._d')], serves=('C08',),
      native=False)
    # equal yaql dicts hash alike whatever order their entries were written
    # in (they are set members and dict keys): two entries, both orders
    XOR = 'ufn("int.BitXor", %s, %s, ret="Int")'
    H0, H1 = 'hash((K0, V0))', 'hash((K1, V1))'
    c(U + 'FrozenDict.__hash__', name='utils.FrozenDict.__hash__/any-order',
      params=dict(self=fd_pair()),
      # bitwise xor on unbounded integers is uninterpreted in the encoding;
      # its algebra (T-int: commutative, associative, 0 neutral) is stated
      # (stated on the two pair hashes only - ground facts, so that a
      # violation still comes with a counter-model)
      requires=['%s == %s' % (XOR % (H0, H1), XOR % (H1, H0)),
                '%s == %s and %s == %s' % (XOR % ('0', H0), H0,
                                           XOR % ('0', H1), H1)],
      after='def after(h):\n    return (h, OTHER.__hash__())\n',
      ensures=['result[0] == result[1]'], serves=('C13', 'C04'),
      native=False)
    # ---- convert_output_data (C10 / C08): every container level is rebuilt
    # fresh, through the limiter, keys AND values / elements recursively ----
    for tl in (True, False):
        for sl in (True, False):
            eng = engine_with(**{'yaql.convertTuplesToLists': tl,
                                 'yaql.convertSetsToLists': sl})
            tag = 'tuples=%s,sets=%s' % (tl, sl)
            base = dict(limit_func=logged_identity(), engine=eng,
                        rec=TFunc(4))
            HK = ['ufn("py.hashable", %s, ret="Bool")' % (REC % k)
                  for k in ('K0', 'K1')]
            if tl and sl:
                # known finding (C10): without the carve-out below the
                # finaliser raises TypeError for container keys
                c(U + 'convert_output_data',
                  name='utils.convert_output_data/mapping/any-key',
                  params=dict(obj=dict2(), **base), ensures=[],
                  serves=('C10-probe',))
            c(U + 'convert_output_data', name='utils.convert_output_data/'
              'mapping/' + tag,
              params=dict(obj=dict2(), **base),
              # carve-out: keys whose conversion is hashable (i.e. not
              # containers, which become lists)
              requires=HK,
              ensures=[
                  'type(result) is dict and result is not obj',
                  'len([e for e in calls if e[0] == "limit_func"]) == 1',
                  'result == {%s: %s, %s: %s}' % (
                      REC % 'K0', REC % 'V0', REC % 'K1', REC % 'V1')],
              serves=('C10', 'C08', 'C09'))
            for kind, mk in (('tuple', tuple_of(TVal, 2)),
                             ('list', list_of(2))):
                plain = 'list' if (tl or kind == 'list') else 'tuple'
                exp = ('[%s, %s]' if plain == 'list' else '(%s, %s)') % (
                    REC % 'obj[0]', REC % 'obj[1]')
                c(U + 'convert_output_data',
                  name='utils.convert_output_data/%s/%s' % (kind, tag),
                  params=dict(obj=mk, **base),
                  ensures=['type(result) is %s and result is not obj' % plain,
                           'len([e for e in calls if e[0] == "limit_func"])'
                           ' == 1', 'result == ' + exp],
                  serves=('C10', 'C08', 'C09'))
            if not sl and tl:
                c(U + 'convert_output_data',
                  name='utils.convert_output_data/set/any-member',
                  params=dict(obj=fset1(), **base), ensures=[],
                  serves=('C10-probe',))
            # a frozenset (converted input) and a mutable host set (input
            # conversion off): both are rebuilt - the result never IS the
            # object that came in (C09: no aliasing of host data)
            for skind, mk in (('set', fset1()), ('mutable-set', fset1(set))):
                c(U + 'convert_output_data',
                  name='utils.convert_output_data/%s/%s' % (skind, tag),
                  params=dict(obj=mk, **base),
                  requires=[] if sl else [
                      'ufn("py.hashable", %s, ret="Bool")' % (REC % 'E0')],
                  ensures=['type(result) is %s' % ('list' if sl else 'set'),
                           'result is not obj',
                           'len(result) == 1',
                           'len([e for e in calls if e[0] == "limit_func"])'
                           ' == 1',
                           'all([x == %s for x in result])' % (REC % 'E0')],
                  serves=('C10', 'C08', 'C09'))
            c(U + 'convert_output_data',
              name='utils.convert_output_data/iterator/' + tag,
              params=dict(obj=TIter(TVal), **base),
              ensures=['type(result) is list',
                       'len(result) == len(old_obj.seq)',
                       'forall(range(0, len(result)), lambda k: result[k] '
                       '== %s)' % (REC % 'old_obj.seq[k]')],
              serves=('C10', 'C08'))
            c(U + 'convert_output_data',
              name='utils.convert_output_data/scalar/' + tag,
              params=dict(obj=TVal, **base),
              requires=['not isinstance(obj, "Mapping")',
                        'not isinstance(obj, "Set")',
                        'not isinstance(obj, "tuple")',
                        'not isinstance(obj, "list")',
                        'not isinstance(obj, "Iterable") or '
                        'isinstance(obj, "str")'],
              ensures=['result == obj', 'len(calls) == 0'],
              serves=('C10',))
    return cs


class _it:
    is_factory = True

    def __init__(self, base):
        self.base = base

    def __call__(self, name, path):
        from vlib.pyvc.verify import make_param
        return make_param(name, TIter(TVal), path)


class _int:
    is_factory = True

    def __init__(self, base):
        self.base = base

    def __call__(self, name, path):
        from vlib.pyvc.verify import make_param
        return make_param(name, TInt, path)


class pairs:
    is_factory = True

    def __init__(self, n):
        self.n = n

    def __call__(self, name, path):
        out = []
        for i in range(self.n):
            cnt = TInt.fresh('count%d' % i)
            path.symbols['count%d' % i] = cnt.t
            out.append((cnt, TVal.fresh('sample%d' % i)))
        return tuple(out)


class dict2:
    """A mapping with two opaque entries; ghost names K0,V0,K1,V1."""
    is_factory = True

    def __call__(self, name, path):
        k0, v0, k1, v1 = (TVal.fresh(n) for n in ('K0', 'V0', 'K1', 'V1'))
        path.ghost.update(K0=k0, V0=v0, K1=k1, V1=v1)
        return {k0: v0, k1: v1}


class fd_pair:
    """A FrozenDict with two opaque entries; ghost OTHER: an equal
    FrozenDict whose entries were written in the opposite order."""
    is_factory = True

    def __call__(self, name, path):
        k0, v0, k1, v1 = (TVal.fresh(n) for n in ('K0', 'V0', 'K1', 'V1'))
        path.ghost.update(K0=k0, V0=v0, K1=k1, V1=v1)
        mk = obj('yaql.language.utils.FrozenDict', _d=None, _hash=None)
        a, b = mk(name, path), mk('OTHER', path)
        a.fields['_d'] = {k0: v0, k1: v1}
        b.fields['_d'] = {k1: v1, k0: v0}
        path.ghost['OTHER'] = b
        return a


class fset1:
    is_factory = True

    def __init__(self, kind=frozenset):
        self.kind = kind

    def __call__(self, name, path):
        e = TVal.fresh('E0')
        path.ghost.update(E0=e)
        return self.kind([e])


class list_of:
    is_factory = True

    def __init__(self, n):
        self.n = n

    def __call__(self, name, path):
        return [TVal.fresh('%s%d' % (name, i)) for i in range(self.n)]


def setup_input(world):
    setup(world)
    world.callee_contract(U + 'convert_input_data')
    world.recursive_contracts = True


def input_contracts():
    """convert_input_data, one level per kind, the recursive calls going to
    the function's own contract (structural induction): the induction is
    only valid when every nested call is convert_input_data ITSELF with the
    default recursion - a memoising / substituting wrapper in between makes
    the result depend on something other than the sub-document's value."""
    cs = []
    CI = '[e for e in calls if e[0] == "contract:utils.convert_input_data"]'
    SELF = 'ufn("isinst:convert_input_data", %s, ret="Bool")'

    def c(name, **kw):
        kw.setdefault('native', False)
        kw.setdefault('serves', ('C10', 'C09'))
        x = Contract(U + 'convert_input_data',
                     name='utils.convert_input_data/' + name, **kw)
        cs.append(x)
        return x
    nested = ('all([e[1][1] is None or e[1][1].name == '
              '"convert_input_data" for e in %s])' % CI)
    for kind, mk in (('tuple', tuple_of(TVal, 2)), ('list', list_of(2))):
        c(kind, params=dict(obj=mk),
          ensures=['type(result) is tuple', 'len(%s) == 2' % CI,
                   '%s[0][1][0] == obj[0] and %s[1][1][0] == obj[1]' % (
                       CI, CI),
                   'result == (%s[0][2], %s[1][2])' % (CI, CI), nested])
    c('mapping', params=dict(obj=dict2()),
      ensures=['isinstance(result, "FrozenDict")', 'len(%s) == 4' % CI,
               nested,
               '[e[1][0] for e in %s] == [K0, V0, K1, V1]' % CI])
    c('scalar', params=dict(obj=TVal),
      requires=['not isinstance(obj, "Sequence") or isinstance(obj, "str")',
                'not isinstance(obj, "Mapping")',
                'not isinstance(obj, "Set")',
                'not isinstance(obj, "Iterable") or isinstance(obj, "str")'],
      ensures=['result == obj', 'len(calls) == 0'])
    # a host iterable of no other kind (iterator, generator, view, deque):
    # handed on as a LAZY stream - nothing is pulled and no element is
    # converted before the expression asks for it (an endless or one-shot
    # host stream stays usable under yaql.limitIterators)
    c('iterable', params=dict(obj=TIter(TVal)),
      ensures=['obj.pos == 0', 'len(calls) == 0',
               'len(result.seq) == len(old_obj.seq)'],
      serves=('C14', 'C08', 'C10'))
    # ... the same for one that can be iterated again (a view, a deque): it
    # is not walked at conversion time either
    c('reiterable', params=dict(obj=TVal),
      requires=['isinstance(obj, "Iterable")',
                'not isinstance(obj, "Iterator")',
                'not isinstance(obj, "Sequence")',
                'not isinstance(obj, "Mapping")',
                'not isinstance(obj, "Set")', 'not isinstance(obj, "str")'],
      ensures=['len(calls) == 1', 'calls[0][0] == "map"',
               'calls[0][1][1] is obj'],
      serves=('C14', 'C08', 'C10'))
    return cs


def predicate_contracts():
    """The kind predicates every library function and the finaliser branch
    on: a string is never an iterable / sequence, a mapping is never an
    iterable (C08 lazy flows, C10 kinds, C13 flatten / selectMany)."""
    cs = []

    def c(fname, **kw):
        kw.setdefault('serves', ('C08', 'C10', 'C13', 'C14'))
        x = Contract(U + fname, **kw)
        x.native_scope = 3
        cs.append(x)
        return x
    c('is_iterator', params=dict(obj=TVal),
      ensures=['result == isinstance(obj, "Iterator")'])
    c('is_iterable', params=dict(obj=TVal),
      ensures=['result == (isinstance(obj, "Iterable") and not '
               'isinstance(obj, "str") and not isinstance(obj, "Mapping"))'])
    c('is_sequence', params=dict(obj=TVal),
      ensures=['result == (isinstance(obj, "Sequence") and not '
               'isinstance(obj, "str"))'])
    c('is_mutable', params=dict(obj=TVal),
      ensures=['result == (isinstance(obj, "MutableSequence") or '
               'isinstance(obj, "MutableSet") or isinstance(obj, '
               '"MutableMapping"))'])
    return cs


def prealloc_contracts():
    """Repetition refuses BEFORE allocating: normal return implies that the
    own size of the result fits the quota (T-size linear model)."""
    cs = []
    C = 'yaql.standard_library.collections.'
    ST = 'yaql.standard_library.strings.'

    class eng_q:
        is_factory = True

        def __call__(self, name, path):
            q = TInt.fresh('Q')
            path.symbols['Q'] = q.t
            path.ghost['Q'] = q
            return engine_with(**{'yaql.memoryQuota': q})(name, path)

    class seq_kind:
        is_factory = True

        def __init__(self, kind):
            self.kind = kind

        def __call__(self, name, path):
            from vlib.pyvc.verify import make_param
            v = make_param(name, TSeq(TVal), path)
            v.kind = self.kind
            return v
    for kind in ('tuple', 'list'):
        cs.append(Contract(
            C + 'list_by_int', name='collections.list_by_int/' + kind,
            params=dict(left=seq_kind(kind), right=TInt, engine=eng_q()),
            requires=['right >= 1'],
            raises={'MemoryQuotaExceededException': 'Q > 0'},
            ensures=['len(result) == len(left) * right',
                     'implies(Q > 0, sizeof(result) <= Q)'],
            serves=('C08', 'C15'), native=False))
    cs.append(Contract(
        ST + 'string_by_int', name='strings.string_by_int',
        params=dict(left=TStr, right=TInt, engine=eng_q()),
        requires=['right >= 1'],
        raises={'MemoryQuotaExceededException': 'Q > 0'},
        ensures=['len(result) == len(left) * right',
                 'implies(Q > 0, sizeof(result) <= Q)'],
        serves=('C08', 'C15'), native=False))
    return cs


def setup_prealloc(world):
    world.opaque_globals[('yaql.language.utils', 'NO_VALUE')] = NV
