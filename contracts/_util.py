"""Helpers shared by the sidecar contract modules."""
from vlib.pyvc import sym as S
from vlib.pyvc.sym import TVal, TStr, TInt, TBool
from vlib.pyvc.world import ObjVal, SMapCell, WriteLog


class obj:
    """Parameter factory: an instance of a repository class whose fields are
    given as type descriptors / values (concrete shape, symbolic content)."""
    is_factory = True

    def __init__(self, cls, **fields):
        self.cls, self.fields = cls, fields

    def __call__(self, name, path):
        from vlib.pyvc.verify import make_param
        world = obj.world
        if '.<locals>.' in self.cls:
            from vlib.pyvc.world import find_function
            target = self.cls
            parts = target.split('.')
            for i in range(len(parts) - 1, 0, -1):
                m = '.'.join(parts[:i])
                if world.is_repo_module(m):
                    mod = world.module(m)
                    node = find_function(mod, '.'.join(parts[i:]))
                    break
            cref = world.class_ref(mod, node)
        else:
            parts = self.cls.split('.')
            mod = world.module('.'.join(parts[:-1]))
            cref = world.class_ref(mod, mod.top[parts[-1]][-1])
        o = ObjVal(cref)
        for k, t in self.fields.items():
            o.fields[k] = make_param('%s.%s' % (name, k), t, path)
        return o


def _with(self, name, path, **fields):
    o = self(name, path)
    o.fields.update(fields)
    return o


obj._with = _with


class tuple_of:
    """Parameter factory: a concrete-arity tuple of fresh values of type t."""
    is_factory = True

    def __init__(self, t, n):
        self.t, self.n = t, n

    def __call__(self, name, path):
        out = []
        for i in range(self.n):
            v = self.t.fresh('%s%d' % (name, i))
            if hasattr(v, 't'):
                path.symbols['%s[%d]' % (name, i)] = v.t
            out.append(v)
        return tuple(out)


class mapcell:
    """Parameter factory: a mutable dict Str -> Val with symbolic content."""
    is_factory = True

    def __init__(self, key=TStr, val=TVal):
        self.key, self.val = key, val

    def __call__(self, name, path):
        return SMapCell(S.TMap(self.key, self.val).fresh(name))


class writelog:
    is_factory = True

    def __call__(self, name, path):
        return WriteLog()
