"""Sidecar contracts for yaql/standard_library/strings.py (C19, C15, C08).

Postconditions are written from the property statement / docstrings, as
Python expressions that are evaluated symbolically by pyvc and natively by
vlib.native (replay, bounded cross-check)."""
from vlib.pyvc.verify import Contract
from vlib.pyvc.sym import TInt, TBool, TStr, TVal, TSeq, TOpt, TFunc

M = 'yaql.standard_library.strings.'

# the property's domain for the index functions
DOM = ['-len(string) <= start', 'start <= len(string) + 2',
       '-2 <= length', 'length <= len(string) + 2']
S0 = '(start + len(string) if start < 0 else start)'


def contracts():
    cs = []

    def c(fname, **kw):
        kw.setdefault('serves', ('C19',))
        x = Contract(M + fname, **kw)
        cs.append(x)
        return x

    c('substring', params=dict(string=TStr, start=TInt, length=TInt),
      requires=DOM,
      ensures=['implies(length < 0, result == string[%s:])' % S0,
               'implies(length >= 0, result == string[%s:%s + length])' % (
                   S0, S0)])
    c('substring', name='strings.substring/default',
      params=dict(string=TStr, start=TInt),
      requires=DOM[:2], ensures=['result == string[%s:]' % S0])
    c('index_of', params=dict(string=TStr, sub=TStr, start=TInt),
      requires=DOM[:2],
      ensures=['result == string.find(sub, start)',
               'implies(result >= 0, string[result:result + len(sub)] == sub)',
               'result >= -1'])
    c('index_of', name='strings.index_of/default',
      params=dict(string=TStr, sub=TStr),
      ensures=['result == string.find(sub)'])
    c('index_of_', params=dict(string=TStr, sub=TStr, start=TInt,
                               length=TInt),
      requires=DOM,
      ensures=['result == string.find(sub, %s, (len(string) if length < 0 '
               'else %s + length))' % (S0, S0)])
    c('last_index_of', params=dict(string=TStr, sub=TStr, start=TInt),
      requires=DOM[:2], ensures=['result == string.rfind(sub, start)'])
    c('last_index_of', name='strings.last_index_of/default',
      params=dict(string=TStr, sub=TStr),
      ensures=['result == string.rfind(sub)'])
    c('last_index_of_', params=dict(string=TStr, sub=TStr, start=TInt,
                                    length=TInt),
      requires=DOM,
      ensures=['result == string.rfind(sub, %s, (len(string) if length < 0 '
               'else %s + length))' % (S0, S0)])
    c('norm', params=dict(string=TOpt(TStr), chars=TOpt(TStr)),
      ensures=['implies(string is None, result is None)',
               'implies(string is not None and string.strip(chars) == "", '
               'result is None)',
               'implies(string is not None and string.strip(chars) != "", '
               'result == string.strip(chars))'])
    c('is_empty', params=dict(string=TOpt(TStr), trim_spaces=TBool,
                              chars=TOpt(TStr)),
      ensures=['implies(string is None, result is True)',
               'implies(string is not None and trim_spaces, '
               'result == (string.strip(chars) == ""))',
               'implies(string is not None and not trim_spaces, '
               'result == (string == ""))'])
    c('is_empty', name='strings.is_empty/default',
      params=dict(string=TOpt(TStr)),
      ensures=['implies(string is None, result is True)',
               'implies(string is not None, '
               'result == (string.strip(None) == ""))'])
    c('str_', params=dict(value=TVal),
      ensures=['implies(value is None, result == "null")',
               'implies(value is True, result == "true")',
               'implies(value is False, result == "false")',
               'implies(value is not None and value is not True and value is'
               ' not False, result == str(value))'])
    c('to_upper', params=dict(string=TStr),
      ensures=['result == string.upper()'])
    c('to_lower', params=dict(string=TStr),
      ensures=['result == string.lower()'])
    c('len_', params=dict(string=TStr), ensures=['result == len(string)'])
    c('trim', params=dict(string=TStr, chars=TOpt(TStr)),
      ensures=['result == string.strip(chars)'])
    c('trim_left', params=dict(string=TStr, chars=TOpt(TStr)),
      ensures=['result == string.lstrip(chars)'])
    c('trim_right', params=dict(string=TStr, chars=TOpt(TStr)),
      ensures=['result == string.rstrip(chars)'])
    c('trim', name='strings.trim/default', params=dict(string=TStr),
      ensures=['result == string.strip(None)'])
    c('split', params=dict(string=TStr, separator=TOpt(TStr),
                           max_splits=TInt),
      requires=['separator is None or separator != ""'],
      ensures=['result == string.split(separator, max_splits)'])
    c('split', name='strings.split/default', params=dict(string=TStr),
      ensures=['result == string.split(None, -1)'])
    c('right_split', params=dict(string=TStr, separator=TOpt(TStr),
                                 max_splits=TInt),
      requires=['separator is None or separator != ""'],
      ensures=['result == string.rsplit(separator, max_splits)'])
    c('right_split', name='strings.right_split/default',
      params=dict(string=TStr),
      ensures=['result == string.rsplit(None, -1)'])
    c('replace', params=dict(string=TStr, old=TStr, new=TStr, count=TInt),
      ensures=['result == string.replace(old, new, count)'])
    c('replace', name='strings.replace/default',
      params=dict(string=TStr, old=TStr, new=TStr),
      ensures=['result == string.replace(old, new, -1)'])
    # replace with a dict: the pairs are applied ONE AFTER THE OTHER IN THE
    # MAPPING'S OWN ORDER (the docstring's examples depend on it), each with
    # the same count, keys and values through str()
    for n in (1, 2, 3):
        exp = 'string'
        for i in range(n):
            exp += '.replace(str_func(K%d), str_func(V%d), count)' % (i, i)
        c('replace_with_dict', name='strings.replace_with_dict/%d' % n,
          params=dict(string=TStr, str_func=_strf(), replacements=_dictn(n),
                      count=TInt),
          ensures=['result == ' + exp], native=False)
    c('in_', params=dict(left=TStr, right=TStr),
      ensures=['result == (left in right)'], serves=('C19', 'C15'))
    for nm, op in (('gt', '>'), ('lt', '<'), ('gte', '>='), ('lte', '<=')):
        c(nm, params=dict(left=TStr, right=TStr),
          ensures=['result == (left %s right)' % op], serves=('C15', 'C19'))
    c('to_char_array', params=dict(string=TStr),
      ensures=['len(result) == len(string)',
               'forall(range(0, len(string)), lambda k: result[k] == '
               'string[k:k + 1])'])
    c('starts_with', params=dict(string=TStr, prefixes=TSeq(TStr)),
      ensures=['result == exists(range(0, len(prefixes)), lambda k: '
               'string[:len(prefixes[k])] == prefixes[k])'],
      native=False)
    c('ends_with', params=dict(string=TStr, suffixes=TSeq(TStr)),
      ensures=['result == exists(range(0, len(suffixes)), lambda k: '
               'len(suffixes[k]) <= len(string) and string[len(string) - '
               'len(suffixes[k]):] == suffixes[k])'],
      native=False)
    for a in (0, 1, 2, 3):
        names = ['a%d' % i for i in range(a)]
        c('concat', name='strings.concat/%d' % a,
          params=dict(args=tuple_of(TStr, a)),
          ensures=['result == %s' % (' + '.join(['""'] + [
              'args[%d]' % i for i in range(a)]))], native=False)
    flags = ['digits', 'hexdigits', 'ascii_lowercase', 'ascii_uppercase',
             'ascii_letters', 'letters', 'octdigits', 'punctuation',
             'printable', 'lowercase', 'uppercase', 'whitespace']
    py = {'letters': 'ascii_letters', 'lowercase': 'ascii_lowercase',
          'uppercase': 'ascii_uppercase'}
    for f in flags:
        c('characters', name='strings.characters/%s' % f,
          params={f: TBool},
          ensures=['implies(not %s, len(result) == 0)' % f,
                   'implies(%s, set(result) == set(STRING.%s))' % (
                       f, py.get(f, f)),
                   'len(result) == len(set(result))'],
          env={'STRING': __import__('string')})
    return cs


class tuple_of:
    """Parameter factory: a concrete-arity tuple of fresh values of type t."""
    is_factory = True

    def __init__(self, t, n):
        self.t, self.n = t, n

    def __call__(self, name, path):
        out = []
        for i in range(self.n):
            v = self.t.fresh('%s%d' % (name, i))
            path.symbols['%s[%d]' % (name, i)] = v.t
            out.append(v)
        return tuple(out)


class _strf:
    """The injected `str` delegate: an uninterpreted function Str -> Str."""
    is_factory = True

    def __call__(self, name, path):
        import z3
        from vlib.pyvc.interp import Model
        from vlib.pyvc.sym import SStr
        f = z3.Function('delegate.str', z3.StringSort(), z3.StringSort())
        return Model(name, lambda x: SStr(f(TStr.unwrap(x))))


class _dictn:
    """A mapping with n string entries in a fixed iteration order; ghost
    names K0, V0, K1, V1 ..."""
    is_factory = True

    def __init__(self, n):
        self.n = n

    def __call__(self, name, path):
        d = {}
        for i in range(self.n):
            k, v = TStr.fresh('K%d' % i), TStr.fresh('V%d' % i)
            path.ghost['K%d' % i], path.ghost['V%d' % i] = k, v
            path.symbols['K%d' % i], path.symbols['V%d' % i] = k.t, v.t
            d[k] = v
        return d
