"""Sidecar contracts for yaql/language/specs.py (C05 binding rules, C12).

map_args / get_delegate are verified on a family of concrete signature and
call SHAPES with symbolic values, types and check() outcomes; the expected
binding is computed by the reference model below, written from the
documented rules (doc/source/extending_yaql.rst, "function resolution")."""
import itertools
import z3
from vlib.pyvc import sym as S
from vlib.pyvc import models
from vlib.pyvc.verify import Contract
from vlib.pyvc.sym import (TInt, TBool, TStr, TVal, TSeq, TOpt, TFunc, SVal,
                           SBool, Opaque)
from contracts._util import obj, tuple_of

M = 'yaql.language.specs.'
NV = Opaque('NO_VALUE')
ND = Opaque('NO_DEFAULT')


def setup(world):
    world.opaque_globals[('yaql.language.utils', 'NO_VALUE')] = NV
    world.opaque_globals[('yaql.language.specs', 'NO_DEFAULT')] = ND

    def check(recv, args, kw, it):
        # value_type.check(value, context, engine): uninterpreted outcome
        return SBool(models.uf('vt.check', S.Val, S.Val, z3.BoolSort())(
            recv.t, S.box_any(args[0])))
    world.opaque_sigs['check'] = check
    world.opaque_sig('convert', log=True)
    world.opaque_sig('create_child_context', log=True)

    def isinst(x, name, it):
        # smart-type objects: hidden-ness is a per-object flag
        if name == 'HiddenParameterType' and isinstance(x, SVal):
            return models.uf('vt.hidden', S.Val, z3.BoolSort())(x.t)
        return NotImplemented
    world.isinstance_hook = isinst


# ---------------------------------------------------------------- shapes ----

class P:
    def __init__(self, key, name=None, alias=None, position=None,
                 default=False, hidden=False):
        self.key, self.name = key, name or key
        self.alias, self.position = alias, position
        self.default, self.hidden = default, hidden

    @property
    def call_name(self):
        return self.alias or self.name


SIGNATURES = {
    'ab': [P('a', position=0), P('b', position=1, default=True)],
    'hab': [P('h', position=0, hidden=True), P('a', position=1),
            P('b', position=2, default=True)],
    'ahb': [P('a', position=0), P('h', position=1, hidden=True),
            P('b', position=2, default=True)],
    'a*': [P('a', position=0), P('*', name='rest', position=1)],
    'ak**': [P('a', position=0), P('k', default=True),
             P('**', name='kw')],
    'alias': [P('a', alias='aAlias', position=0),
              P('b', alias='bAlias', position=1, default=True)],
    'hhab': [P('h1', position=0, hidden=True), P('a', position=1),
             P('h2', position=2, hidden=True), P('b', position=3)],
}
V, SKIP = 'V', 'SKIP'       # a supplied value / an empty slot
CALLS = [
    ((), ()), ((V,), ()), ((V, V), ()), ((V, V, V), ()),
    ((SKIP, V), ()), ((V, SKIP), ()), ((V,), ('b',)), ((), ('a', 'b')),
    ((V,), ('a',)), ((V,), ('zz',)), ((), ('a',)), ((V, V), ('k',)),
    ((V,), ('bAlias',)), ((), ('aAlias', 'bAlias')), ((V,), ('b', 'zz')),
    ((V, SKIP, V), ()),
]


def ref_bind(sig, args, kwkeys):
    """Reference binding model. Returns None (no binding) or
    (positional: list of param keys per call slot, keyword: {name: key})."""
    hidden_before = lambda p: sum(1 for q in sig if q.hidden and q.position
                                  is not None and q.position < p.position)
    star = next((p for p in sig if p.key == '*'), None)
    dstar = next((p for p in sig if p.key == '**'), None)
    kw = list(kwkeys)
    positional = [star.key if star else None] * len(args)
    keyword = {}
    for p in sig:
        if p.key in ('*', '**') or p.hidden:
            continue
        if p.position is not None:
            v = p.position - hidden_before(p)
            given = v < len(args) and args[v] == V
            if given:
                if p.call_name in kw:
                    return None             # both positional and keyword
                positional[v] = p.key
            elif p.call_name in kw:
                if v < len(args):
                    return 'HYBRID'         # empty slot + keyword: excluded
                keyword[p.call_name] = p.key
                kw.remove(p.call_name)
            elif not p.default:
                return None
            elif v < len(args):
                positional[v] = p.key       # empty slot takes the default
        else:
            if p.call_name in kw:
                keyword[p.call_name] = p.key
                kw.remove(p.call_name)
            elif not p.default:
                return None
    if kw:
        if dstar is None:
            return None
        for k in kw:
            keyword[k] = '**'
    if any(x is None for x in positional):
        return None
    # an empty slot stands for the parameter's default; the variadic region
    # has none, so `f(1,,2)` binds nothing there
    if star is not None and any(
            positional[i] == star.key and args[i] != V
            for i in range(len(args))):
        return None
    return positional, keyword


class fd_factory:
    """FunctionDefinition with the shape's parameters (opaque smart types)."""
    is_factory = True

    def __init__(self, sig):
        self.sig = sig

    def __call__(self, name, path):
        world = obj.world
        mod = world.module('yaql.language.specs')
        from vlib.pyvc.world import ObjVal
        fd = ObjVal(world.class_ref(mod, mod.top['FunctionDefinition'][-1]))
        pcls = world.class_ref(mod, mod.top['ParameterDefinition'][-1])
        params = {}
        for p in self.sig:
            o = ObjVal(pcls)
            vt = TVal.fresh('vt_' + p.key)
            path.assume(models.uf('vt.hidden', S.Val, z3.BoolSort())(vt.t)
                        == z3.BoolVal(p.hidden))
            path.assume(vt.t != S.NONE_VAL)
            dflt = ND
            if p.default:
                dflt = TVal.fresh('dflt_' + p.key)
                path.assume(dflt.t != S.named_const('NO_DEFAULT'))
                path.assume(dflt.t != S.named_const('NO_VALUE'))
            o.fields.update(name=p.name, alias=p.alias, position=p.position,
                            value_type=vt, default=dflt)
            params[p.key] = o
        fd.fields.update(parameters=params, payload=TVal.fresh('payload'),
                         name='f', is_function=True, is_method=False,
                         no_kwargs=False, doc='', meta={})
        return fd


class call_args:
    is_factory = True

    def __init__(self, shape):
        self.shape = shape

    def __call__(self, name, path):
        out = []
        for i, s in enumerate(self.shape):
            if s == V:
                v = TVal.fresh('arg%d' % i)
                path.assume(v.t != S.named_const('NO_VALUE'))
                out.append(v)
            else:
                out.append(NV)
        return tuple(out)


class call_kwargs:
    is_factory = True

    def __init__(self, keys):
        self.keys = keys

    def __call__(self, name, path):
        return {k: TVal.fresh('kw_' + k) for k in self.keys}


def _value_text(sig, key, slot=None, kwname=None):
    if slot is not None:
        return 'args[%d]' % slot
    return 'kwargs["%s"]' % kwname


def binding_contracts(tier='quick'):
    cs = []
    for sname, sig in SIGNATURES.items():
        names = {p.call_name for p in sig}
        for args, kwkeys in CALLS:
            # keep calls whose keywords make sense for this signature (or
            # are the deliberately unknown 'zz')
            if any(k not in names and k != 'zz' for k in kwkeys):
                continue
            exp = ref_bind(sig, args, kwkeys)
            if exp == 'HYBRID':
                continue
            tag = '%s(%s|%s)' % (sname, ','.join(args), ','.join(kwkeys))
            par = dict(self=fd_factory(sig), args=call_args(args),
                       kwargs=call_kwargs(kwkeys), context=TVal,
                       engine=TVal)
            # ---------------- map_args ----------------
            if exp is None:
                ens = ['result is None']
            else:
                pos, kw = exp
                pos_t = '(' + ''.join('self.parameters["%s"], ' % k
                                      for k in pos) + ')'
                kw_t = '{' + ', '.join('"%s": self.parameters["%s"]' % (n, k)
                                       for n, k in kw.items()) + '}'
                checks = []
                for i, k in enumerate(pos):
                    val = 'args[%d]' % i if args[i] == V else \
                        'self.parameters["%s"].default' % k
                    checks.append('ufn("vt.check", self.parameters["%s"].'
                                  'value_type, %s, ret="Bool")' % (k, val))
                # a keyword spelling is filtered exactly as the positional
                # one: every supplied constant is type-checked here,
                # whichever way it was passed (named or through **)
                for n, k in kw.items():
                    checks.append('ufn("vt.check", self.parameters["%s"].'
                                  'value_type, kwargs["%s"], ret="Bool")'
                                  % (k, n))
                allok = ' and '.join(checks) or 'True'
                ens = ['implies(result is not None, result[0] == %s and '
                       'result[1] == %s)' % (pos_t, kw_t),
                       'implies(%s, result is not None)' % allok,
                       'implies(not (%s), result is None)' % allok]
            cs.append(Contract(
                M + 'FunctionDefinition.map_args',
                name='specs.map_args/' + tag, params=par, ensures=ens,
                serves=('C05', 'C12', 'C11'), native=False))
    return cs


def delegate_contracts(tier='quick'):
    """get_delegate on the same shape family: the converters it builds bind
    exactly the values the reference model prescribes."""
    cs = []
    for sname, sig in SIGNATURES.items():
        names = {p.call_name for p in sig}
        hidden_before = lambda p: sum(
            1 for q in sig if q.hidden and q.position is not None
            and q.position < p.position)
        for args, kwkeys in CALLS:
            if any(k not in names and k != 'zz' for k in kwkeys):
                continue
            exp = ref_bind(sig, args, kwkeys)
            if exp == 'HYBRID':
                continue
            tag = '%s(%s|%s)' % (sname, ','.join(args), ','.join(kwkeys))
            par = dict(self=fd_factory(sig), receiver=NV, engine=TVal,
                       context=TVal, args=call_args(args),
                       kwargs=call_kwargs(kwkeys))
            if exp is None:
                cs.append(Contract(
                    M + 'FunctionDefinition.get_delegate',
                    name='specs.get_delegate/' + tag, params=par,
                    raises={'ArgumentException': 'True'}, ensures=['False'],
                    always_raises=True, serves=('C05', 'C12'),
                    native=False))
                continue
            pos, kw = exp
            inv_kw = {}
            for call_name, key in kw.items():
                inv_kw.setdefault(key, []).append(call_name)
            slots = {}      # position -> (param key, value text)
            kwslots = {}    # keyword_args key -> (param key, value text)
            npos = 0
            for p in sig:
                if p.position is not None and p.key != '*':
                    npos += 1
                    if p.hidden:
                        slots[p.position] = (p.key, 'None')
                        continue
                    v = p.position - hidden_before(p)
                    if v < len(args) and args[v] == V:
                        slots[p.position] = (p.key, 'args[%d]' % v)
                    elif p.key in inv_kw:
                        slots[p.position] = (
                            p.key, 'old_kwargs["%s"]' % inv_kw[p.key][0])
                    else:
                        slots[p.position] = (
                            p.key, 'self.parameters["%s"].default' % p.key)
                elif p.position is None and p.key != '**':
                    if p.key in inv_kw:
                        kwslots[p.key] = (
                            p.key, 'old_kwargs["%s"]' % inv_kw[p.key][0])
                    else:
                        kwslots[p.key] = (
                            p.key, 'self.parameters["%s"].default' % p.key)
            nvis = sum(1 for p in sig if p.position is not None
                       and p.key != '*' and not p.hidden)
            extra = []
            for i in range(nvis, len(args)):
                extra.append(('*', 'args[%d]' % i))
            for call_name in inv_kw.get('**', []):
                kwslots[call_name] = ('**', 'old_kwargs["%s"]' % call_name)
            checks = ['ufn("vt.check", self.parameters["%s"].value_type, %s,'
                      ' ret="Bool")' % (k, v)
                      for k, v in list(slots.values()) + extra +
                      list(kwslots.values())]
            allok = ' and '.join(checks) or 'True'
            ens = [allok,
                   'len(LOCAL_positional_args) == %d' % (npos + len(extra)),
                   'len(LOCAL_keyword_args) == %d' % len(kwslots)]
            # the caller's keyword dict is left as it was: choose_overload
            # hands the same dict to every candidate in turn
            ens.append(' and '.join(
                ['len(kwargs) == %d' % len(kwkeys)] +
                ['"%s" in kwargs' % k for k in kwkeys]))
            ordered = [slots[i] for i in sorted(slots)] + extra
            for i, (k, v) in enumerate(ordered):
                ens.append(
                    'LOCAL_positional_args[%d].closure_vars["param"] is '
                    'self.parameters["%s"] and LOCAL_positional_args[%d].'
                    'closure_vars["val"] == %s' % (i, k, i, v))
            for kk, (k, v) in kwslots.items():
                ens.append(
                    'LOCAL_keyword_args["%s"].closure_vars["param"] is '
                    'self.parameters["%s"] and LOCAL_keyword_args["%s"].'
                    'closure_vars["val"] == %s' % (kk, k, kk, v))
            cs.append(Contract(
                M + 'FunctionDefinition.get_delegate',
                name='specs.get_delegate/' + tag, params=par,
                raises={'ArgumentException': 'not (%s)' % allok},
                ensures=ens, serves=('C05', 'C12'), native=False))
    return cs


def clone_contracts():
    cs = []
    sig = SIGNATURES['hab']
    keys = [p.key for p in sig]
    ens = ['result is not self', 'result.payload == self.payload',
           'result.name == self.name',
           'len(result.parameters) == %d' % len(keys)]
    for k in keys:
        # a clone owns its ParameterDefinitions: later edits of the clone
        # (aliases, positions) must not reach the original
        ens.append('result.parameters["%s"] is not self.parameters["%s"]'
                   % (k, k))
        for f in ('name', 'alias', 'position'):
            ens.append('result.parameters["%s"].%s == self.parameters["%s"]'
                       '.%s' % (k, f, k, f))
        for f in ('value_type', 'default'):
            ens.append('val(result.parameters["%s"].%s) == '
                       'val(self.parameters["%s"].%s)' % (k, f, k, f))
    cs.append(Contract(M + 'FunctionDefinition.clone',
                       params=dict(self=fd_factory(sig)), ensures=ens,
                       serves=('C05', 'C12'), native=False))
    return cs


# ================= get_function_definition: kind flags, name ================

class _plain_fd:
    """A parameterless FunctionDefinition with symbolic kind flags / name."""
    is_factory = True

    def __init__(self, named):
        self.named = named

    def __call__(self, name, path):
        from vlib.pyvc.verify import make_param
        world = obj.world
        mod = world.module('yaql.language.specs')
        from vlib.pyvc.world import ObjVal
        fd = ObjVal(world.class_ref(mod, mod.top['FunctionDefinition'][-1]))
        nm = make_param('FDNAME', TStr, path)
        isf = make_param('ISF', TBool, path)
        ism = make_param('ISM', TBool, path)
        path.ghost.update(FDNAME=nm, ISF=isf, ISM=ism)
        fd.fields.update(
            parameters={}, payload=TVal.fresh('payload'),
            name=nm if self.named else None, is_function=isf, is_method=ism,
            no_kwargs=False, doc='', meta={})
        return fd


def setup_definition(world):
    setup(world)
    from vlib.pyvc.interp import Model
    import types
    # the decorator-time definition attached to the payload (ghost FD)
    world.opaque_globals[('yaql.language.specs', '_get_function_definition')] \
        = Model('_get_function_definition',
                lambda it, node, func: it.ghost_vars['old_FD'], True)
    # shape: a payload without parameters
    world.lib[('inspect', 'getfullargspec')] = Model(
        'inspect.getfullargspec', lambda f: types.SimpleNamespace(
            args=[], kwonlyargs=[], varargs=None, varkw=None))


def definition_contracts():
    """Registration-time kind flags (C12: method-only functions are never
    callable as functions and vice versa): an explicit function= / method=
    argument - True OR False - overrides what the payload's decorators
    said; None keeps it.  The original definition is never written."""
    cs = []
    for fval in (None, True, False):
        for mval in (None, True, False):
            cs.append(Contract(
                M + 'get_function_definition',
                name='specs.get_function_definition/function=%s,method=%s'
                % (fval, mval),
                params=dict(func=TVal, name='explicit', function=fval,
                            method=mval, convention=None),
                env=dict(FD=_plain_fd(True)),
                ensures=[
                    'result is not FD',
                    'result.is_function == (%s)' % (
                        'FD.is_function' if fval is None else fval),
                    'result.is_method == (%s)' % (
                        'FD.is_method' if mval is None else mval),
                    'FD.is_function == ISF and FD.is_method == ISM',
                    'result.name == "explicit" and FD.name == FDNAME',
                    'val(result.payload) == val(FD.payload)'],
                serves=('C12', 'C05'), native=False))
    # the name: explicit > decorator-given > payload's __name__
    cs.append(Contract(
        M + 'get_function_definition',
        name='specs.get_function_definition/name=decorator',
        params=dict(func=TVal, name=None, function=None, method=None,
                    convention=None),
        env=dict(FD=_plain_fd(True)),
        ensures=['result.name == FDNAME', 'FD.name == FDNAME'],
        serves=('C12', 'C05'), native=False))
    # ... > the payload's __name__, translated by the convention of THIS
    # registration; the decorator-time definition shared by all registrations
    # of the function stays unnamed (a context with another convention must
    # not inherit the first one's spelling)
    CF = ('[e for e in calls if e[0] == '
          '"contract:specs.convert_function_name"]')
    cs.append(Contract(
        M + 'get_function_definition',
        name='specs.get_function_definition/name=payload',
        params=dict(func=TVal, name=None, function=None, method=None,
                    convention=TVal),
        env=dict(FD=_plain_fd(False)),
        ensures=['FD.name is None',
                 'len(%s) == 1 and %s[0][1][0] == ufn("a.__name__", '
                 'FD.payload, ret="Str") and %s[0][1][1] == convention and '
                 'result.name == %s[0][2]' % (CF, CF, CF, CF)],
        serves=('C12', 'C05', 'C17'), native=False))
    return cs


def setup_definition_named(world):
    setup_definition(world)
    from vlib.pyvc import models
    world.callee_contract(M + 'convert_function_name', result=TStr)
    world.opaque_attrs['__name__'] = lambda recv, it: models.apply_uf(
        'a.__name__', (recv,), 'Str')


# ============ the delegate built by get_delegate, invoked (C04 scoping) =====

def invoked_delegate_contracts():
    """get_delegate(...)() as one unit: EVERY invocation allocates exactly
    one fresh child of the caller's context - whatever the parameters are
    called - and every converter (hence every Context / lambda parameter)
    is handed that child; the payload gets the converted values in order."""
    cs = []
    CC = '[e for e in calls if e[0] == "m.create_child_context"]'
    CV = '[e for e in calls if e[0] == "m.convert"]'
    for sname, args, kwkeys, nconv in (('ab', (V, V), (), 2),
                                       ('ab', (V,), ('b',), 2),
                                       ('hab', (V, V), (), 3),
                                       ('ak**', (V,), ('k',), 2)):
        sig = SIGNATURES[sname]
        tag = '%s(%s|%s)' % (sname, ','.join(args), ','.join(kwkeys))
        cs.append(Contract(
            M + 'FunctionDefinition.get_delegate',
            name='specs.get_delegate+call/' + tag,
            params=dict(self=fd_factory(sig), receiver=NV, engine=TVal,
                        context=TVal, args=call_args(args),
                        kwargs=call_kwargs(kwkeys)),
            invoke_result=True,
            raises={'ArgumentException': 'True'},
            ensures=[
                'len(%s) == 1' % CC,
                'all([e[1][0] == context for e in %s])' % CC,
                # the child is made before any converter runs ...
                'calls[0][0] == "m.create_child_context"',
                # ... and every converter gets the child, never the
                # caller's context
                'len(%s) == %d' % (CV, nconv),
                'all([e[1][3] == calls[0][2] and e[1][2] == val(receiver) '
                'and e[1][5] == engine for e in %s])' % CV,
                # the payload is applied once, last, to the converted values
                'calls[-1][0].startswith("call") and calls[-1][1][0] == '
                'self.payload and result == calls[-1][2]',
                'len(calls) == %d' % (nconv + 2)],
            serves=('C04', 'C09'), native=False))
    return cs


def strip_contracts():
    """strip_hidden_parameters: the visible signature - hidden parameters
    removed, the positions of the others closed up, order kept; on a CLONE
    (the registered definition is not written)."""
    cs = []
    for sname, visible in (('hab', ['a', 'b']), ('ahb', ['a', 'b']),
                           ('hhab', ['a', 'b']), ('ab', ['a', 'b'])):
        sig = SIGNATURES[sname]
        ens = ['result is not self',
               'len(result.parameters) == %d' % len(visible),
               'len(self.parameters) == %d' % len(sig)]
        for i, k in enumerate(visible):
            ens.append('result.parameters["%s"].position == %d' % (k, i))
            ens.append('val(result.parameters["%s"].value_type) == '
                       'val(self.parameters["%s"].value_type)' % (k, k))
        for p in sig:
            ens.append('self.parameters["%s"].position == %r' % (
                p.key, p.position))
        cs.append(Contract(
            M + 'FunctionDefinition.strip_hidden_parameters',
            name='specs.strip_hidden_parameters/' + sname,
            params=dict(self=fd_factory(sig)), ensures=ens,
            serves=('C12', 'C05'), native=False))
    return cs
