"""Check driver: units -> obligations -> replay -> verdict -> evidence."""
import json
import multiprocessing
import os
import re
import subprocess
import sys
import time
import traceback

HOME = os.environ.get('VERIF_HOME', os.path.dirname(os.path.dirname(
    os.path.abspath(__file__))))
REPO = os.environ.get('VERIF_REPO', '/repo')
PY = '/venv/bin/python'
TIER = ['quick']       # set by main(): native drivers scale with it


def ob(name, status, kind='lemma', backend='', seconds=0.0, detail=None,
       model=None, function=None, text=None, bounded=False, replay=None,
       line=None, probe=False):
    return dict(name=name, status=status, kind=kind, backend=backend,
                seconds=round(seconds, 4), detail=detail, model=model,
                function=function, text=text, bounded=bounded,
                replay=replay, line=line, probe=probe)


class Unit:
    """A group of obligations produced by one back end on one target."""

    def __init__(self, name, fn, backend='', functions=(), assumptions=(),
                 trusted=()):
        self.name, self.fn, self.backend = name, fn, backend
        self.functions = list(functions)
        self.assumptions = list(assumptions)
        self.trusted = list(trusted)

    def run(self, ctx):
        t0 = time.time()
        try:
            res = self.fn(ctx)
        except Exception as e:      # checker crash
            res = dict(obligations=[ob(self.name + ':crash', 'error',
                                       detail='%s: %s\n%s' % (
                                           type(e).__name__, str(e)[:400],
                                           traceback.format_exc(limit=8)
                                           [-1500:]))])
        if isinstance(res, list):
            res = dict(obligations=res)
        res.setdefault('functions', self.functions)
        res.setdefault('assumptions', self.assumptions)
        res.setdefault('trusted', self.trusted)
        res['unit'] = self.name
        res['seconds'] = round(time.time() - t0, 3)
        return res


class Ctx:
    def __init__(self, pid, tier, seed):
        self.pid, self.tier, self.seed = pid, tier, seed
        self.repo = REPO
        self.home = HOME


_UNITS = None
_CTX = None


def _run_unit(i):
    return _UNITS[i].run(_CTX)


def run_units(units, ctx, procs=16):
    global _UNITS, _CTX
    _UNITS, _CTX = units, ctx
    if len(units) == 1 or procs == 1:
        return [u.run(ctx) for u in units]
    mp = multiprocessing.get_context('fork')
    with mp.Pool(min(procs, len(units))) as pool:
        return pool.map(_run_unit, range(len(units)), chunksize=1)


# ------------------------------------------------------ known findings ----

def load_known(pid):
    """finding: property=<ID> obligation=<name> :: <what fails>
       fixed: property=<ID> <commit> <what failed>          (suppresses nothing)
    """
    path = os.path.join(HOME, 'KNOWN_FINDINGS.txt')
    out = {}
    if not os.path.exists(path):
        return out
    for line in open(path):
        line = line.strip()
        m = re.match(r'finding:\s+property=(\S+)\s+obligation=(\S+)\s+::\s+'
                     r'(.*)$', line)
        if m and m.group(1) == pid:
            out[_nolines(m.group(2))] = m.group(3)
    return out


def _nolines(name):
    """Obligation name without source line numbers (`:raises:E:91`,
    `:inv-step:219:3`): a finding is identified by function / case /
    exception, not by where the statement currently sits in the file."""
    name = re.sub(r'(:raises:[A-Za-z_]+):(\d+|None)', r'\1', name)
    name = re.sub(r'(:(?:inv-init|inv-step|pre)):(\d+)', r'\1', name)
    return name


# ------------------------------------------------------------- native ----

def native_jobs(jobs, repo=None, timeout=600):
    """Run native.py jobs in a fresh interpreter against the tree under test."""
    repo = repo or REPO
    env = dict(os.environ)
    env['PYTHONPATH'] = repo + os.pathsep + HOME
    env['PYTHONWARNINGS'] = 'ignore'
    try:
        p = subprocess.run([PY, '-m', 'vlib.native'], input=json.dumps(
            dict(repo=repo, jobs=jobs)), capture_output=True, text=True,
            timeout=timeout, env=env, cwd=HOME)
    except subprocess.TimeoutExpired:
        return [dict(id=j.get('id'), status='timeout') for j in jobs]
    if p.returncode != 0:
        return [dict(id=j.get('id'), status='error',
                     detail=p.stderr[-800:]) for j in jobs]
    try:
        return json.loads(p.stdout)
    except ValueError:
        return [dict(id=j.get('id'), status='error',
                     detail='bad output: ' + p.stdout[-300:]) for j in jobs]


def run_python(code, repo=None, timeout=120, stdin=None):
    """Run a python snippet against the tree under test; returns
    (returncode, stdout, stderr)."""
    repo = repo or REPO
    env = dict(os.environ)
    env['PYTHONPATH'] = repo + os.pathsep + HOME
    env['PYTHONWARNINGS'] = 'ignore'
    env['VERIF_TIER'] = TIER[0]
    try:
        p = subprocess.run([PY, '-c', code], capture_output=True, text=True,
                           timeout=timeout, env=env, cwd=HOME, input=stdin)
        return p.returncode, p.stdout, p.stderr
    except subprocess.TimeoutExpired as e:
        return 124, (e.stdout or b'').decode() if isinstance(
            e.stdout, bytes) else (e.stdout or ''), 'timeout'


# ------------------------------------------------------------ verdict ----

def finish(pid, tier, seed, results, t0, level='proof', technique='',
           extra_assumptions=(), explanation=''):
    known = load_known(pid)
    obs, bounded = [], []
    functions, assumptions, trusted = [], list(extra_assumptions), []
    for r in results:
        for o in r['obligations']:
            o['unit'] = r['unit']
            (bounded if o.get('bounded') else obs).append(o)
        for f in r.get('functions', []):
            if f not in functions:
                functions.append(f)
        for a in r.get('assumptions', []):
            if a not in assumptions:
                assumptions.append(a)
        for t in r.get('trusted', []):
            if t not in trusted:
                trusted.append(t)
    outdir = os.path.join(os.environ.get('VERIF_OUT') or os.path.join(HOME, 'out'), pid)
    os.makedirs(outdir, exist_ok=True)
    violations, undecided, crashes, findings = [], [], [], []
    probes = [o for o in obs if o.get('probe')]
    obs = [o for o in obs if not o.get('probe')]
    for o in probes:
        # a probe is expected to fail while its finding is open
        if o['status'] == 'failed':
            if _nolines(o['name']) in known:
                findings.append((o, known[_nolines(o['name'])]))
            else:
                violations.append(o)
        elif o['status'] in ('unknown', 'error'):
            (crashes if o['status'] == 'error' else undecided).append(o)
    for o in obs + bounded:
        if o['status'] == 'failed':
            if _nolines(o['name']) in known:
                findings.append((o, known[_nolines(o['name'])]))
            else:
                violations.append(o)
        elif o['status'] == 'unknown':
            undecided.append(o)
        elif o['status'] == 'error':
            crashes.append(o)
    for o, what in findings:
        print('KNOWN-FINDING: property=%s %s [%s]' % (pid, what, o['name']))
    lines = []
    for o in violations:
        fn = re.sub(r'[^A-Za-z0-9_.-]+', '_', o['name'])[:150] + '.json'
        path = os.path.join(outdir, fn)
        rep = o.get('replay')
        with open(path, 'w') as f:
            json.dump(dict(property=pid, obligation=o['name'],
                           kind=o['kind'], text=o.get('text'),
                           function=o.get('function'),
                           backend=o.get('backend'), detail=o.get('detail'),
                           model=o.get('model'), replay=rep,
                           repo=REPO), f, indent=1, default=str)
        confirmed = bool(rep and rep.get('status') == 'failed')
        tail = '' if confirmed else ' no-failing-input-found'
        rel = os.path.relpath(path, HOME)
        lines.append('VIOLATION property=%s replay=%s obligation=%s%s' % (
            pid, rel, o['name'], tail))
    n_ob = len(obs)
    n_ok = sum(1 for o in obs if o['status'] == 'proved')
    wall = time.time() - t0
    by_backend = {}
    for o in obs:
        if o['status'] == 'proved':
            b = o.get('backend') or '?'
            by_backend[b] = by_backend.get(b, 0) + 1
    samples = []
    for o in obs[:400]:
        if o.get('text') and len(samples) < 6:
            samples.append(dict(obligation=o['name'], kind=o['kind'],
                                text=o['text'], status=o['status'],
                                backend=o.get('backend')))
    if not samples:
        samples = [dict(obligation=o['name'], kind=o['kind'],
                        status=o['status']) for o in obs[:5]]
    ev = dict(
        property_id=pid, tier=tier, seed=seed, level=level,
        coverage=dict(
            obligations=n_ob, discharged=n_ok,
            checker_cmd='./check %s --tier %s' % (pid, tier),
            trusted_base=sorted(trusted),
            samples=samples,
            technique=technique,
            functions_under_contract=functions,
            discharged_by_backend=by_backend,
            solver_seconds=round(sum(o.get('seconds') or 0 for o in obs), 3),
            bounded_checks=[dict(name=o['name'], status=o['status'],
                                 detail=o.get('detail'),
                                 bound=o.get('text')) for o in bounded],
            bounded_note='bounded checks are stand-ins / cross-checks, never '
                         'counted in obligations or discharged',
            known_findings_matched=[dict(obligation=o['name'], what=w)
                                    for o, w in findings],
            undecided=[dict(name=o['name'], detail=(o.get('detail') or '')
                            [:300]) for o in undecided],
            units=[dict(unit=r['unit'], seconds=r['seconds'],
                        obligations=len(r['obligations'])) for r in results],
            explanation=explanation,
            repo=REPO),
        assumptions=assumptions, wall_s=round(wall, 2),
        violations=len(violations))
    evdir = os.environ.get('VERIF_EVIDENCE') or os.path.join(HOME, 'evidence')
    os.makedirs(evdir, exist_ok=True)
    with open(os.path.join(evdir, pid + '.json'), 'w') as f:
        json.dump(ev, f, indent=1, default=str)
    print('%s %s: %d obligations, %d discharged, %d bounded checks, '
          '%d known findings, %d violations, %d undecided, %d errors '
          '(%.1fs)' % (pid, tier, n_ob, n_ok, len(bounded), len(findings),
                       len(violations), len(undecided), len(crashes), wall))
    for o in undecided[:20]:
        print('UNDECIDED %s: %s' % (o['name'], (o.get('detail') or '')[:300]))
    for o in crashes[:20]:
        print('CHECKER-ERROR %s: %s' % (o['name'],
                                        (o.get('detail') or '')[:1200]))
    for ln in lines:
        print(ln)
    if n_ob == 0:
        print('CHECKER-ERROR zero obligations generated')
        return 3
    if lines:
        return 1
    if crashes:
        return 3
    if undecided:
        return 2
    return 0
