"""Runtime facts, read off the live objects of the tree under test.

Importing the real package executes the real decorators and register()
functions; every FunctionDefinition reachable from yaql.create_context() and
yaql.legacy.create_context() is written out with its parameters and smart
types.  Run with PYTHONPATH=$VERIF_REPO under /venv/bin/python."""
import collections.abc
import inspect
import json
import sys
import warnings
warnings.simplefilter('ignore')

import yaql
from yaql import legacy
from yaql.language import contexts, specs, yaqltypes, utils, conventions
from yaql.language import expressions


def type_facts(t):
    d = dict(cls=type(t).__name__,
             mro=[c.__name__ for c in type(t).__mro__],
             nullable=getattr(t, 'nullable', None),
             hidden=isinstance(t, yaqltypes.HiddenParameterType),
             lazy=isinstance(t, yaqltypes.LazyParameterType))
    if isinstance(t, yaqltypes.PythonType):
        pt = t.python_type
        pts = pt if isinstance(pt, tuple) else (pt,)
        d['python_type'] = [getattr(x, '__name__', str(x)) for x in pts]
        d['n_validators'] = len(t.validators)
    for a in ('with_context', 'method', 'expand', 'name', 'use_convention',
              'with_name'):
        if hasattr(t, a):
            v = getattr(t, a)
            d[a] = v if isinstance(v, (bool, str, type(None))) else repr(v)
    if isinstance(t, yaqltypes.SmartTypeAggregation):
        d['types'] = [type_facts(x) for x in t.types]
    if isinstance(t, yaqltypes.NotOfType):
        d['smart_type'] = type_facts(t.smart_type)
    return d


class Probe:
    """Values of each scalar / container kind, for acceptance facts."""
    SAMPLES = collections.OrderedDict([
        ('null', None), ('bool', True), ('int', 7), ('float', 2.5),
        ('str', 'ab'), ('tuple', (1, 2)), ('list', [1, 2]),
        ('dict', utils.FrozenDict({'a': 1})), ('pydict', {'a': 1}),
        ('frozenset', frozenset([1])), ('set', {1}),
        ('iterator', None), ('generator', None), ('object', None),
        ('dict_keys', None), ('dict_values', None), ('dict_items', None),
    ])

    @classmethod
    def value(cls, kind):
        if kind == 'iterator':
            return iter([1, 2])
        if kind == 'generator':
            return (x for x in [1, 2])
        if kind == 'object':
            return object()
        if kind == 'dict_keys':
            return {'a': 1}.keys()
        if kind == 'dict_values':
            return {'a': 1}.values()
        if kind == 'dict_items':
            return {'a': 1}.items()
        return cls.SAMPLES[kind]


def accepts(t, engine, context):
    out = {}
    for kind in Probe.SAMPLES:
        try:
            out[kind] = bool(t.check(Probe.value(kind), context, engine))
        except Exception as e:      # noqa
            out[kind] = 'error:' + type(e).__name__
    return out


def fd_facts(fd, depth, engine, context):
    payload = fd.payload
    try:
        src_file = inspect.getsourcefile(payload)
        src_line = payload.__code__.co_firstlineno
    except Exception:
        src_file, src_line = None, None
    params = []
    for key, p in fd.parameters.items():
        d = dict(key=key, name=p.name, alias=p.alias, position=p.position,
                 has_default=p.default is not specs.NO_DEFAULT,
                 default=repr(p.default)[:60],
                 type=type_facts(p.value_type))
        if not d['type']['hidden'] and not d['type']['lazy']:
            d['accepts'] = accepts(p.value_type, engine, context)
        # does call(name, args, kwargs) let this keyword spelling through?
        try:
            from yaql.language import utils as _u
            kept = _u.filter_parameters_dict({p.alias or p.name: 1})
            d['call_keeps_keyword'] = (p.alias or p.name) in kept
        except Exception as e:     # noqa
            d['call_keeps_keyword'] = 'raised %s' % type(e).__name__
        params.append(d)
    return dict(name=fd.name, depth=depth, is_function=fd.is_function,
                is_method=fd.is_method, no_kwargs=fd.no_kwargs,
                module=getattr(payload, '__module__', None),
                qualname=getattr(payload, '__qualname__', None),
                file=src_file, line=src_line, doc=(fd.doc or '')[:4000],
                params=params)


def walk(ctx, engine):
    out = []
    depth = 0
    c = ctx
    while c is not None:
        funcs = getattr(c, '_functions', None)
        if funcs is None and hasattr(c, 'linked_context'):
            funcs = getattr(c.linked_context, '_functions', {})
        for name, fds in (funcs or {}).items():
            for fd in fds:
                out.append(fd_facts(fd, depth, engine, ctx))
        c = c.parent
        depth += 1
    return out


def main():
    engine = yaql.YaqlFactory().create()
    lengine = legacy.YaqlFactory().create()
    facts = dict(
        default=walk(yaql.create_context(), engine),
        legacy=walk(legacy.create_context(), lengine),
        delegates=walk(yaql.create_context(delegates=True), engine),
        convention=type(yaql.create_context().convention).__name__,
        camel=dict((n, conventions.CamelCaseConvention()
                    .convert_parameter_name(n))
                   for n in ['a', 'max_splits', 'key_selector', 'a_b_c',
                             '_x', 'x_', 'trim_spaces']),
        getsizeof=dict((k, sys.getsizeof(v)) for k, v in [
            ('empty_str', ''), ('empty_list', []), ('empty_tuple', ()),
            ('str1', 'a'), ('list1', [1]), ('tuple1', (1,)),
            ('list2', [1, 2]), ('tuple2', (1, 2)), ('str2', 'ab')]),
        python=sys.version,
    )
    json.dump(facts, sys.stdout)


main()
