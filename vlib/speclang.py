"""Rewriting shared by symbolic and native evaluation of contract text."""
import ast


class _LowerSpec(ast.NodeTransformer):
    """implies(a, b) -> (not a) or b ; ite(c, a, b) -> a if c else b, so that
    the guarded side is not evaluated when the guard is concretely false
    (same rewriting is applied before native evaluation)."""

    def visit_Call(self, node):
        self.generic_visit(node)
        if isinstance(node.func, ast.Name) and not node.keywords:
            if node.func.id == 'implies' and len(node.args) == 2:
                return ast.BoolOp(op=ast.Or(), values=[
                    ast.UnaryOp(op=ast.Not(), operand=node.args[0]),
                    node.args[1]])
            if node.func.id == 'ite' and len(node.args) == 3:
                return ast.IfExp(test=node.args[0], body=node.args[1],
                                 orelse=node.args[2])
        return node


def lower_spec(tree):
    return ast.fix_missing_locations(_LowerSpec().visit(tree))


