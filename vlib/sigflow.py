"""Back end C: obligations over the registered signatures (runtime facts)
and the payload ASTs."""
import json
import os
import re
import subprocess

from . import core

_CACHE = {}


def facts(ctx):
    key = ctx.repo
    if key not in _CACHE:
        env = dict(os.environ)
        env['PYTHONPATH'] = ctx.repo + os.pathsep + ctx.home
        p = subprocess.run(
            [core.PY, '-W', 'ignore', os.path.join(
                ctx.home, 'vlib', 'extract', 'dump_facts.py')],
            capture_output=True, text=True, timeout=120, env=env,
            cwd=ctx.home)
        if p.returncode != 0:
            raise RuntimeError('fact dump failed: ' + p.stderr[-800:])
        _CACHE[key] = json.loads(p.stdout)
    return _CACHE[key]


def camel(name):
    return re.sub(r'(?!^)_(\w)', lambda m: m.group(1).upper(), name,
                  flags=re.UNICODE)


def fkey(fd):
    return '%s.%s' % (fd['module'], fd['qualname'])


def visible_params(fd):
    return [p for p in fd['params'] if not p['type']['hidden']
            and p['key'] not in ('*', '**')]


def doc_signature_names(doc):
    """keyword spellings shown in the :signature: line(s) of a docstring."""
    out = []
    m = re.search(r':signature:(.*?)(?:\n\s*:|\n\s*\n|$)', doc, re.S)
    if not m:
        return out
    for nm in re.findall(r'(\w+)\s*=>', m.group(1)):
        out.append(nm)
    return out
