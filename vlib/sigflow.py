"""Back end C: obligations over the registered signatures (runtime facts)
and the payload ASTs."""
import json
import os
import re
import subprocess

from . import core

_CACHE = {}


def facts(ctx):
    key = ctx.repo
    if key not in _CACHE:
        env = dict(os.environ)
        env['PYTHONPATH'] = ctx.repo + os.pathsep + ctx.home
        p = subprocess.run(
            [core.PY, '-W', 'ignore', os.path.join(
                ctx.home, 'vlib', 'extract', 'dump_facts.py')],
            capture_output=True, text=True, timeout=120, env=env,
            cwd=ctx.home)
        if p.returncode != 0:
            raise RuntimeError('fact dump failed: ' + p.stderr[-800:])
        _CACHE[key] = json.loads(p.stdout)
    return _CACHE[key]


def camel(name):
    return re.sub(r'(?!^)_(\w)', lambda m: m.group(1).upper(), name,
                  flags=re.UNICODE)


def fkey(fd):
    return '%s.%s' % (fd['module'], fd['qualname'])


def visible_params(fd):
    return [p for p in fd['params'] if not p['type']['hidden']
            and p['key'] not in ('*', '**')]


def doc_signature_names(doc):
    """keyword spellings shown in the :signature: line(s) of a docstring."""
    out = []
    m = re.search(r':signature:(.*?)(?:\n\s*:|\n\s*\n|$)', doc, re.S)
    if not m:
        return out
    for nm in re.findall(r'(\w+)\s*=>', m.group(1)):
        out.append(nm)
    return out


# ----------------------------------------------- lazy consumption (C08) ----

import ast

EAGER_CALLS = {'len', 'list', 'tuple', 'set', 'frozenset', 'sorted', 'sum',
               'min', 'max', 'any', 'all', 'reduce', 'dict', 'reversed',
               'enumerate_all', 'FrozenDict', 'deque',
               # itertools / collections / heapq functions that read their
               # argument to the end before producing anything
               'product', 'permutations', 'combinations',
               'combinations_with_replacement', 'Counter', 'OrderedDict',
               'nlargest', 'nsmallest', 'heapify', 'fsum', 'bytes',
               'bytearray', 'array'}
EAGER_METHODS = {'extend', 'update', 'join', 'extendleft', 'union',
                 'intersection', 'difference', 'symmetric_difference',
                 'issubset', 'issuperset'}
SANITIZERS = {'limit_iterable', 'limit'}
LAZY_WRAPPERS = {'iter', 'map', 'filter', 'islice', 'chain', 'takewhile',
                 'dropwhile', 'zip', 'zip_longest', 'enumerate', 'cycle',
                 'memorize', 'imap', 'ifilter'}


def admits_lazy(p):
    a = p.get('accepts') or {}
    return a.get('iterator') is True or a.get('generator') is True


def is_limited_type(t):
    """The declared smart type routes the value through Iterable.convert
    (=> limit_iterable) whenever it is a lazy iterable."""
    if 'Iterable' in t['mro']:
        return True
    if t['cls'] in ('AnyOf', 'Chain'):
        return all(is_limited_type(x) for x in t.get('types', [])
                   if x['cls'] != 'PythonType' or True)
    return False


def payload_ast(ctx, fd, cache={}):
    path = fd['file']
    if not path or not os.path.exists(path):
        return None
    if path not in cache:
        cache[path] = ast.parse(open(path).read())
    for n in ast.walk(cache[path]):
        if isinstance(n, ast.FunctionDef) and n.name == fd['qualname'].split(
                '.')[-1] and n.lineno <= fd['line'] <= (n.end_lineno or 0):
            return n
    for n in ast.walk(cache[path]):
        if isinstance(n, ast.FunctionDef) and n.name == fd['qualname'].split(
                '.')[-1]:
            return n
    return None


def _name(e):
    if isinstance(e, ast.Name):
        return e.id
    return None


def _fname(call):
    f = call.func
    if isinstance(f, ast.Name):
        return f.id
    if isinstance(f, ast.Attribute):
        return f.attr
    return None


def eager_consumptions(fnode, tainted, lazy_callbacks, for_loops=True):
    """Flow-insensitive taint analysis inside one payload. tainted: set of
    names holding unlimited lazy values; lazy_callbacks: names of callable
    parameters whose results are lazy-unknown. Returns [(line, what)]."""
    tainted = set(tainted)
    is_gen = any(isinstance(n, (ast.Yield, ast.YieldFrom))
                 for n in ast.walk(fnode))

    def expr_tainted(e):
        if isinstance(e, ast.Name):
            return e.id in tainted
        if isinstance(e, ast.Call):
            fn = _fname(e)
            if fn in SANITIZERS:
                return False
            if isinstance(e.func, ast.Name) and e.func.id in lazy_callbacks:
                return True
            if fn in LAZY_WRAPPERS:
                return any(expr_tainted(a) for a in e.args)
            return False
        if isinstance(e, ast.IfExp):
            return expr_tainted(e.body) or expr_tainted(e.orelse)
        if isinstance(e, ast.BoolOp):
            return any(expr_tainted(v) for v in e.values)
        if isinstance(e, (ast.Starred,)):
            return expr_tainted(e.value)
        return False
    for _ in range(4):
        for n in ast.walk(fnode):
            if isinstance(n, ast.Assign) and expr_tainted(n.value):
                for t in n.targets:
                    if isinstance(t, ast.Name):
                        tainted.add(t.id)
    out = []
    for n in ast.walk(fnode):
        if isinstance(n, ast.Call):
            fn = _fname(n)
            if fn in EAGER_CALLS and (isinstance(n.func, ast.Name) or (
                    isinstance(n.func, ast.Attribute) and isinstance(
                        n.func.value, ast.Name) and n.func.value.id in (
                            'itertools', 'collections', 'heapq', 'math',
                            'functools', 'utils'))) and any(
                    expr_tainted(a) for a in (
                        # reduce(function, iterable[, initial]) reads only
                        # its second argument to the end
                        n.args[1:2] if fn == 'reduce' else n.args)):
                out.append((n.lineno, '%s(...) on an unlimited lazy value'
                            % fn))
            if fn in EAGER_METHODS and isinstance(n.func, ast.Attribute) \
                    and any(expr_tainted(a) for a in n.args):
                out.append((n.lineno, '.%s(...) consumes an unlimited lazy '
                            'value' % fn))
        elif isinstance(n, ast.For) and expr_tainted(n.iter) and not is_gen \
                and for_loops:
            out.append((n.lineno, 'for-loop over an unlimited lazy value in '
                        'a non-generator payload'))
        elif isinstance(n, (ast.ListComp, ast.SetComp, ast.DictComp)):
            for g in n.generators:
                if expr_tainted(g.iter):
                    out.append((n.lineno, 'comprehension consumes an '
                                'unlimited lazy value'))
        elif isinstance(n, ast.Compare) and any(
                isinstance(o, (ast.In, ast.NotIn)) for o in n.ops) and any(
                    expr_tainted(c) for c in n.comparators):
            out.append((n.lineno, '`in` scans an unlimited lazy value'))
        elif isinstance(n, ast.Assign) and isinstance(
                n.targets[0], (ast.Tuple, ast.List)) and expr_tainted(
                    n.value):
            out.append((n.lineno, 'unpacking consumes an unlimited lazy '
                        'value'))
    return out


# ------------------------------------------------ host-access sinks (C07) ----

REFLECTIVE = {'getattr', 'setattr', 'delattr', 'eval', 'exec', 'vars',
              '__import__', 'compile', 'globals', 'locals', 'open',
              'hasattr', 'dir', 'type'}


def host_access_sinks(fnode, object_params, str_params):
    """Syntactic sinks through which an expression could reach members of a
    host object: reflective builtins, format templates that are not
    literals, attribute reads / method calls / subscripts / calls on a
    parameter that may hold an arbitrary host object."""
    out = []
    body = ast.Module(body=list(fnode.body), type_ignores=[])
    for n in ast.walk(body):
        if isinstance(n, ast.Call):
            fn = _fname(n)
            if isinstance(n.func, ast.Name) and fn in REFLECTIVE:
                out.append((n.lineno, 'reflective call %s(...)' % fn))
            if isinstance(n.func, ast.Attribute) and fn in (
                    'format', 'format_map') and not isinstance(
                        n.func.value, ast.Constant):
                out.append((n.lineno, 'non-literal format template'))
            if isinstance(n.func, ast.Name) and n.func.id in object_params:
                out.append((n.lineno, 'call of host object %s(...)'
                            % n.func.id))
        elif isinstance(n, ast.BinOp) and isinstance(n.op, ast.Mod):
            l = n.left
            if isinstance(l, ast.Name) and (l.id in str_params
                                            or l.id in object_params):
                out.append((n.lineno, '%% formatting with template '
                            'parameter %s' % l.id))
        elif isinstance(n, ast.Attribute) and isinstance(
                n.value, ast.Name) and n.value.id in object_params:
            out.append((n.lineno, 'member access %s.%s on a host object'
                        % (n.value.id, n.attr)))
        elif isinstance(n, ast.Subscript) and isinstance(
                n.value, ast.Name) and n.value.id in object_params \
                and isinstance(n.ctx, ast.Load):
            out.append((n.lineno, 'subscript %s[...] on a host object'
                        % n.value.id))
    return out
