"""Native (CPython) evaluation of sidecar contracts on the real functions.

Used for three things, none of which is counted as proof:
  * replay of solver counterexamples against the real code,
  * the encoder cross-check (the prover and CPython must agree on inputs
    that satisfy `requires`),
  * the bounded stand-in: exhaustive small-scope enumeration of a contract
    when the deductive engine cannot decide it (labelled `bounded`).

Runs in a subprocess of /venv/bin/python with PYTHONPATH=$VERIF_REPO so that
a scratch copy of the repository shadows the editable install.
"""
import importlib
import itertools
import json
import os
import sys
import types


class _Range(tuple):
    pass


def _helpers():
    def forall(dom, fn):
        return all(fn(k) for k in dom)

    def exists(dom, fn):
        return any(fn(k) for k in dom)

    def implies(a, b):
        return (not a) or bool(b)

    def iff(a, b):
        return bool(a) == bool(b)

    def ite(c, a, b):
        return a if c else b

    def truthy(x):
        return bool(x)

    def ufn(name, *args, ret='Val'):
        return NATIVE_UF[name](*args)

    def val(x):
        return x

    return dict(STRING=__import__('string'), val=val, forall=forall, exists=exists, implies=implies, iff=iff,
                ite=ite, truthy=truthy, ufn=ufn)


NATIVE_UF = {
    'str_upper': lambda s: s.upper(),
    'str_lower': lambda s: s.lower(),
}


def _compile(text):
    import ast
    from vlib.speclang import lower_spec
    return compile(lower_spec(ast.parse(text.strip(), mode='eval')),
                   '<contract>', 'eval')


def resolve(target, repo):
    """Import the real function object for a dotted target."""
    parts = target.split('.')
    for i in range(len(parts) - 1, 0, -1):
        mod = '.'.join(parts[:i])
        path = os.path.join(repo, *mod.split('.'))
        if os.path.exists(path + '.py') or os.path.isdir(path):
            m = importlib.import_module(mod)
            obj = m
            for p in parts[i:]:
                obj = getattr(obj, p)
            return obj
    raise LookupError(target)


def run_case(fn, args, kwargs, contract_ns, requires, ensures, raises,
             is_gen, limit=10000):
    """Returns (verdict, info): verdict in ok|skip|violation."""
    env = dict(_helpers())
    env.update(contract_ns)
    env.update(args)
    for r in requires:
        try:
            if not eval(_compile(r), env):
                return 'skip', None
        except Exception:
            return 'skip', None
    call_args = dict(args)
    try:
        res = fn(**call_args) if not kwargs else fn(*kwargs['pos'],
                                                   **kwargs['kw'])
        if is_gen or isinstance(res, types.GeneratorType):
            res = tuple(itertools.islice(res, limit))
            env['out'] = res
        env['result'] = res
    except Exception as e:      # noqa
        nm = [c.__name__ for c in type(e).__mro__]
        allowed = None
        for n in nm:
            if raises and n in raises:
                allowed = raises[n]
                break
        if allowed is None:
            return 'violation', 'unexpected %s: %s' % (type(e).__name__, e)
        env['raised'] = e
        try:
            if isinstance(allowed, str) and not eval(_compile(allowed), env):
                return 'violation', '%s raised outside its condition %r' % (
                    type(e).__name__, allowed)
        except Exception as e2:
            return 'violation', 'raises clause failed to evaluate: %r' % e2
        return 'ok', None
    for e in ensures:
        try:
            if not eval(_compile(e), env):
                return 'violation', 'ensures failed: %s (result=%r)' % (
                    e, env.get('out', env.get('result')))
        except Exception as e2:
            return 'violation', 'ensures raised %s: %s [%s]' % (
                type(e2).__name__, e2, e)
    return 'ok', None


def domain(desc, scope):
    """Small-scope value domain for a parameter descriptor (JSON form)."""
    k = desc['kind']
    if k == 'int':
        # small scope plus magnitudes beyond float precision (exact integer
        # arithmetic must not go through floats)
        small = list(range(-scope, scope + 2))
        if desc.get('big'):
            small += [2 ** 63 + 1, -(2 ** 63) - 1, 10 ** 40 + 7]
        return small
    if k == 'bool':
        return [False, True]
    if k == 'str':
        out = ['']
        alpha = desc.get('alphabet', 'ab')
        for n in range(1, min(scope, 3) + 1):
            out += [''.join(p) for p in itertools.product(alpha, repeat=n)]
        if 'alphabet' not in desc:
            # strings are sequences of code points: canonically equivalent
            # but different spellings, a compatibility character, an astral
            # character (the properties quantify over ALL strings)
            out += ['\u00e9', 'e\u0301', '\u212b', '\u00c5', 'f',
                    '\U0001f600']
        return out
    if k == 'val':
        return [None, 0, 1, 'a', True, 2.5][:scope + 2]
    if k == 'seq':
        inner = domain(desc['elem'], 1)[:3]
        out = []
        for n in range(0, scope + 1):
            out += [tuple(p) for p in itertools.product(inner, repeat=n)]
        if desc.get('as') == 'iter':
            return [_Iter(t) for t in out]
        if desc.get('as') == 'list':
            return [list(t) for t in out]
        return out
    if k == 'opt':
        return [None] + domain(desc['inner'], scope)
    if k == 'const':
        return [desc['value']]
    if k == 'expr':
        # an object built in the process under test (a smart type, an
        # engine ...): the expression is evaluated once per case
        return [_Expr(desc['code'])]
    if k == 'func':
        return [lambda *a: a[0] if a else None,
                lambda *a: bool(a and isinstance(a[0], int) and a[0] > 0),
                lambda *a: None]
    raise ValueError('no domain for %r' % (desc,))


class _Counting:
    """A one-shot iterator that knows its whole sequence and how many
    elements have been pulled (native twin of the symbolic SIter)."""

    def __init__(self, items):
        self.seq = tuple(items)
        self.pos = 0

    def __iter__(self):
        return self

    def __next__(self):
        if self.pos >= len(self.seq):
            raise StopIteration
        self.pos += 1
        return self.seq[self.pos - 1]


class _Snapshot:
    def __init__(self, items):
        self.seq, self.pos = tuple(items), 0


class _CountedFn:
    def __init__(self, fn):
        self.fn, self.count = fn, 0
        self.name = getattr(fn, '__name__', 'fn')

    def __call__(self, *a, **k):
        self.count += 1
        return self.fn(*a, **k)


class _Expr:
    def __init__(self, code):
        self.code = code

    def make(self):
        return eval(self.code, {'__import__': __import__})

    def __repr__(self):
        return self.code


class _Iter:
    """Marker: pass a fresh one-shot iterator over these items."""

    def __init__(self, items):
        self.items = items


def bounded(target, params, requires, ensures, raises, is_gen, scope, repo,
            max_cases=20000, track_pulls=None, seq_result=False):
    fn = resolve(target, repo)
    names = list(params)
    doms = [domain(params[n], scope) for n in names]
    total = ok = skipped = 0
    for combo in itertools.product(*doms):
        total += 1
        if total > max_cases:
            break
        args = {}
        spec_args = {}
        for n, v in zip(names, combo):
            if isinstance(v, _Iter):
                args[n] = spec_args[n] = _Counting(v.items)
                spec_args['old_' + n] = _Snapshot(v.items)
                if n == track_pulls:
                    spec_args['SRC'] = args[n]
            elif callable(v) and not isinstance(v, type):
                args[n] = spec_args[n] = _CountedFn(v)
            elif isinstance(v, _Expr):
                args[n] = spec_args[n] = v.make()
            else:
                args[n] = v
                spec_args[n] = v
        if seq_result:
            spec_args['__seq_result__'] = True
        verdict, info = run_case_split(fn, args, spec_args, requires, ensures,
                                       raises, is_gen)
        spec_args.pop('__seq_result__', None)
        if verdict == 'skip':
            skipped += 1
        elif verdict == 'ok':
            ok += 1
        else:
            return dict(status='failed', cases=total, detail=info,
                        input={n: (repr(spec_args[n].seq) if isinstance(
                            spec_args[n], _Counting) else repr(spec_args[n]))
                            for n in names})
    return dict(status='ok', cases=total, checked=ok, skipped=skipped)


def run_case_split(fn, call_args, spec_args, requires, ensures, raises,
                   is_gen):
    env = dict(_helpers())
    env.update(spec_args)
    for k_, v_ in list(spec_args.items()):
        env.setdefault('old_' + k_, v_)
    env['ncalls'] = lambda f: getattr(f, 'count', 0) if f is not None else 0
    env.pop('__seq_result__', None)
    src = spec_args.get('SRC')
    for r in requires:
        try:
            if not eval(_compile(r), env):
                return 'skip', None
        except Exception:
            return 'skip', None
    try:
        res = fn(**call_args)
        if is_gen or isinstance(res, types.GeneratorType) or (hasattr(
                res, '__next__') and not isinstance(res, _Counting)):
            items, pulls = [], []
            for x in itertools.islice(res, 10000):
                items.append(x)
                pulls.append(src.pos if src is not None else 0)
            res = tuple(items)
            env['out'] = res
            env['pulls'] = tuple(pulls)
        if isinstance(res, list) and spec_args.get('__seq_result__'):
            res = tuple(res)    # sequences are compared by content
        env['result'] = res
    except Exception as e:      # noqa
        allowed = None
        for c in type(e).__mro__:
            if raises and c.__name__ in raises:
                allowed = raises[c.__name__]
                break
        if allowed is None:
            return 'violation', 'unexpected %s: %s' % (type(e).__name__, e)
        env['raised'] = e
        try:
            if isinstance(allowed, str) and not eval(_compile(allowed), env):
                return 'violation', '%s raised outside its condition %r' % (
                    type(e).__name__, allowed)
        except Exception as e2:
            return 'violation', 'raises clause failed to evaluate: %r' % e2
        return 'ok', None
    for e in ensures:
        try:
            if not eval(_compile(e), env):
                return 'violation', 'ensures failed: %s (got %r)' % (
                    e, env.get('out', env.get('result')))
        except Exception as e2:
            return 'violation', 'ensures raised %s: %s [%s]' % (
                type(e2).__name__, e2, e)
    return 'ok', None


def main():
    job = json.load(sys.stdin)
    repo = job['repo']
    sys.path.insert(0, repo)
    import warnings
    warnings.simplefilter('ignore')
    out = []
    for j in job['jobs']:
        try:
            if j['mode'] == 'bounded':
                r = bounded(j['target'], j['params'], j['requires'],
                            j['ensures'], j.get('raises'), j.get('is_gen'),
                            j.get('scope', 2), repo,
                            j.get('max_cases', 20000),
                            track_pulls=j.get('track_pulls'),
                            seq_result=j.get('seq_result', False))
            elif j['mode'] == 'replay':
                fn = resolve(j['target'], repo)
                call, spec = {}, {}
                for n, v in j['args'].items():
                    d = j['params'].get(n, {})
                    if d.get('kind') == 'seq' and d.get('as') == 'iter':
                        call[n] = spec[n] = _Counting(tuple(v))
                        spec['old_' + n] = _Snapshot(tuple(v))
                        if n == j.get('track_pulls'):
                            spec['SRC'] = call[n]
                    elif d.get('kind') == 'seq':
                        v = tuple(v)
                        spec[n] = v
                        call[n] = list(v) if d.get('as') == 'list' else v
                    else:
                        call[n] = spec[n] = v
                if j.get('seq_result'):
                    spec['__seq_result__'] = True
                verdict, info = run_case_split(
                    fn, call, spec, j['requires'], j['ensures'],
                    j.get('raises'), j.get('is_gen'))
                r = dict(status={'violation': 'failed', 'ok': 'ok',
                                 'skip': 'skip'}[verdict], detail=info,
                         input={n: repr(v) for n, v in spec.items()})
            else:
                r = dict(status='error', detail='unknown mode')
        except Exception as e:      # noqa
            import traceback
            r = dict(status='error', detail='%s: %s' % (type(e).__name__, e),
                     trace=traceback.format_exc(limit=5))
        r['id'] = j.get('id')
        out.append(r)
    json.dump(out, sys.stdout)


if __name__ == '__main__':
    main()
