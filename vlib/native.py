"""Native (CPython) evaluation of sidecar contracts on the real functions.

Used for three things, none of which is counted as proof:
  * replay of solver counterexamples against the real code,
  * the encoder cross-check (the prover and CPython must agree on inputs
    that satisfy `requires`),
  * the bounded stand-in: exhaustive small-scope enumeration of a contract
    when the deductive engine cannot decide it (labelled `bounded`).

Runs in a subprocess of /venv/bin/python with PYTHONPATH=$VERIF_REPO so that
a scratch copy of the repository shadows the editable install.
"""
import importlib
import itertools
import json
import os
import sys
import types


class _Range(tuple):
    pass


UNIVERSE = [None, 0, 1, 2, 'a', 'b', True, 2.5, (1,), 'SCR']


def _dom(dom):
    # forall(Val, ...): a small universe of values (bounded!) that contains
    # every value occurring in the arguments of the case
    if dom == 'Val':
        return list(UNIVERSE) + list(_CASE_VALUES)
    if dom == 'Str':
        return ['', 'a', 'b', 'ab', '$', '$1'] + [
            v for v in _CASE_VALUES if isinstance(v, str)]
    if dom == 'Int':
        return list(range(-2, 5))
    return dom


_CASE_VALUES = []


def _collect(v, out, depth=0):
    if depth > 4:
        return
    if isinstance(v, (list, tuple, set, frozenset)):
        for x in v:
            _collect(x, out, depth + 1)
    elif isinstance(v, dict):
        for k, x in v.items():
            _collect(k, out, depth + 1)
            _collect(x, out, depth + 1)
    elif isinstance(v, _Counting):
        _collect(v.seq, out, depth + 1)
    try:
        hash(v)
        if not callable(v):
            out.append(v)
    except TypeError:
        pass


def _helpers():
    def forall(dom, fn):
        return all(fn(k) for k in _dom(dom))

    def exists(dom, fn):
        return any(fn(k) for k in _dom(dom))

    def implies(a, b):
        return (not a) or bool(b)

    def iff(a, b):
        return bool(a) == bool(b)

    def ite(c, a, b):
        return a if c else b

    def truthy(x):
        return bool(x)

    def ufn(name, *args, ret='Val'):
        return NATIVE_UF[name](*args)

    def val(x):
        return x

    def isinstance_(x, c):
        # contracts name classes by their (unqualified) name
        cs = c if isinstance(c, tuple) else (c,)
        for k in cs:
            if isinstance(k, str):
                if k in ABC_NAMES:
                    if __builtins__isinstance(x, ABC_NAMES[k]):
                        return True
                elif k == 'NoneType':
                    if x is None:
                        return True
                elif any(t.__name__ == k for t in type(x).__mro__):
                    return True
            elif __builtins__isinstance(x, k):
                return True
        return False

    return dict(STRING=__import__('string'), val=val, forall=forall, exists=exists, implies=implies, iff=iff,
                ite=ite, truthy=truthy, ufn=ufn, Val='Val', Str='Str',
                Int='Int', isinstance=isinstance_)


import builtins as _b
import collections.abc as _abc
__builtins__isinstance = _b.isinstance
ABC_NAMES = {n: getattr(_abc, n) for n in (
    'Mapping', 'MutableMapping', 'Sequence', 'MutableSequence', 'Set',
    'MutableSet', 'Iterable', 'Iterator', 'Sized', 'Hashable', 'Callable',
    'Generator', 'Collection', 'Container')}


NATIVE_UF = {
    'str_upper': lambda s: s.upper(),
    'str_lower': lambda s: s.lower(),
}


def _compile(text):
    import ast
    from vlib.speclang import lower_spec
    return compile(lower_spec(ast.parse(text.strip(), mode='eval')),
                   '<contract>', 'eval')


def resolve(target, repo):
    """Import the real function object for a dotted target."""
    parts = target.split('.')
    for i in range(len(parts) - 1, 0, -1):
        mod = '.'.join(parts[:i])
        path = os.path.join(repo, *mod.split('.'))
        if os.path.exists(path + '.py') or os.path.isdir(path):
            m = importlib.import_module(mod)
            obj = m
            for p in parts[i:]:
                obj = getattr(obj, p)
            return obj
    raise LookupError(target)


def run_case(fn, args, kwargs, contract_ns, requires, ensures, raises,
             is_gen, limit=10000):
    """Returns (verdict, info): verdict in ok|skip|violation."""
    env = dict(_helpers())
    env.update(contract_ns)
    env.update(args)
    for r in requires:
        try:
            if not eval(_compile(r), env):
                return 'skip', None
        except Exception:
            return 'skip', None
    call_args = dict(args)
    try:
        res = fn(**call_args) if not kwargs else fn(*kwargs['pos'],
                                                   **kwargs['kw'])
        if is_gen or isinstance(res, types.GeneratorType):
            res = tuple(itertools.islice(res, limit))
            env['out'] = res
        env['result'] = res
    except Exception as e:      # noqa
        nm = [c.__name__ for c in type(e).__mro__]
        allowed = None
        for n in nm:
            if raises and n in raises:
                allowed = raises[n]
                break
        if allowed is None:
            return 'violation', 'unexpected %s: %s' % (type(e).__name__, e)
        env['raised'] = e
        try:
            if isinstance(allowed, str) and not eval(_compile(allowed), env):
                return 'violation', '%s raised outside its condition %r' % (
                    type(e).__name__, allowed)
        except Exception as e2:
            return 'violation', 'raises clause failed to evaluate: %r' % e2
        return 'ok', None
    for e in ensures:
        try:
            if not eval(_compile(e), env):
                return 'violation', 'ensures failed: %s (result=%r)' % (
                    e, env.get('out', env.get('result')))
        except Exception as e2:
            return 'violation', 'ensures raised %s: %s [%s]' % (
                type(e2).__name__, e2, e)
    return 'ok', None


def domain(desc, scope):
    """Small-scope value domain for a parameter descriptor (JSON form)."""
    k = desc['kind']
    if k == 'int':
        # small scope plus magnitudes beyond float precision (exact integer
        # arithmetic must not go through floats)
        small = list(range(-scope, scope + 2))
        if desc.get('big'):
            small += [2 ** 63 + 1, -(2 ** 63) - 1, 10 ** 40 + 7]
        return small
    if k == 'bool':
        return [False, True]
    if k == 'str':
        out = ['']
        alpha = desc.get('alphabet', 'ab')
        for n in range(1, min(scope, 3) + 1):
            out += [''.join(p) for p in itertools.product(alpha, repeat=n)]
        if 'alphabet' not in desc:
            # strings are sequences of code points: canonically equivalent
            # but different spellings, a compatibility character, an astral
            # character (the properties quantify over ALL strings)
            out += ['\u00e9', 'e\u0301', '\u212b', '\u00c5', 'f',
                    '\U0001f600']
        return out
    if k == 'val':
        return [None, 0, 1, 'a', True, 2.5][:scope + 2]
    if k == 'seq':
        inner = domain(desc['elem'], 1)[:3]
        out = []
        for n in range(0, scope + 1):
            out += [tuple(p) for p in itertools.product(inner, repeat=n)]
        if desc.get('as') == 'iter':
            return [_Iter(t) for t in out]
        if desc.get('as') == 'list':
            return [list(t) for t in out]
        return out
    if k == 'tupleof':
        base = domain(desc['elem'], 1)[:3]
        return [tuple(p) for p in itertools.product(base, repeat=desc['n'])]
    if k == 'set':
        base = domain(desc['elem'], 1)[:3]
        out = []
        for n in range(0, min(scope, 2) + 1):
            out += [frozenset(c) for c in itertools.combinations(base, n)]
        return out
    if k == 'map':
        keys = domain(desc['key'], 1)[:2]
        vals = domain(desc['val'], 1)[:2]
        out = [{}]
        for kk in keys:
            for vv in vals:
                out.append({kk: vv})
        if len(keys) > 1:
            out.append({keys[0]: vals[0], keys[1]: vals[-1]})
        return [_Map(d, desc.get('mutable')) for d in out]
    if k == 'opt':
        return [None] + domain(desc['inner'], scope)
    if k == 'const':
        return [desc['value']]
    if k == 'expr':
        # an object built in the process under test (a smart type, an
        # engine ...): the expression is evaluated once per case
        return [_Expr(desc['code'])]
    if k == 'func':
        return [lambda *a: a[0] if a else None,
                lambda *a: bool(a and isinstance(a[0], int) and a[0] > 0),
                lambda *a: None]
    raise ValueError('no domain for %r' % (desc,))


class _Counting:
    """A one-shot iterator that knows its whole sequence and how many
    elements have been pulled (native twin of the symbolic SIter)."""

    def __init__(self, items):
        self.seq = tuple(items)
        self.pos = 0

    def __iter__(self):
        return self

    def __next__(self):
        if self.pos >= len(self.seq):
            raise StopIteration
        self.pos += 1
        return self.seq[self.pos - 1]


class _Snapshot:
    def __init__(self, items):
        self.seq, self.pos = tuple(items), 0


class _CountedFn:
    def __init__(self, fn):
        self.fn, self.count = fn, 0
        self.name = getattr(fn, '__name__', 'fn')

    def __call__(self, *a, **k):
        self.count += 1
        return self.fn(*a, **k)


class _Map:
    """Marker: a mapping argument (a fresh dict / FrozenDict per case)."""

    def __init__(self, d, mutable):
        self.d, self.mutable = d, mutable

    def make(self):
        if self.mutable:
            return dict(self.d)
        from yaql.language import utils
        return utils.FrozenDict(self.d)

    def __repr__(self):
        return repr(self.d)


class _Expr:
    def __init__(self, code):
        self.code = code

    _cache = {}

    def make(self):
        # engines are immutable: one per run; everything else per case
        if 'YaqlFactory().create()' in self.code:
            if self.code not in _Expr._cache:
                _Expr._cache[self.code] = eval(
                    self.code, {'__import__': __import__})
            return _Expr._cache[self.code]
        return eval(self.code, {'__import__': __import__})

    def __repr__(self):
        return self.code


class _Iter:
    """Marker: pass a fresh one-shot iterator over these items."""

    def __init__(self, items):
        self.items = items


def bounded(target, params, requires, ensures, raises, is_gen, scope, repo,
            max_cases=20000, track_pulls=None, seq_result=False):
    fn = resolve(target, repo)
    names = list(params)
    ENG = "__import__('yaql').YaqlFactory().create()"
    doms = [[_Expr(ENG)] if n == 'engine' and params[n].get('kind') == 'val'
            else domain(params[n], scope) for n in names]
    total = ok = skipped = 0
    for combo in itertools.product(*doms):
        total += 1
        if total > max_cases:
            break
        args = {}
        spec_args = {}
        for n, v in zip(names, combo):
            if isinstance(v, _Iter):
                args[n] = spec_args[n] = _Counting(v.items)
                spec_args['old_' + n] = _Snapshot(v.items)
                if n == track_pulls:
                    spec_args['SRC'] = args[n]
            elif callable(v) and not isinstance(v, type):
                args[n] = spec_args[n] = _CountedFn(v)
            elif isinstance(v, _Expr):
                args[n] = spec_args[n] = v.make()
            elif isinstance(v, _Map):
                args[n] = spec_args[n] = v.make()
                spec_args['OLD_' + n] = dict(v.d)
                spec_args['old_' + n] = dict(v.d)
            else:
                args[n] = v
                spec_args[n] = v
        del _CASE_VALUES[:]
        for v_ in spec_args.values():
            _collect(v_, _CASE_VALUES)
        if seq_result:
            spec_args['__seq_result__'] = True
        verdict, info = run_case_split(fn, args, spec_args, requires, ensures,
                                       raises, is_gen)
        spec_args.pop('__seq_result__', None)
        if verdict == 'skip':
            skipped += 1
        elif verdict == 'ok':
            ok += 1
        else:
            return dict(status='failed', cases=total, detail=info,
                        input={n: (repr(spec_args[n].seq) if isinstance(
                            spec_args[n], _Counting) else repr(spec_args[n]))
                            for n in names})
    return dict(status='ok', cases=total, checked=ok, skipped=skipped)


def _invoke(fn, call_args):
    """Call fn with the arguments by name; a supplied *args parameter is
    spread (everything declared before it then goes positionally), a
    supplied **kwargs parameter is merged."""
    import inspect
    try:
        sig = inspect.signature(fn)
    except (TypeError, ValueError):
        return fn(**call_args)
    params = list(sig.parameters.items())
    var_pos = [nm for nm, p in params if p.kind is p.VAR_POSITIONAL]
    var_kw = [nm for nm, p in params if p.kind is p.VAR_KEYWORD]
    kw = {k: v for k, v in call_args.items()
          if k not in var_pos and k not in var_kw}
    for nm in var_kw:
        if nm in call_args:
            kw.update(call_args[nm])
    if var_pos and var_pos[0] in call_args:
        pos = []
        for nm, p in params:
            if p.kind is p.VAR_POSITIONAL:
                break
            pos.append(kw.pop(nm))      # KeyError: the case is ill-formed
        return fn(*(pos + list(call_args[var_pos[0]])), **kw)
    return fn(**kw)


def run_case_split(fn, call_args, spec_args, requires, ensures, raises,
                   is_gen):
    env = dict(_helpers())
    env.update(spec_args)
    for k_, v_ in list(spec_args.items()):
        env.setdefault('old_' + k_, v_)
    env['ncalls'] = lambda f: getattr(f, 'count', 0) if f is not None else 0
    env.pop('__seq_result__', None)
    src = spec_args.get('SRC')
    for r in requires:
        try:
            if not eval(_compile(r), env):
                return 'skip', None
        except Exception:
            return 'skip', None
    try:
        import inspect as _insp
        try:
            _names = set(_insp.signature(fn).parameters)
        except (TypeError, ValueError):
            _names = set(call_args)
        res = _invoke(fn, {k: v for k, v in call_args.items()
                           if k in _names})
        if is_gen or isinstance(res, types.GeneratorType) or (hasattr(
                res, '__next__') and not isinstance(res, _Counting)):
            items, pulls = [], []
            for x in itertools.islice(res, 10000):
                items.append(x)
                pulls.append(src.pos if src is not None else 0)
            res = tuple(items)
            env['out'] = res
            env['pulls'] = tuple(pulls)
        if isinstance(res, list) and spec_args.get('__seq_result__'):
            res = tuple(res)    # sequences are compared by content
        env['result'] = res
    except Exception as e:      # noqa
        allowed = None
        for c in type(e).__mro__:
            if raises and c.__name__ in raises:
                allowed = raises[c.__name__]
                break
        if allowed is None:
            return 'violation', 'unexpected %s: %s' % (type(e).__name__, e)
        env['raised'] = e
        try:
            if isinstance(allowed, str) and not eval(_compile(allowed), env):
                return 'violation', '%s raised outside its condition %r' % (
                    type(e).__name__, allowed)
        except Exception as e2:
            return 'violation', 'raises clause failed to evaluate: %r' % e2
        return 'ok', None
    for e in ensures:
        try:
            if not eval(_compile(e), env):
                return 'violation', 'ensures failed: %s (got %r)' % (
                    e, env.get('out', env.get('result')))
        except NameError:
            return 'skip', None     # a ghost name without a native twin
        except Exception as e2:
            return 'violation', 'ensures raised %s: %s [%s]' % (
                type(e2).__name__, e2, e)
    return 'ok', None


def main():
    job = json.load(sys.stdin)
    repo = job['repo']
    sys.path.insert(0, repo)
    import warnings
    warnings.simplefilter('ignore')
    out = []
    for j in job['jobs']:
        try:
            if j['mode'] == 'bounded':
                r = bounded(j['target'], j['params'], j['requires'],
                            j['ensures'], j.get('raises'), j.get('is_gen'),
                            j.get('scope', 2), repo,
                            j.get('max_cases', 20000),
                            track_pulls=j.get('track_pulls'),
                            seq_result=j.get('seq_result', False))
            elif j['mode'] == 'replay':
                fn = resolve(j['target'], repo)
                call, spec = {}, {}
                for n, v in j['args'].items():
                    d = j['params'].get(n, {})
                    if d.get('kind') == 'seq' and d.get('as') == 'iter':
                        call[n] = spec[n] = _Counting(tuple(v))
                        spec['old_' + n] = _Snapshot(tuple(v))
                        if n == j.get('track_pulls'):
                            spec['SRC'] = call[n]
                    elif d.get('kind') == 'seq':
                        v = tuple(v)
                        spec[n] = v
                        call[n] = list(v) if d.get('as') == 'list' else v
                    else:
                        call[n] = spec[n] = v
                if j.get('seq_result'):
                    spec['__seq_result__'] = True
                verdict, info = run_case_split(
                    fn, call, spec, j['requires'], j['ensures'],
                    j.get('raises'), j.get('is_gen'))
                r = dict(status={'violation': 'failed', 'ok': 'ok',
                                 'skip': 'skip'}[verdict], detail=info,
                         input={n: repr(v) for n, v in spec.items()})
            else:
                r = dict(status='error', detail='unknown mode')
        except Exception as e:      # noqa
            import traceback
            r = dict(status='error', detail='%s: %s' % (type(e).__name__, e),
                     trace=traceback.format_exc(limit=5))
        r['id'] = j.get('id')
        out.append(r)
    json.dump(out, sys.stdout)


if __name__ == '__main__':
    main()
