"""The world a function is verified in: repository modules (parsed on every
run from $VERIF_REPO), sidecar contracts, trusted models, loop cutting."""
import ast
import hashlib
import os
import z3

from . import sym as S
from ..speclang import lower_spec
from .sym import (SInt, SBool, SStr, SReal, SVal, SSeq, SMap, SFunc, Opaque,
                  TInt, TBool, TStr, TReal, TVal, TSeq, Unsupported)
from .interp import (Interp, Frame, FuncRef, ClassRef, ModuleRef, Model,
                     MList, BoundMethod, ExcVal, ReturnSig, RaiseSig,
                     BreakSig, ContinueSig, CutPath, BUILTIN_EXC)


CONST_MODULES = {'string'}


class RepoModule:
    def __init__(self, name, path):
        self.name, self.path = name, path
        src = open(path, 'rb').read()
        self.sha256 = hashlib.sha256(src).hexdigest()
        self.source = src.decode('utf-8')
        self.tree = ast.parse(self.source, filename=path)
        self.top = {}
        for node in self.tree.body:
            if isinstance(node, (ast.FunctionDef, ast.ClassDef)):
                self.top.setdefault(node.name, []).append(node)
            elif isinstance(node, ast.Assign):
                for t in node.targets:
                    if isinstance(t, ast.Name):
                        self.top.setdefault(t.id, []).append(node)
            elif isinstance(node, ast.Import):
                for a in node.names:
                    self.top.setdefault(a.asname or a.name.split('.')[0],
                                        []).append(('import', a.name
                                                    if a.asname else
                                                    a.name.split('.')[0]))
            elif isinstance(node, ast.ImportFrom):
                for a in node.names:
                    self.top.setdefault(a.asname or a.name, []).append(
                        ('from', node.module, a.name))


def _cid(c):
    m = c.module
    return (getattr(m, 'name', m), c.name)


class SuperProxy:
    def __init__(self, obj, after):
        self.obj, self.after = obj, after


class ObjVal:
    """Instance of a repository class with concrete shape."""
    _n = [0]
    _by_ident = {}      # boxed identity -> object (to unbox containers)

    def __init__(self, cls):
        self.cls = cls
        self.fields = {}
        ObjVal._n[0] += 1
        self.ident = '%s#%d' % (cls.name, ObjVal._n[0])
        ObjVal._by_ident[self.ident] = self

    def as_val(self):
        return S.named_const(self.ident)

    def __repr__(self):
        return '<%s object>' % self.cls.name


class IterSpec:
    def __init__(self, length, item, source=None):
        self.length, self.item, self.source = length, item, source


def find_function(module, qualname):
    """Locate a def/lambda by qualified name: a.b.<locals>.c"""
    parts = [p for p in qualname.split('.') if p != '<locals>']
    body = module.tree.body
    node = None
    for i, p in enumerate(parts):
        found = None
        # last definition with that name wins, as at run time
        for n in _walk_defs(body):
            if isinstance(n, (ast.FunctionDef, ast.ClassDef)) and n.name == p:
                found = n
        if found is None:
            return None
        node = found
        body = found.body
    return node


def _walk_defs(body):
    """defs directly in body, including under if/try/for at that level."""
    for n in body:
        if isinstance(n, (ast.FunctionDef, ast.ClassDef)):
            yield n
        elif isinstance(n, (ast.If, ast.For, ast.While, ast.Try, ast.With)):
            for fld in ('body', 'orelse', 'finalbody'):
                yield from _walk_defs(getattr(n, fld, []))
            for h in getattr(n, 'handlers', []):
                yield from _walk_defs(h.body)


class World:
    def __init__(self, repo_root=None):
        self.repo_root = repo_root or os.environ.get('VERIF_REPO', '/repo')
        self.modules = {}
        self.contracts = {}         # (module, qualname) -> Contract
        self.models = {}            # builtin name -> Model
        self.lib = {}               # (module, attr) -> value
        self.method_models = []     # callables(obj,name,args,kwargs,it,node)
        self.attr_models = []
        self.binop_models = []
        self.eq_models = []
        self.setattr_models = []
        self.opaque_globals = {}    # (module, name) -> value override
        self.opaque_sigs = {}       # method name -> fn(recv, args, kw, it)
        self.opaque_attrs = {}      # attribute name -> fn(recv, it)
        self.ctor_models = {}       # class name -> fn(args, kwargs, it)
        self.module_state = {}      # (module, name) -> value of a `global`
        self.loop_contracts = {}    # set per verification
        self.current_contract = None
        self.inlined = set()
        self.trusted_used = set()
        from . import models
        models.install(self)

    # ------------------------------------------------------ modules ----

    def module(self, name):
        if name not in self.modules:
            path = os.path.join(self.repo_root, *name.split('.')) + '.py'
            if not os.path.exists(path):
                path = os.path.join(self.repo_root, *name.split('.'),
                                    '__init__.py')
            if not os.path.exists(path):
                return None
            self.modules[name] = RepoModule(name, path)
        return self.modules[name]

    def is_repo_module(self, name):
        return name.split('.')[0] == 'yaql' and self.module(name) is not None

    def global_name(self, module, name, it):
        if module is not None:
            key = (module.name, name)
            if key in self.module_state:
                return self.module_state[key]
            if key in self.opaque_globals:
                return self.opaque_globals[key]
            ent = module.top.get(name)
            if ent:
                e = ent[-1]
                if isinstance(e, ast.FunctionDef):
                    return FuncRef(module, e, name)
                if isinstance(e, ast.ClassDef):
                    return self.class_ref(module, e)
                if isinstance(e, tuple) and e[0] == 'import':
                    return self.import_module(e[1])
                if isinstance(e, tuple) and e[0] == 'from':
                    full = e[1] + '.' + e[2]
                    if self.is_repo_module(full) or (
                            not self.is_repo_module(e[1])
                            and (full,) in self.lib):
                        return self.import_module(full)
                    if self.is_repo_module(e[1]):
                        return self.global_name(self.module(e[1]), e[2], it)
                    return self.module_attr(e[1], e[2], it)
                if isinstance(e, ast.Assign):
                    return self.eval_global_assign(module, name, e, it)
        if name in self.models:
            return self.models[name]
        if name in BUILTIN_EXC:
            return BUILTIN_EXC[name]
        raise Unsupported('unknown name %s' % name)

    def eval_global_assign(self, module, name, node, it):
        v = node.value
        if isinstance(v, ast.Constant):
            return v.value
        try:
            sub = Interp(self, it.path, spec=it.spec)
            return sub.eval(v, Frame(module=module))
        except Unsupported as e:
            if os.environ.get('PYVC_DEBUG'):
                print('global %s.%s opaque: %s' % (module.name, name, e))
            return Opaque('%s.%s' % (module.name, name))

    def import_module(self, full):
        return ModuleRef(full)

    def module_attr(self, modname, attr, it):
        if self.is_repo_module(modname):
            sub = modname + '.' + attr
            if self.is_repo_module(sub) and attr not in self.module(
                    modname).top:
                return ModuleRef(sub)
            return self.global_name(self.module(modname), attr, it)
        key = (modname, attr)
        if key in self.lib:
            self.trusted_used.add('%s.%s' % key)
            return self.lib[key]
        if (modname + '.' + attr,) in self.lib:
            return ModuleRef(modname + '.' + attr)
        if modname in CONST_MODULES:
            real = __import__(modname)
            if hasattr(real, attr):
                v = getattr(real, attr)
                if isinstance(v, (str, int, float, bool, tuple)):
                    self.trusted_used.add('%s.%s (constant of the running '
                                          'interpreter)' % key)
                    return v
            else:
                it.raise_('AttributeError', "module '%s' has no attribute "
                          "'%s'" % key)
        raise Unsupported('no model for %s.%s' % (modname, attr))

    # ------------------------------------------------------ classes ----

    def class_ref(self, module, node):
        bases = []
        for b in node.bases:
            bases.append(ast.unparse(b))
        return ClassRef(node.name, tuple(bases), module, node)

    def class_by_name(self, name, module):
        if isinstance(name, ClassRef):
            return name
        if name in BUILTIN_EXC:
            return BUILTIN_EXC[name]
        mods = []
        if '.' in name:
            # module-qualified base class: resolve the qualifier through the
            # defining module's imports
            prefix, name = name.rsplit('.', 1)
            target = None
            if module is not None and not isinstance(module, str):
                ent = module.top.get(prefix.split('.')[0])
                if ent and isinstance(ent[-1], tuple):
                    e = ent[-1]
                    target = e[1] if e[0] == 'import' else e[1] + '.' + e[2]
                    rest = prefix.split('.')[1:]
                    if rest:
                        target += '.' + '.'.join(rest)
            if target and self.is_repo_module(target):
                module = self.module(target)
            else:
                module = None
        if module is not None and not isinstance(module, str):
            mods.append(module)
        m = self.module('yaql.language.exceptions')
        if m is not None:
            mods.append(m)
        for m in mods:
            ent = m.top.get(name)
            if ent and isinstance(ent[-1], ast.ClassDef):
                return self.class_ref(m, ent[-1])
        if name == 'object':
            return None
        return ClassRef(name, (), None)

    def unhashable_class(self, cls):
        """Python's rule: a class whose body defines __eq__ without
        __hash__ (or sets __hash__ = None) makes its instances unhashable;
        the nearest class in the MRO that mentions either decides."""
        todo, seen = [cls], set()
        while todo:
            c = todo.pop(0)
            if c is None or _cid(c) in seen or c.node is None:
                continue
            seen.add(_cid(c))
            names, hash_none = set(), False
            for st in c.node.body:
                if isinstance(st, ast.FunctionDef):
                    names.add(st.name)
                elif isinstance(st, ast.Assign):
                    for t in st.targets:
                        if isinstance(t, ast.Name):
                            names.add(t.id)
                            if t.id == '__hash__' and isinstance(
                                    st.value, ast.Constant) and \
                                    st.value.value is None:
                                hash_none = True
            if hash_none:
                return True
            if '__hash__' in names:
                return False
            if '__eq__' in names:
                return True
            for b in c.bases:
                todo.append(self.class_by_name(b, c.module))
        return False

    def check_hashable(self, key, it, node=None):
        if isinstance(key, ObjVal) and self.unhashable_class(key.cls):
            it.raise_('TypeError', "unhashable type: '%s'" % key.cls.name,
                      node=node)
        if isinstance(key, (list, dict, set)) and not getattr(
                type(key), 'pyvc_attrs', None):
            it.raise_('TypeError', 'unhashable type', node=node)

    def find_method(self, cls, name):
        todo, seen = [cls], set()
        while todo:
            c = todo.pop(0)
            if c is None or _cid(c) in seen or c.node is None:
                continue
            seen.add(_cid(c))
            for n in c.node.body:
                if isinstance(n, ast.FunctionDef) and n.name == name:
                    return c, n
                if isinstance(n, ast.Assign) and any(
                        isinstance(t, ast.Name) and t.id == name
                        for t in n.targets):
                    return c, n
            for b in c.bases:
                todo.append(self.class_by_name(b, c.module))
        return None, None

    def linear_mro(self, cls):
        out, todo = [], [cls]
        while todo:
            c = todo.pop(0)
            if c is None or c.node is None or any(
                    _cid(c) == _cid(x) for x in out):
                continue
            out.append(c)
            todo.extend(self.class_by_name(b, c.module) for b in c.bases)
        return out

    def find_method_after(self, cls, after, name):
        mro = self.linear_mro(cls)
        names = [_cid(c) for c in mro]
        start = names.index(_cid(after)) + 1 if _cid(after) in names else 0
        for c in mro[start:]:
            for n in c.node.body:
                if isinstance(n, ast.FunctionDef) and n.name == name:
                    return c, n
        return None, None

    def construct(self, cls, args, kwargs, it, node):
        if cls.name in self.ctor_models:
            return self.ctor_models[cls.name](args, kwargs, it)
        if 'BaseException' in cls.mro_names(self) or cls.module == 'builtins':
            return ExcVal(cls, tuple(args), getattr(node, 'lineno', None))
        for m in self.method_models:
            r = m(cls, '__new__', args, kwargs, it, node)
            if r is not NotImplemented:
                return r
        obj = ObjVal(cls)
        owner, init = self.find_method(cls, '__init__')
        if init is not None:
            it.call_func(FuncRef(owner.module, init,
                                 owner.name + '.__init__', self_obj=obj,
                                 owner=owner,
                                 closure=getattr(owner, 'closure', None)),
                         args, kwargs, node)
        return obj

    def _assigned_in_class(self, cls, name):
        seen, todo = set(), [cls]
        while todo:
            c = todo.pop()
            if c is None or c.name in seen or c.node is None:
                continue
            seen.add(c.name)
            for n in ast.walk(c.node):
                if isinstance(n, ast.Attribute) and n.attr == name and \
                        isinstance(n.ctx, ast.Store) and \
                        isinstance(n.value, ast.Name) and n.value.id == 'self':
                    return True
            todo.extend(self.class_by_name(b, c.module) for b in c.bases)
        return False

    def local_class(self, node, fr, it):
        c = ClassRef(node.name, tuple(ast.unparse(b).split('.')[-1]
                                      for b in node.bases),
                     fr.module, node)
        c.closure = fr          # methods see the defining function's locals
        return c

    # ----------------------------------------------- model dispatch ----

    def attr_model(self, obj, name, it):
        if isinstance(obj, ObjVal):
            if name in obj.fields:
                return obj.fields[name]
            owner, m = self.find_method(obj.cls, name)
            if isinstance(m, ast.FunctionDef):
                decos = [ast.unparse(d) for d in m.decorator_list]
                if 'property' in decos:
                    return it.call_func(FuncRef(
                        owner.module, m, name, self_obj=obj,
                        closure=getattr(owner, 'closure', None)), [], {})
                if 'staticmethod' in decos:
                    return FuncRef(owner.module, m,
                                   owner.name + '.' + name, owner=owner)
                return FuncRef(owner.module, m, owner.name + '.' + name,
                               self_obj=obj, owner=owner,
                               closure=getattr(owner, 'closure', None))
            if isinstance(m, ast.Assign):
                return it.eval(m.value, Frame(module=owner.module))
            if name in ('items', 'keys', 'values') and \
                    'Mapping' in obj.cls.mro_names(self):
                # collections.abc.Mapping mixin: derived from the class's
                # own __iter__ / __getitem__
                return BoundMethod(obj, 'mapping-mixin:' + name)
            if self._assigned_in_class(obj.cls, name):
                # an instance field the contract does not describe but some
                # method of the class stores: the object may have any
                # history, so the field holds an ARBITRARY value
                v = TVal.fresh('%s.%s' % (obj.cls.name, name))
                obj.fields[name] = v
                return v
            raise Unsupported('no attribute %s on %r' % (name, obj))
        if isinstance(obj, SuperProxy):
            owner, m = self.find_method_after(obj.obj.cls, obj.after, name)
            if isinstance(m, ast.FunctionDef):
                return FuncRef(owner.module, m, owner.name + '.' + name,
                               self_obj=obj.obj, owner=owner)
            raise Unsupported('super().%s not found' % name)
        if isinstance(obj, ClassRef):
            owner, m = self.find_method(obj, name)
            if isinstance(m, ast.FunctionDef):
                return FuncRef(owner.module, m, owner.name + '.' + name)
            if isinstance(m, ast.Assign):
                return it.eval(m.value, Frame(module=owner.module))
        if isinstance(obj, ExcVal) and name == 'args':
            return tuple(obj.args)
        if isinstance(obj, WriteLog) and name in ('keys', 'vals'):
            return getattr(obj, name)
        for m in self.attr_models:
            r = m(obj, name, it)
            if r is not NotImplemented:
                return r
        return NotImplemented

    def setattr_model(self, obj, name, v, it, node):
        if isinstance(obj, ObjVal):
            obj.fields[name] = v
            return
        for m in self.setattr_models:
            r = m(obj, name, v, it, node)
            if r is not NotImplemented:
                return
        raise Unsupported('attribute store .%s on %r' % (name, obj))

    def method_model(self, obj, name, args, kwargs, it, node):
        if name.startswith('mapping-mixin:') and isinstance(obj, ObjVal):
            what = name.split(':')[1]
            keys = it.concrete_items(it.call(self.attr_model(
                obj, '__iter__', it), [], {}, node))
            if what == 'keys':
                return tuple(keys)
            get = self.attr_model(obj, '__getitem__', it)
            vals = [it.call(get, [k], {}, node) for k in keys]
            return tuple(vals) if what == 'values' else tuple(
                zip(keys, vals))
        for m in self.method_models:
            r = m(obj, name, args, kwargs, it, node)
            if r is not NotImplemented:
                return r
        raise Unsupported('method .%s of %r' % (name, obj))

    def binop_model(self, op, a, b, it):
        for m in self.binop_models:
            r = m(op, a, b, it)
            if r is not NotImplemented:
                return r
        return NotImplemented

    def eq_model(self, a, b, it):
        for m in self.eq_models:
            r = m(a, b, it)
            if r is not NotImplemented:
                return r
        if isinstance(a, MList):
            a = a.seq
        if isinstance(b, MList):
            b = b.seq
        if isinstance(a, (set, frozenset)) and isinstance(
                b, (set, frozenset)) and any(S.is_sym(x) for x in
                                             list(a) + list(b)):
            # sets with symbolic members: mutual inclusion
            def inc(xs, ys):
                parts = []
                for x in xs:
                    alts = [S.as_bool_term(self.eq_model(x, y, it))
                            for y in ys]
                    parts.append(z3.Or(*alts) if alts else z3.BoolVal(False))
                return z3.And(*parts) if parts else z3.BoolVal(True)
            return z3.And(inc(a, b), inc(b, a))
        if isinstance(a, (tuple, list)) and isinstance(b, (tuple, list)):
            if len(a) != len(b):
                return False
            terms = []
            for x, y in zip(a, b):
                r = self.eq_model(x, y, it)
                if isinstance(r, bool):
                    if not r:
                        return False
                    continue
                terms.append(r)
            return z3.And(*terms) if terms else True
        def _fd(x):
            # a yaql FrozenDict compares as the mapping it wraps
            # (collections.abc.Mapping.__eq__)
            if isinstance(x, ObjVal) and x.cls.name == 'FrozenDict' and \
                    isinstance(x.fields.get('_d'), dict):
                return x.fields['_d']
            return x
        if (isinstance(a, ObjVal) or isinstance(b, ObjVal)) and \
                isinstance(_fd(a), dict) and isinstance(_fd(b), dict):
            a, b = _fd(a), _fd(b)
        if isinstance(a, dict) and isinstance(b, dict):
            # mappings of equal size (keys distinct within each): every
            # entry of one has an equal entry in the other - whatever the
            # order the entries were written in
            if len(a) != len(b):
                return False
            terms = []
            for k1, v1 in a.items():
                alts = []
                for k2, v2 in b.items():
                    rk = self.eq_model(k1, k2, it)
                    if rk is False:
                        continue
                    rv = self.eq_model(v1, v2, it)
                    if rv is False:
                        continue
                    both = [S.as_bool_term(r) for r in (rk, rv)
                            if not isinstance(r, bool)]
                    if not both:
                        alts = [True]
                        break
                    alts.append(z3.And(*both) if len(both) > 1 else both[0])
                if not alts:
                    return False
                if alts != [True]:
                    terms.append(z3.Or(*alts) if len(alts) > 1 else alts[0])
            return z3.And(*terms) if terms else True
        if isinstance(a, ObjVal) and isinstance(b, SVal):
            return a.as_val() == b.t
        if isinstance(b, ObjVal) and isinstance(a, SVal):
            return b.as_val() == a.t
        if isinstance(a, (ObjVal, FuncRef, ClassRef)) or isinstance(
                b, (ObjVal, FuncRef, ClassRef)):
            return a is b
        return S.equal(a, b)

    def setitem_model(self, obj, idx, v, it, node):
        if isinstance(obj, SVal):
            # item store into an opaque object: a logged effect
            it.calls.append(('setitem', (obj, idx, v), None))
            return True
        if isinstance(obj, SMapCell):
            obj.store(idx, v)
            return True
        if isinstance(obj, WriteLog):
            obj.write(idx, v)
            return True
        return NotImplemented

    def opaque_sig(self, name, ret='Val', log=False, alloc=False):
        """Declare method `name` of opaque objects as an uninterpreted
        function of the receiver and its (boxed) arguments; with log=True
        every call is appended to the ghost call log (effectful callee).
        alloc=True: the method ALLOCATES - the k-th call (ghost counter
        ncalls("m.<name>")) returns the object `m.<name>#(recv, args, k)`,
        distinct for distinct k."""
        from . import models
        if alloc:
            self.alloc_sigs = getattr(self, 'alloc_sigs', set()) | {
                'm.' + name}

        def call(recv, args, kw, it):
            self.trusted_used.add('opaque method .%s() uninterpreted' % name)
            sym = 'm.' + name
            extra = ()
            if kw:
                sym += '$' + '$'.join(sorted(kw))
                extra = tuple(kw[k] for k in sorted(kw))
            if alloc and not it.spec:
                k = it.ncalls.get('m.' + name, z3.IntVal(0))
                r = models.apply_uf(sym + '#', (recv,) + tuple(args) + extra
                                    + (SInt(k),), ret)
                it.ncalls['m.' + name] = z3.simplify(k + 1)
                # (objects of different calls are different terms; their
                # distinctness is not asserted - no contract needs it)
                if log:
                    it.calls.append((sym, (recv,) + tuple(args) + extra, r))
                return r
            r = models.apply_uf(sym, (recv,) + tuple(args) + extra, ret)
            if log:
                it.calls.append((sym, (recv,) + tuple(args) + extra, r))
            return r
        self.opaque_sigs[name] = call

    def opaque_ctor(self, clsname):
        """Constructor of class `clsname` as an uninterpreted allocation."""
        from . import models

        def make(args, kwargs, it):
            sym = 'new:' + clsname
            extra = ()
            if kwargs:
                sym += '$' + '$'.join(sorted(kwargs))
                extra = tuple(kwargs[k] for k in sorted(kwargs))
            r = models.apply_uf(sym, tuple(args) + extra, 'Val')
            it.calls.append((sym, tuple(args) + extra, r))
            return r
        self.ctor_models[clsname] = make

    def delitem_model(self, obj, idx, it, node):
        for h in getattr(self, 'delitem_hooks', []):
            if h(obj, idx, it, node) is not NotImplemented:
                return
        if isinstance(obj, dict) and not S.is_sym(idx):
            if idx not in obj:
                it.raise_('KeyError', idx, node=node)
            del obj[idx]
            return
        if isinstance(obj, SMapCell):
            if not it.branch(obj.m.has(idx)):
                it.raise_('KeyError', idx, node=node)
            obj.delete(idx)
            return
        raise Unsupported('del item of %r' % (obj,))

    def unpack_model(self, v, n, it, node):
        if isinstance(v, SVal):
            v = SVal(z3.simplify(v.t))
        if isinstance(v, SVal) and z3.is_app(v.t) and \
                v.t.decl().name().split('/')[0] in ('pytuple', 'pylist'):
            # a tuple / list that was boxed into a value (e.g. yielded by an
            # inlined generator): its components, exactly
            kids = v.t.children()
            if len(kids) != n:
                it.raise_('ValueError', 'unpack arity', node=node)
            out = []
            for k in kids:
                o = None
                if z3.is_const(k) and k.decl().name().startswith('obj:'):
                    o = ObjVal._by_ident.get(k.decl().name()[4:])
                out.append(o if o is not None else SVal(k))
            return out
        if isinstance(v, SVal):
            # an opaque value unpacks only if it is an iterable of n items;
            # modelled kinds: str (its characters); None / numbers raise
            is_str = S.tag_fn(v.t) == 4
            if it.branch(is_str):
                s = S.unbox_str(v.t)
                if it.branch(z3.Length(s) == n):
                    return [SStr(z3.SubString(s, i, 1)) for i in range(n)]
                it.raise_('ValueError', 'unpack arity', node=node)
            if it.branch(S.tag_fn(v.t) < 4):
                it.raise_('TypeError', 'cannot unpack non-iterable',
                          node=node)
            raise Unsupported('unpack of opaque non-scalar value')
        if hasattr(v, 'unpack'):
            return v.unpack(n, it, node)
        return NotImplemented

    # ------------------------------------------------- iteration ----

    def iter_spec(self, v, it):
        if isinstance(v, IterSpec):
            return v
        if isinstance(v, MList):
            v = v.seq
        if isinstance(v, (tuple, list)):
            items = list(v)
            return IterSpec(len(items), lambda k: items[k]
                            if isinstance(k, int) else _sel(items, k))
        if isinstance(v, (set, frozenset)):
            items = list(v)
            return IterSpec(len(items), lambda k: items[k])
        if isinstance(v, dict):
            items = list(v)
            return IterSpec(len(items), lambda k: items[k])
        if isinstance(v, str):
            return IterSpec(len(v), lambda k: v[k])
        if isinstance(v, S.SIter):
            # iterating a one-shot iterator pulls what is left of it
            rest = v.remaining()
            it_obj = v

            def item(k, rest=rest):
                return rest.get(k)
            sp = IterSpec(rest.length, item, source=v)
            sp.consume = lambda n: setattr(
                it_obj, 'pos', z3.simplify(it_obj.pos + (
                    n if z3.is_expr(n) else z3.IntVal(n))))
            return sp
        if isinstance(v, SSeq):
            return IterSpec(v.length, lambda k: v.get(k), source=v)
        if isinstance(v, SStr):
            return IterSpec(z3.Length(v.t), lambda k: SStr(
                z3.SubString(v.t, k if z3.is_expr(k) else z3.IntVal(k), 1)))
        if isinstance(v, SVal) and it is not None and \
                getattr(it, 'path', None) is not None:
            # an opaque value KNOWN to be an iterable (the path says so): a
            # finite uninterpreted sequence; walking it is an event
            from . import models
            known = not it.path.feasible(z3.Not(
                models.isinst_fn('Iterable')(v.t)))
            if known:
                n = models.uf('py.iterlen', S.Val, z3.IntSort())(v.t)
                it.path.assume(n >= 0)
                arr = models.uf('py.iteritems', S.Val, z3.ArraySort(
                    z3.IntSort(), S.Val))(v.t)
                self.trusted_used.add('iteration over an opaque iterable: '
                                      'a finite uninterpreted sequence')
                it.calls.append(('iter', (v,), None))
                if S.FIXED_SEQ_LEN[0] is not None:
                    # refutation mode: an iterable of that many items
                    it.path.assume(n == S.FIXED_SEQ_LEN[0])
                    n = z3.IntVal(S.FIXED_SEQ_LEN[0])
                q = SSeq(n, arr, TVal, kind='tuple')
                return IterSpec(q.length, lambda k: q.get(k), source=q)
        raise Unsupported('iteration over %r' % (v,))

    # ----------------------------------------------------- loops ----

    def loop_info(self, it, node):
        fnode = it.fn_stack[-1] if it.fn_stack else None
        c = self.current_contract
        if c is None or fnode is not c.fn_node:
            return None
        loops = [n for n in ast.walk(fnode)
                 if isinstance(n, (ast.For, ast.While))
                 and _owner(fnode, n) is fnode]
        loops.sort(key=lambda n: (n.lineno, n.col_offset))
        k = loops.index(node)
        head = ast.unparse(node).split('\n')[0]
        spec = c.loops[k] if k < len(c.loops) else None
        if spec is None or (spec.get('anchor') and not head.startswith(
                spec['anchor']) and _unify_header(spec['anchor'], node)
                is None):
            # loops were added / removed / reordered around it: the loop
            # contract belongs to the loop whose header it names - provided
            # exactly one loop of the function carries that header
            cands = [sp for sp in c.loops if sp and sp.get('anchor') and (
                head.startswith(sp['anchor']) or _unify_header(
                    sp['anchor'], node) is not None)]
            same = [n for n in loops if n is not node and any(
                ast.unparse(n).split('\n')[0].startswith(sp['anchor'])
                or _unify_header(sp['anchor'], n) is not None
                for sp in cands)]
            if len(cands) == 1 and not same:
                spec = cands[0]
            elif spec is None:
                return None
        if spec.get('anchor') and not head.startswith(spec['anchor']):
            # the same loop with consistently renamed variables is still the
            # anchored loop: the invariant's names are aliased to the new ones
            alias = _unify_header(spec['anchor'], node)
            if alias is None:
                raise Unsupported('loop anchor moved: expected %r, found %r'
                                  % (spec['anchor'], head))
            spec = dict(spec)
            spec['alias'] = alias
        # locals the invariants mention that were renamed since the contract
        # was written: the local that is first bound the same way
        try:
            from . import fingerprints
            wanted = set()
            for inv in spec.get('invariant') or ():
                for n in ast.walk(ast.parse(inv.strip(), mode='eval')):
                    if isinstance(n, ast.Name):
                        wanted.add(n.id)
            wanted |= set(spec.get('havoc') or ())
            ren = fingerprints.renamed_locals(c.target, fnode, wanted)
        except Exception:       # noqa
            ren = {}
        if ren:
            spec = dict(spec)
            merged = dict(ren)
            merged.update(spec.get('alias') or {})
            spec['alias'] = merged
        return spec

    def exec_loop(self, it, node, fr):
        spec = self.loop_info(it, node)
        if spec is None:
            return self.unroll_loop(it, node, fr)
        return self.cut_loop(it, node, fr, spec)

    def unroll_loop(self, it, node, fr):
        if isinstance(node, ast.For):
            src = it.eval(node.iter, fr)
            ispec = self.iter_spec(src, it)
            n = ispec.length
            if z3.is_expr(n):
                n = z3.simplify(n)
                if not z3.is_int_value(n):
                    forced = it.path.concretize(n)
                    if forced is None:
                        raise Unsupported(
                            'loop over symbolic length without invariant '
                            '(line %d)' % node.lineno)
                    n = z3.IntVal(forced)
                n = n.as_long()
            broke = False
            consume = getattr(ispec, 'consume', None)
            for k in range(n):
                it.assign_target(node.target, ispec.item(k), fr)
                if consume:
                    consume(1)
                try:
                    it.exec_block(node.body, fr)
                except BreakSig:
                    broke = True
                    break
                except ContinueSig:
                    continue
            if not broke:
                it.exec_block(node.orelse, fr)
            return
        bound = 0
        while True:
            if not it.branch(it.truth(it.eval(node.test, fr))):
                it.exec_block(node.orelse, fr)
                return
            bound += 1
            if bound > (8 if S.FIXED_SEQ_LEN[0] is not None else 64):
                raise Unsupported('while loop without invariant exceeds '
                                  'unrolling bound (line %d)' % node.lineno)
            try:
                it.exec_block(node.body, fr)
            except BreakSig:
                return
            except ContinueSig:
                continue

    def cut_loop(self, it, node, fr, spec):
        path = it.path
        is_for = isinstance(node, ast.For)
        line = node.lineno
        name = self.current_contract.short
        n = None
        ispec = None
        idx_name = spec.get('index', '_n')
        base = dict(fr.vars)
        if is_for:
            src = it.eval(node.iter, fr)
            ispec = self.iter_spec(src, it)
        # 1. invariant holds on entry (index = 0)
        ghost = Frame(parent=fr)
        if is_for:
            ghost.vars[idx_name] = 0
        self.ghost_env(it, ghost, spec.get('alias'))
        for j, inv in enumerate(spec.get('invariant', [])):
            g = self.spec_eval(it, inv, ghost)
            ob = path.prove(g, '%s:inv-init:%d:%d' % (name, line, j + 1),
                            'inv-init', line)
            ob.text = inv
        # 2. havoc everything the body may modify
        mods = _modified_names(node)
        rebound = _modified_names(node, rebinds_only=True)
        for nm in sorted(mods):
            if fr.has(nm):
                cur = fr.lookup(nm)
                if nm not in rebound and (cur is None or isinstance(
                        cur, (int, str, bool, SInt, SStr, SBool))):
                    # only "mutated" through a method call, but bound to an
                    # immutable value: it cannot change
                    continue
                self.havoc(it, fr, nm, spec)
        if _has_yield(node) and it.out is not None:
            it.out.seq = TSeq(it.out.seq.elem).fresh('out', path.pc)
            path.assume(it.out.seq.length >= 0)
            for gname in ('pulls', 'yoff', 'ylen', 'ycalls'):
                if gname in it.ghost_vars:
                    pl = it.ghost_vars[gname]
                    pl.seq = TSeq(TInt).fresh(gname)
                    path.assume(pl.seq.length == it.out.seq.length)
        if _may_call(node):
            # ghost call counters of every callback in scope: arbitrary
            # (the invariant says what is known about them)
            f = fr
            names = set(it.ncalls)
            while f is not None:
                names.update(v.name for v in f.vars.values()
                             if isinstance(v, SFunc))
                f = f.parent
            for nm in sorted(names):
                k = z3.Int(S.fresh_name('ncalls_' + nm))
                path.assume(k >= 0)
                it.ncalls[nm] = k
        ghost = Frame(parent=fr)
        if is_for:
            n = z3.Int(S.fresh_name(idx_name))
            path.assume(n >= 0)
            ln = ispec.length if z3.is_expr(ispec.length) \
                else z3.IntVal(ispec.length)
            path.assume(n <= ln)
            ghost.vars[idx_name] = SInt(n)
            if hasattr(ispec, 'consume'):
                # at the head of the arbitrary iteration the one-shot source
                # has been advanced by the n elements already handed out
                # (the invariant is stated - and assumed - in THAT state)
                ispec.consume(n)
        self.ghost_env(it, ghost, spec.get('alias'))
        for inv in spec.get('invariant', []):
            path.assume(S.as_bool_term(it.truth(
                self.spec_eval(it, inv, ghost))))
        # 3. one arbitrary iteration, or exit
        if is_for:
            go = it.branch(n < ln)
        else:
            go = it.branch(it.truth(it.eval(node.test, fr)))
        if not go:
            # (n == ln here: the source is exhausted, pos = base + ln)
            it.exec_block(node.orelse, fr)
            return
        if is_for:
            it.assign_target(node.target, ispec.item(n), fr)
            if hasattr(ispec, 'consume'):
                ispec.consume(1)
        try:
            it.exec_block(node.body, fr)
        except BreakSig:
            return
        except ContinueSig:
            pass
        ghost = Frame(parent=fr)
        if is_for:
            ghost.vars[idx_name] = SInt(n + 1)
        self.ghost_env(it, ghost, spec.get('alias'))
        if os.environ.get('PYVC_DEBUG'):
            print('DEBUG inv-step path feasible:', path.feasible(),
                  'decisions', path.taken)
        for j, inv in enumerate(spec.get('invariant', [])):
            g = self.spec_eval(it, inv, ghost)
            ob = path.prove(g, '%s:inv-step:%d:%d' % (name, line, j + 1),
                            'inv-step', line, assume_after=False)
            ob.text = inv
        raise CutPath()

    def ghost_env(self, it, ghost, alias=None):
        if it.out is not None:
            ghost.vars['out'] = it.out.seq
        ghost.vars.update(it.ghost_vars)
        ghost.vars.update(self.spec_helpers(it))
        for old_name, new_name in (alias or {}).items():
            if old_name != new_name and ghost.parent is not None and \
                    ghost.parent.has(new_name) and \
                    old_name not in ghost.vars:
                ghost.vars[old_name] = ghost.parent.lookup(new_name)

    def havoc(self, it, fr, nm, spec):
        cur = fr.lookup(nm)
        inv_alias = {v: k for k, v in (spec.get('alias') or {}).items()}
        decl = (spec.get('havoc') or {}).get(inv_alias.get(nm, nm))
        if decl == 'SSet':
            decl = None
        pc = it.path
        facts = []
        if decl is not None:
            new = decl.fresh(nm, facts)
            if isinstance(cur, MList) and isinstance(new, SSeq):
                cur.seq = new
                new = cur
            elif isinstance(cur, SMapCell) and isinstance(new, SMap):
                cur.m = new
                new = cur
            elif isinstance(new, SSeq) and isinstance(cur, list):
                new = MList(SSeq(new.length, new.arr, new.elem, kind='list'))
        elif isinstance(cur, MList):
            cur.seq = TSeq(cur.seq.elem).fresh(nm, facts)
            cur.seq.kind = 'list'
            new = cur
        elif isinstance(cur, SMapCell):
            cur.m = S.TMap(cur.m.key_t, cur.m.val_t).fresh(nm, facts)
            new = cur
        elif isinstance(cur, S.SSet):
            cur.arr = S.TSet(cur.elem).fresh(nm).arr
            new = cur
        elif isinstance(cur, WriteLog):
            cur.keys.seq = TSeq(cur.keys.seq.elem).fresh(nm + '.keys', facts)
            cur.vals.seq = TSeq(TVal).fresh(nm + '.vals', facts)
            facts.append(cur.keys.seq.length == cur.vals.seq.length)
            new = cur
        elif isinstance(cur, SSeq):
            new = TSeq(cur.elem).fresh(nm, facts)
            new.kind = cur.kind
        elif isinstance(cur, (SBool, bool)):
            new = TBool.fresh(nm)
        elif isinstance(cur, (SInt, int)):
            new = TInt.fresh(nm)
        elif isinstance(cur, (SStr, str)):
            new = TStr.fresh(nm)
        elif isinstance(cur, SReal):
            new = TReal.fresh(nm)
        elif isinstance(cur, SVal) or cur is None:
            new = TVal.fresh(nm)
        elif isinstance(cur, tuple):
            new = tuple(_fresh_like(x, nm) for x in cur)
        elif isinstance(cur, dict) and all(isinstance(k, str) for k in cur):
            new = {k: _fresh_like(v, nm + '.' + k) for k, v in cur.items()}
        else:
            raise Unsupported('cannot havoc %s = %r (declare havoc type in '
                              'the loop contract)' % (nm, cur))
        for f in facts:
            pc.assume(f)
        f = fr
        while f is not None:
            if nm in f.vars:
                f.vars[nm] = new
                break
            f = f.parent

    # ------------------------------------------------- contracts ----

    def contract_for(self, fn):
        return self.contracts.get((fn.module.name, fn.qualname))

    def callee_contract(self, target, result=None, requires=(), ensures=(),
                        raises=None):
        """Register the contract a call site sees for repository function
        `target` (modular verification: callers never look at its body)."""
        from .verify import Contract
        c = Contract(target, requires=requires, ensures=ensures,
                     result=result or TVal, raises=raises)
        c.resolve(self)
        self.contracts[(c.module.name, c.qualname)] = c
        return c

    def spec_helpers(self, it):
        from . import models
        return models.spec_helpers(self, it)

    def spec_eval(self, it, text, frame):
        """Evaluate a contract expression (pure, merging) to a value."""
        tree = lower_spec(ast.parse(text.strip(), mode='eval')).body
        sub = Interp(self, it.path, spec=True)
        sub.out = it.out
        sub.ghost_vars = it.ghost_vars
        sub.calls_ghost = it.calls_ghost
        sub.ncalls = it.ncalls
        return sub.eval(tree, frame)

    def apply_contract(self, c, fn, args, kwargs, it, node):
        """Modular call: assert requires, havoc result, assume ensures."""
        fr = Frame(module=fn.module)
        it.bind_params(fn, args, dict(kwargs), fr)
        self.ghost_env(it, fr)
        line = getattr(node, 'lineno', None)
        caller = self.current_contract.short if self.current_contract else '?'
        for j, r in enumerate(c.requires):
            g = self.spec_eval(it, r, fr)
            it.path.prove(g, '%s:pre:%s:%s:%d' % (caller, c.short, line,
                                                  j + 1), 'pre', line)
        if c.result is None:
            raise Unsupported('contract %s has no result type' % c.short)
        if c.may_raise:
            # the callee may also raise one of its declared exceptions
            # (nondeterministically, as far as the caller can tell)
            for exc_name in c.raises:
                b = z3.Bool(S.fresh_name('raises_%s_%s' % (
                    c.short.split('.')[-1], exc_name)))
                if it.branch(b):
                    it.calls.append(('contract:' + c.short, tuple(
                        fr.vars.get(p) for p in c.param_order(fn)), None))
                    it.raise_(exc_name, node=node)
        facts = []
        res = c.result.fresh('ret_' + c.short.split('.')[-1], facts)
        for f in facts:
            it.path.assume(f)
        fr.vars['result'] = res
        for e in c.ensures:
            it.path.assume(S.as_bool_term(it.truth(
                self.spec_eval(it, e, fr))))
        it.calls.append(('contract:' + c.short, tuple(
            fr.vars.get(p) for p in c.param_order(fn)), res))
        return res

    # ------------------------------------------------ generators ----

    def do_yield(self, ynode, fr, it):
        if isinstance(ynode, ast.YieldFrom):
            src = it.eval(ynode.value, fr)
            if it.out is None:
                raise Unsupported('yield outside generator context')
            if isinstance(src, SVal):
                # an opaque iterable: a finite uninterpreted sequence
                from . import models
                n = models.uf('py.iterlen', S.Val, z3.IntSort())(src.t)
                it.path.assume(n >= 0)
                arr = models.uf('py.iteritems', S.Val, z3.ArraySort(
                    z3.IntSort(), S.Val))(src.t)
                self.trusted_used.add('yield from an opaque iterable: a '
                                      'finite uninterpreted sequence')
                src = SSeq(n, arr, TVal, kind='tuple')
            items = self.iter_spec(src, it)
            if isinstance(items.length, int) or z3.is_int_value(
                    z3.simplify(items.length)):
                n = items.length if isinstance(items.length, int) \
                    else z3.simplify(items.length).as_long()
                for k in range(n):
                    it.out.seq = S.seq_append(it.out.seq, items.item(k))
                return
            if isinstance(src, (SSeq, MList)):
                q = src.seq if isinstance(src, MList) else src
                n0 = it.out.seq.length
                it.out.seq = S.seq_concat(it.out.seq, q)
                # the ghosts that run parallel to `out`: every element of
                # the block is emitted in the present state
                consts = {}
                if 'pulls' in it.ghost_vars and hasattr(
                        it.ghost_vars.get('SRC'), 'pos'):
                    consts['pulls'] = it.ghost_vars['SRC'].pos
                if 'ycalls' in it.ghost_vars:
                    consts['ycalls'] = z3.IntVal(len(it.calls))
                for gname, cv in consts.items():
                    pl = it.ghost_vars[gname]
                    k = z3.Int(S.fresh_name('k'))
                    arr = z3.Lambda([k], z3.If(k < n0, pl.seq.at(k), cv))
                    pl.seq = SSeq(z3.simplify(n0 + q.length), arr, TInt,
                                  kind='list')
                return
            if isinstance(src, S.SIter):
                # delegating to a one-shot iterator: each element is yielded
                # right after it is pulled
                rest = src.remaining()
                base = src.pos
                n0 = it.out.seq.length
                it.out.seq = S.seq_concat(it.out.seq, rest)
                src.pos = src.seq.length
                if 'pulls' in it.ghost_vars and it.ghost_vars.get(
                        'SRC') is src:
                    pl = it.ghost_vars['pulls']
                    k = z3.Int(S.fresh_name('k'))
                    arr = z3.Lambda([k], z3.If(
                        k < n0, pl.seq.at(k), base + (k - n0) + 1))
                    pl.seq = SSeq(z3.simplify(n0 + rest.length), arr, TInt,
                                  kind='list')
                return
            raise Unsupported('yield from %r' % (src,))
        v = it.eval(ynode.value, fr) if ynode.value is not None else None
        if it.out is None:
            raise Unsupported('yield outside generator context')
        it.out.seq = S.seq_append(it.out.seq, v)
        for hook in it.yield_hooks:
            hook(it, v)

    def run_generator(self, fn, fr, it, node):
        """Inlined callee generator: run eagerly, return its output."""
        saved = it.out
        it.out = MList(SSeq(z3.IntVal(0), z3.K(z3.IntSort(), S.NONE_VAL),
                            TVal, kind='iter'))
        it.depth += 1
        it.fn_stack.append(fn.node)
        try:
            it.exec_block(fn.node.body, fr)
        except ReturnSig:
            pass
        finally:
            it.fn_stack.pop()
            it.depth -= 1
            res, it.out = it.out, saved
        return res.seq


class WriteLog:
    """A mapping observed only through its writes (ghost write log): two
    parallel sequences of keys and boxed values."""

    def __init__(self, key_t=TStr):
        self.keys = MList(SSeq(z3.IntVal(0), z3.K(z3.IntSort(), key_t.unwrap(
            '' if key_t is TStr else 0)), key_t, kind='list'))
        self.vals = MList(SSeq(z3.IntVal(0), z3.K(z3.IntSort(), S.NONE_VAL),
                               TVal, kind='list'))

    def write(self, k, v):
        self.keys.seq = S.seq_append(self.keys.seq, k)
        self.vals.seq = S.seq_append(self.vals.seq, SVal(S.box_any(v)))


class SMapCell:
    """A mutable dict with symbolic keys: cell around an SMap."""

    def __init__(self, m):
        self.m = m

    def store(self, k, v):
        m = self.m
        kt = m.key_t.unwrap(k)
        self.m = SMap(z3.Store(m.dom, kt, z3.BoolVal(True)),
                      z3.Store(m.val, kt, m.val_t.unwrap(v)),
                      m.key_t, m.val_t)

    def delete(self, k):
        m = self.m
        self.m = SMap(z3.Store(m.dom, m.key_t.unwrap(k), z3.BoolVal(False)),
                      m.val, m.key_t, m.val_t)


def _sel(items, k):
    raise Unsupported('symbolic index into concrete items')


def _fresh_like(x, nm):
    t = S.type_of(x)
    if t is None or isinstance(t, TSeq):
        raise Unsupported('cannot havoc tuple component %r' % (x,))
    return t.fresh(nm)


def _owner(root, target):
    from .interp import _owner_of
    return _owner_of(root, target)


def _modified_names(loop, rebinds_only=False):
    mods = set()
    body = loop.body + loop.orelse
    if isinstance(loop, ast.For):
        for n in ast.walk(loop.target):
            if isinstance(n, ast.Name):
                mods.add(n.id)
    for st in body:
        for n in ast.walk(st):
            if isinstance(n, (ast.Assign, ast.AugAssign, ast.AnnAssign,
                              ast.For, ast.NamedExpr)):
                tg = n.targets if isinstance(n, ast.Assign) else [n.target]
                for t in tg:
                    for m in ast.walk(t):
                        if isinstance(m, ast.Name) and isinstance(
                                m.ctx, ast.Store):
                            mods.add(m.id)
                        elif not rebinds_only and isinstance(
                                m, (ast.Subscript, ast.Attribute)) \
                                and isinstance(m.ctx, ast.Store):
                            b = m.value
                            while isinstance(b, (ast.Subscript,
                                                 ast.Attribute)):
                                b = b.value
                            if isinstance(b, ast.Name):
                                mods.add(b.id)
            elif rebinds_only:
                continue
            elif isinstance(n, ast.Delete):
                for t in n.targets:
                    b = t
                    while isinstance(b, (ast.Subscript, ast.Attribute)):
                        b = b.value
                    if isinstance(b, ast.Name):
                        mods.add(b.id)
            elif isinstance(n, ast.Call) and isinstance(n.func, ast.Attribute)\
                    and n.func.attr in MUTATORS:
                b = n.func.value
                while isinstance(b, (ast.Subscript, ast.Attribute)):
                    b = b.value
                if isinstance(b, ast.Name):
                    mods.add(b.id)
    return mods


MUTATORS = {'append', 'extend', 'insert', 'pop', 'remove', 'clear', 'sort',
            'reverse', 'update', 'setdefault', 'add', 'discard', 'popleft',
            'appendleft', 'rotate', 'popitem'}


def _has_yield(node):
    return any(isinstance(n, (ast.Yield, ast.YieldFrom))
               for n in ast.walk(node))


def _may_call(node):
    return any(isinstance(n, ast.Call) for n in ast.walk(node))


def _unify_header(anchor, node):
    """Match the contract's loop header text against the real loop header up
    to a consistent (one-to-one) renaming of variables.  -> {expected name:
    actual name} or None."""
    try:
        exp = ast.parse(anchor.rstrip(':') + ':\n    pass').body[0]
    except SyntaxError:
        # the anchor may be a prefix of the header ("for key, value")
        return None
    if type(exp) is not type(node):
        return None
    fwd, bwd = {}, {}

    def uni(a, b):
        if type(a) is not type(b):
            return False
        if isinstance(a, ast.Name):
            if fwd.setdefault(a.id, b.id) != b.id:
                return False
            return bwd.setdefault(b.id, a.id) == a.id
        if isinstance(a, ast.AST):
            for f in a._fields:
                if f in ('ctx',):
                    continue
                if not uni(getattr(a, f, None), getattr(b, f, None)):
                    return False
            return True
        if isinstance(a, list):
            return len(a) == len(b) and all(uni(x, y) for x, y in zip(a, b))
        return a == b
    if isinstance(exp, ast.For):
        ok = uni(exp.target, node.target) and uni(exp.iter, node.iter)
    else:
        ok = uni(exp.test, node.test)
    if not ok:
        return None
    # only LOCAL variables may be renamed: a changed function / attribute /
    # global name is a different loop
    return fwd
