"""Path state: branch decisions, path condition, solver, obligations."""
import os
import time
import z3

from . import sym as S


def safe_check(solver, ms):
    """solver.check() with a hard wall-clock guard: z3's own `timeout`
    parameter is not honoured by every theory combination (sequences with
    quantifiers), so a watchdog interrupts the context."""
    import threading
    ctx = solver.ctx
    timer = threading.Timer(ms / 1000.0 + 1.0, ctx.interrupt)
    timer.daemon = True
    timer.start()
    try:
        return solver.check()
    except z3.Z3Exception:
        return z3.unknown
    finally:
        timer.cancel()


class Obligation:
    def __init__(self, name, kind, line, status, seconds, backend,
                 model=None, detail=None, smt2=None):
        self.name, self.kind, self.line = name, kind, line
        self.status = status        # 'proved' | 'failed' | 'unknown'
        self.seconds, self.backend = seconds, backend
        self.model, self.detail, self.smt2 = model, detail, smt2

    def to_json(self):
        d = dict(name=self.name, kind=self.kind, line=self.line,
                 status=self.status, seconds=round(self.seconds, 4),
                 backend=self.backend)
        if self.detail:
            d['detail'] = self.detail
        if self.model is not None:
            d['model'] = self.model
        return d


class Budget:
    def __init__(self, branch_ms=2000, prove_ms=20000, max_paths=400,
                 wall_s=300):
        self.branch_ms, self.prove_ms, self.max_paths = \
            branch_ms, prove_ms, max_paths
        self.wall_s = wall_s        # per function; expiry = UNDECIDED
        self.deadline = None


class OutOfTime(Exception):
    pass


class Path:
    def __init__(self, prefix, budget, axioms):
        self.prefix = list(prefix)
        self.taken = []             # decisions actually taken (bools)
        self.alts = []              # prefixes of feasible unexplored siblings
        self.pc = []                # path condition (z3 Bool terms)
        self.budget = budget
        self.solver = z3.Solver()
        self.solver.set('timeout', budget.branch_ms)
        for a in axioms:
            if not has_quantifier(a):
                self.solver.add(a)
        # the branch-feasibility solver sees only the quantifier-free part of
        # the path condition (an over-approximation: extra paths are explored,
        # none is lost); obligations are proved against everything.
        self.axioms = list(axioms)
        self.obligations = []
        self.symbols = {}           # name -> z3 const, for model extraction
        self.ghost = {}             # ghost names introduced by factories
        self.notes = []

    def assume(self, term):
        if isinstance(term, bool):
            term = z3.BoolVal(term)
        self.pc.append(term)
        if not has_quantifier(term):
            self.solver.add(term)
            for a in S.box_instances([term]):
                self.solver.add(a)

    def feasible(self, term=None):
        self.solver.push()
        try:
            if term is not None:
                self.solver.add(term)
            r = safe_check(self.solver, self.budget.branch_ms)
            return r != z3.unsat
        finally:
            self.solver.pop()

    def concretize(self, term):
        """If the path condition forces an Int term to one value, return
        it (else None)."""
        self.solver.push()
        try:
            if safe_check(self.solver, self.budget.branch_ms) != z3.sat:
                return None
            v = self.solver.model().eval(term, model_completion=True)
            if not z3.is_int_value(v):
                return None
            self.solver.add(term != v)
            if safe_check(self.solver, self.budget.branch_ms) == z3.unsat:
                return v.as_long()
            return None
        finally:
            self.solver.pop()

    def decide(self, cond):
        if self.budget.deadline is not None and \
                time.time() > self.budget.deadline:
            raise OutOfTime()
        i = len(self.taken)
        if i < len(self.prefix):
            d = self.prefix[i]
        else:
            can_t = self.feasible(cond)
            can_f = self.feasible(z3.Not(cond))
            if can_t and can_f:
                d = True
                self.alts.append(self.taken + [False])
            elif can_t:
                d = True
            elif can_f:
                d = False
            else:
                from .interp import CutPath
                raise CutPath()
        self.taken.append(d)
        self.assume(cond if d else z3.Not(cond))
        return d

    def prove(self, goal, name, kind, line=None, assume_after=True,
              want_model=True):
        """Discharge pc => goal. Returns the Obligation."""
        if not isinstance(goal, bool) and not z3.is_expr(goal):
            goal = S.truth(goal)
        if isinstance(goal, bool):
            goal = z3.BoolVal(goal)
        t0 = time.time()
        inst = S.box_instances(self.pc + [goal])
        # relevance filter: an axiom is included only if it talks about an
        # uninterpreted symbol of the query (omitting the others is sound for
        # unsat, and a model extends to symbols the query never mentions)
        used = set()
        seen = set()
        for p in self.pc + inst:
            uf_names(p, used, seen)
        uf_names(goal, used, seen)
        chosen = []
        pending = [(a, uf_names(a, set(), set())) for a in self.axioms]
        changed = True
        while changed:
            changed = False
            for item in list(pending):
                if item[1] & used:
                    chosen.append(item[0])
                    used |= item[1]
                    pending.remove(item)
                    changed = True

        def mk(ms):
            s = z3.Solver()
            s.set('timeout', ms)
            for a in chosen + inst + self.pc:
                s.add(a)
            s.add(z3.Not(goal))
            return s
        # quick attempt first: almost every obligation is decided in ms
        quick_ms = min(3000, self.budget.prove_ms)
        s = mk(quick_ms)
        if os.environ.get('PYVC_DUMP') and os.environ['PYVC_DUMP'] in name:
            open('/tmp/pyvc_dump_%d.smt2' % len(self.obligations), 'w').write(
                s.to_smt2())
        r = safe_check(s, quick_ms)
        if r not in (z3.unsat, z3.sat):
            # quantifier instantiation is sensitive to the search order: an
            # `unknown` (often returned well before the time limit, and more
            # often on a busy machine) is retried under other random seeds
            for seed in (7, 23, 101):
                s = mk(quick_ms)
                s.set('random_seed', seed)
                r = safe_check(s, quick_ms)
                if r in (z3.unsat, z3.sat):
                    break
        backend = 'z3-%s' % z3.get_version_string()
        status = 'proved' if r == z3.unsat else (
            'failed' if r == z3.sat else 'unknown')
        model = None
        smt2 = None
        detail = None
        if status == 'unknown':
            # ground instantiation of the pattern-carrying (definitional)
            # axioms: quantifier-free w.r.t. them, so z3 can also answer sat
            inst_ax, rest = ground_instances(chosen, inst + self.pc + [
                z3.Not(goal)], depth=3)
            if inst_ax is not None:
                s2 = z3.Solver()
                s2.set('timeout', 8000)
                for a in rest + inst_ax + inst + self.pc:
                    s2.add(a)
                s2.add(z3.Not(goal))
                r2 = safe_check(s2, 8000)
                if r2 == z3.unsat:
                    status, backend = 'proved', backend + '+ground-inst'
                elif r2 == z3.sat:
                    status, backend = 'failed', backend + '+ground-inst'
                    s, r = s2, r2
                    detail = ('counter-model satisfies the recursive '
                              'definitional axioms instantiated on all '
                              'ground terms to depth 3 (candidate)')
        if status == 'unknown' and self.budget.prove_ms > quick_ms:
            smt2 = s.to_smt2()
            status, backend = _second_opinion(smt2, self.budget, backend)
            if status == 'unknown' and self.budget.prove_ms > quick_ms:
                s = mk(self.budget.prove_ms)
                r = safe_check(s, self.budget.prove_ms)
                backend = 'z3-%s' % z3.get_version_string()
                status = 'proved' if r == z3.unsat else (
                    'failed' if r == z3.sat else 'unknown')
            if status == 'unknown':
                # a busy machine must not turn a routine obligation into an
                # UNDECIDED: one more round for the external solvers with
                # three times the budget
                big = Budget(prove_ms=self.budget.prove_ms * 3)
                status, backend = _second_opinion(smt2, big, backend)
        if status == 'failed' and want_model and r == z3.sat:
            m = s.model()
            model = {}
            for nm, c in self.symbols.items():
                try:
                    model[nm] = _model_value(m, c)
                except Exception as e:      # noqa
                    model[nm] = '?'
        ob = Obligation(name, kind, line, status, time.time() - t0, backend,
                        model=model, detail=detail,
                        smt2=smt2 if status != 'proved' else None)
        self.obligations.append(ob)
        if assume_after and status == 'proved':
            self.assume(goal)
        return ob


def has_quantifier(t, _seen=None):
    seen = set() if _seen is None else _seen
    todo = [t]
    while todo:
        x = todo.pop()
        i = x.get_id()
        if i in seen:
            continue
        seen.add(i)
        if z3.is_quantifier(x):
            return True
        todo.extend(x.children())
    return False


def ground_instances(axioms, formulas, depth=3):
    """Instantiate every axiom of the form ForAll(xs, body) with a single
    pattern f(xs') on the ground f-terms of the formulas (and of the
    instances produced so far). Returns (instances, other axioms) or
    (None, None) when no axiom is instantiable."""
    inst_axioms, rest = [], []
    for a in axioms:
        if z3.is_quantifier(a) and a.is_forall() and a.num_patterns() == 1 \
                and a.pattern(0).num_args() == 1 and all(
                    z3.is_var(x) for x in a.pattern(0).arg(0).children()):
            inst_axioms.append(a)
        else:
            rest.append(a)
    if not inst_axioms:
        return None, None
    out, seen_inst = [], set()
    pool = list(formulas)
    for _ in range(depth):
        new = []
        terms = {}
        seen = set()
        todo = list(pool)
        while todo:
            x = todo.pop()
            if x.get_id() in seen:
                continue
            seen.add(x.get_id())
            if z3.is_quantifier(x):
                continue
            if z3.is_app(x):
                if x.num_args() > 0 and x.decl().kind() == \
                        z3.Z3_OP_UNINTERPRETED:
                    terms.setdefault(x.decl().name(), []).append(x)
                todo.extend(x.children())
        for a in inst_axioms:
            pat = a.pattern(0).arg(0)
            n = a.num_vars()
            for t in terms.get(pat.decl().name(), []):
                if t.num_args() != pat.num_args():
                    continue
                # de Bruijn: var index i counts from the innermost binder
                subst = [None] * n
                ok = True
                for pa, ta in zip(pat.children(), t.children()):
                    idx = z3.get_var_index(pa)
                    if subst[idx] is not None and not subst[idx].eq(ta):
                        ok = False
                    subst[idx] = ta
                if not ok or any(x is None for x in subst):
                    continue
                key = (a.get_id(), tuple(x.get_id() for x in subst))
                if key in seen_inst:
                    continue
                seen_inst.add(key)
                # substitute_vars expects the term for Var(0) first
                body = z3.substitute_vars(a.body(), *subst)
                new.append(body)
        if not new:
            break
        out.extend(new)
        pool = new
    return out, rest


def uf_names(t, acc, seen):
    todo = [t]
    while todo:
        x = todo.pop()
        i = x.get_id()
        if i in seen:
            continue
        seen.add(i)
        if z3.is_quantifier(x):
            todo.append(x.body())
            continue
        if z3.is_app(x):
            d = x.decl()
            if d.kind() == z3.Z3_OP_UNINTERPRETED and x.num_args() > 0:
                acc.add(d.name())
            todo.extend(x.children())
    return acc


def _second_opinion(smt2, budget, backend):
    """z3 said unknown: ask the other installed solvers through their CLIs."""
    import subprocess
    import tempfile
    import os
    fd, fn = tempfile.mkstemp(suffix='.smt2')
    os.write(fd, smt2.encode())
    os.close(fd)
    try:
        secs = max(2, min(6 if budget.prove_ms <= 20000 else 30,
                          budget.prove_ms // 4000))
        for cmd, nm in ((['/usr/bin/cvc5', '--strings-exp',
                          '--tlimit=%d' % (secs * 1000), fn], 'cvc5-1.0.3'),
                        (['/usr/bin/z3', '-T:%d' % secs, fn], 'z3-4.8.12')):
            try:
                out = subprocess.run(cmd, capture_output=True, text=True,
                                     timeout=secs + 5).stdout.strip()
            except Exception:
                continue
            first = out.splitlines()[0] if out else ''
            if first == 'unsat':
                return 'proved', nm
            if first == 'sat':
                return 'failed', nm
        return 'unknown', backend
    finally:
        os.unlink(fn)


def _model_value(m, c):
    if isinstance(c, dict):     # sequence: {'len':..., 'arr':..., 'off':...}
        n = m.eval(c['len'], model_completion=True).as_long()
        n = max(0, min(n, 12))
        out = []
        for k in range(n):
            out.append(_scalar(m.eval(c['at'](k), model_completion=True)))
        return out
    return _scalar(m.eval(c, model_completion=True))


def _scalar(v):
    if z3.is_int_value(v):
        return v.as_long()
    if z3.is_true(v):
        return True
    if z3.is_false(v):
        return False
    if z3.is_string_value(v):
        return v.as_string()
    if z3.is_rational_value(v):
        return float(v.numerator_as_long()) / float(v.denominator_as_long())
    return str(v)
