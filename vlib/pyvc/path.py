"""Path state: branch decisions, path condition, solver, obligations."""
import time
import z3

from . import sym as S


class Obligation:
    def __init__(self, name, kind, line, status, seconds, backend,
                 model=None, detail=None, smt2=None):
        self.name, self.kind, self.line = name, kind, line
        self.status = status        # 'proved' | 'failed' | 'unknown'
        self.seconds, self.backend = seconds, backend
        self.model, self.detail, self.smt2 = model, detail, smt2

    def to_json(self):
        d = dict(name=self.name, kind=self.kind, line=self.line,
                 status=self.status, seconds=round(self.seconds, 4),
                 backend=self.backend)
        if self.detail:
            d['detail'] = self.detail
        if self.model is not None:
            d['model'] = self.model
        return d


class Budget:
    def __init__(self, branch_ms=2000, prove_ms=20000, max_paths=400):
        self.branch_ms, self.prove_ms, self.max_paths = \
            branch_ms, prove_ms, max_paths


class Path:
    def __init__(self, prefix, budget, axioms):
        self.prefix = list(prefix)
        self.taken = []             # decisions actually taken (bools)
        self.alts = []              # prefixes of feasible unexplored siblings
        self.pc = []                # path condition (z3 Bool terms)
        self.budget = budget
        self.solver = z3.Solver()
        self.solver.set('timeout', budget.branch_ms)
        for a in axioms:
            if not has_quantifier(a):
                self.solver.add(a)
        # the branch-feasibility solver sees only the quantifier-free part of
        # the path condition (an over-approximation: extra paths are explored,
        # none is lost); obligations are proved against everything.
        self.axioms = list(axioms)
        self.obligations = []
        self.symbols = {}           # name -> z3 const, for model extraction
        self.notes = []

    def assume(self, term):
        if isinstance(term, bool):
            term = z3.BoolVal(term)
        self.pc.append(term)
        if not has_quantifier(term):
            self.solver.add(term)
            for a in S.box_instances([term]):
                self.solver.add(a)

    def feasible(self, term=None):
        self.solver.push()
        try:
            if term is not None:
                self.solver.add(term)
            r = self.solver.check()
            return r != z3.unsat
        finally:
            self.solver.pop()

    def decide(self, cond):
        i = len(self.taken)
        if i < len(self.prefix):
            d = self.prefix[i]
        else:
            can_t = self.feasible(cond)
            can_f = self.feasible(z3.Not(cond))
            if can_t and can_f:
                d = True
                self.alts.append(self.taken + [False])
            elif can_t:
                d = True
            elif can_f:
                d = False
            else:
                from .interp import CutPath
                raise CutPath()
        self.taken.append(d)
        self.assume(cond if d else z3.Not(cond))
        return d

    def prove(self, goal, name, kind, line=None, assume_after=True,
              want_model=True):
        """Discharge pc => goal. Returns the Obligation."""
        if not isinstance(goal, bool) and not z3.is_expr(goal):
            goal = S.truth(goal)
        if isinstance(goal, bool):
            goal = z3.BoolVal(goal)
        t0 = time.time()
        inst = S.box_instances(self.pc + [goal])
        # relevance filter: an axiom is included only if it talks about an
        # uninterpreted symbol of the query (omitting the others is sound for
        # unsat, and a model extends to symbols the query never mentions)
        used = set()
        seen = set()
        for p in self.pc + inst:
            uf_names(p, used, seen)
        uf_names(goal, used, seen)
        chosen = []
        pending = [(a, uf_names(a, set(), set())) for a in self.axioms]
        changed = True
        while changed:
            changed = False
            for item in list(pending):
                if item[1] & used:
                    chosen.append(item[0])
                    used |= item[1]
                    pending.remove(item)
                    changed = True

        def mk(ms):
            s = z3.Solver()
            s.set('timeout', ms)
            for a in chosen + inst + self.pc:
                s.add(a)
            s.add(z3.Not(goal))
            return s
        # quick attempt first: almost every obligation is decided in ms
        quick_ms = min(3000, self.budget.prove_ms)
        s = mk(quick_ms)
        r = s.check()
        backend = 'z3-%s' % z3.get_version_string()
        status = 'proved' if r == z3.unsat else (
            'failed' if r == z3.sat else 'unknown')
        model = None
        smt2 = None
        if status == 'unknown':
            smt2 = s.to_smt2()
            status, backend = _second_opinion(smt2, self.budget, backend)
            if status == 'unknown' and self.budget.prove_ms > quick_ms:
                s = mk(self.budget.prove_ms)
                r = s.check()
                backend = 'z3-%s' % z3.get_version_string()
                status = 'proved' if r == z3.unsat else (
                    'failed' if r == z3.sat else 'unknown')
        if status == 'failed' and want_model and r == z3.sat:
            m = s.model()
            model = {}
            for nm, c in self.symbols.items():
                try:
                    model[nm] = _model_value(m, c)
                except Exception as e:      # noqa
                    model[nm] = '?'
        ob = Obligation(name, kind, line, status, time.time() - t0, backend,
                        model=model, smt2=smt2 if status != 'proved' else None)
        self.obligations.append(ob)
        if assume_after and status == 'proved':
            self.assume(goal)
        return ob


def has_quantifier(t, _seen=None):
    seen = set() if _seen is None else _seen
    todo = [t]
    while todo:
        x = todo.pop()
        i = x.get_id()
        if i in seen:
            continue
        seen.add(i)
        if z3.is_quantifier(x):
            return True
        todo.extend(x.children())
    return False


def uf_names(t, acc, seen):
    todo = [t]
    while todo:
        x = todo.pop()
        i = x.get_id()
        if i in seen:
            continue
        seen.add(i)
        if z3.is_quantifier(x):
            todo.append(x.body())
            continue
        if z3.is_app(x):
            d = x.decl()
            if d.kind() == z3.Z3_OP_UNINTERPRETED and x.num_args() > 0:
                acc.add(d.name())
            todo.extend(x.children())
    return acc


def _second_opinion(smt2, budget, backend):
    """z3 said unknown: ask the other installed solvers through their CLIs."""
    import subprocess
    import tempfile
    import os
    fd, fn = tempfile.mkstemp(suffix='.smt2')
    os.write(fd, smt2.encode())
    os.close(fd)
    try:
        secs = max(2, budget.prove_ms // 1000)
        for cmd, nm in ((['/usr/bin/cvc5', '--strings-exp',
                          '--tlimit=%d' % (secs * 1000), fn], 'cvc5-1.0.3'),
                        (['/usr/bin/z3', '-T:%d' % secs, fn], 'z3-4.8.12')):
            try:
                out = subprocess.run(cmd, capture_output=True, text=True,
                                     timeout=secs + 5).stdout.strip()
            except Exception:
                continue
            first = out.splitlines()[0] if out else ''
            if first == 'unsat':
                return 'proved', nm
            if first == 'sat':
                return 'failed', nm
        return 'unknown', backend
    finally:
        os.unlink(fn)


def _model_value(m, c):
    if isinstance(c, dict):     # sequence: {'len':..., 'arr':..., 'off':...}
        n = m.eval(c['len'], model_completion=True).as_long()
        n = max(0, min(n, 12))
        out = []
        for k in range(n):
            out.append(_scalar(m.eval(c['at'](k), model_completion=True)))
        return out
    return _scalar(m.eval(c, model_completion=True))


def _scalar(v):
    if z3.is_int_value(v):
        return v.as_long()
    if z3.is_true(v):
        return True
    if z3.is_false(v):
        return False
    if z3.is_string_value(v):
        return v.as_string()
    if z3.is_rational_value(v):
        return float(v.numerator_as_long()) / float(v.denominator_as_long())
    return str(v)
