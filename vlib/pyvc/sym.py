"""Symbolic values for the pyvc verification-condition generator.

Concrete Python values (int, str, bool, None, tuple, ...) are used as they
are; symbolic ones are instances of the S* classes below and wrap z3 terms.
Every operation is total and pure at this level: the *interpreter* decides
where Python would raise (index out of range, division by zero, ...) and
branches there; the helpers here build the terms for the defined case.

Encoding assumptions (DESIGN.md section 3): A1 mathematical integers with
explicit floor division; A2 floats are reals; A3 strings are z3 sequences of
code points; sequences are (length, array, offset) triples.
"""
import z3

Val = z3.DeclareSort('Val')          # an arbitrary Python object
_counter = [0]


def fresh_name(base):
    _counter[0] += 1
    return '%s!%d' % (base, _counter[0])


# ---------------------------------------------------------------- types ----

class T:
    """Type descriptor: how to make / wrap / unwrap values of a sort."""
    name = '?'

    def sort(self):
        raise NotImplementedError

    def wrap(self, term):
        raise NotImplementedError

    def unwrap(self, value):
        raise NotImplementedError

    def fresh(self, base, facts=None):
        return self.wrap(z3.Const(fresh_name(base), self.sort()))

    def __repr__(self):
        return self.name


class _TInt(T):
    name = 'Int'

    def sort(self):
        return z3.IntSort()

    def wrap(self, term):
        return SInt(term)

    def unwrap(self, v):
        if isinstance(v, bool):
            return z3.IntVal(int(v))
        if isinstance(v, int):
            return z3.IntVal(v)
        if isinstance(v, SInt):
            return v.t
        if isinstance(v, SBool):
            return z3.If(v.t, z3.IntVal(1), z3.IntVal(0))
        raise TypeErrorSym('not an int: %r' % (v,))


class _TBool(T):
    name = 'Bool'

    def sort(self):
        return z3.BoolSort()

    def wrap(self, term):
        return SBool(term)

    def unwrap(self, v):
        if isinstance(v, bool):
            return z3.BoolVal(v)
        if isinstance(v, SBool):
            return v.t
        raise TypeErrorSym('not a bool: %r' % (v,))


class _TStr(T):
    name = 'Str'

    def sort(self):
        return z3.StringSort()

    def wrap(self, term):
        return SStr(term)

    def unwrap(self, v):
        if isinstance(v, str):
            return z3.StringVal(v)
        if isinstance(v, SStr):
            return v.t
        raise TypeErrorSym('not a str: %r' % (v,))


class _TReal(T):
    name = 'Real'

    def sort(self):
        return z3.RealSort()

    def wrap(self, term):
        return SReal(term)

    def unwrap(self, v):
        if isinstance(v, SReal):
            return v.t
        if isinstance(v, SInt):
            return z3.ToReal(v.t)
        if isinstance(v, bool):
            return z3.RealVal(int(v))
        if isinstance(v, int):
            return z3.RealVal(v)
        if isinstance(v, float):
            return z3.RealVal(repr(v))
        raise TypeErrorSym('not a number: %r' % (v,))


PENDING_AXIOMS = []
box_any = None      # installed by models.py (containers as constructor terms)


class _TVal(T):
    name = 'Val'

    def sort(self):
        return Val

    def wrap(self, term):
        return SVal(term)

    def unwrap(self, v):
        if isinstance(v, SVal):
            return v.t
        if isinstance(v, (list, tuple, dict)) and box_any is not None:
            return box_any(v)
        if isinstance(v, SSeq) or type(v).__name__ == 'MList':
            # a sequence stored as an element of a container of values: an
            # opaque value determined by its representation
            q = v if isinstance(v, SSeq) else v.seq
            f = z3.Function('box.seq:%s' % q.elem.name, q.arr.sort(),
                            z3.IntSort(), z3.IntSort(), Val)
            return f(q.arr, z3.simplify(q.off) if z3.is_expr(q.off)
                     else z3.IntVal(q.off), z3.simplify(q.length))
        return box(v)


TInt, TBool, TStr, TReal, TVal = _TInt(), _TBool(), _TStr(), _TReal(), _TVal()


class TSeq(T):
    """Immutable sequence (tuple / list snapshot / finite iterable) of elem."""

    def __init__(self, elem):
        self.elem = elem
        self.name = 'Seq[%s]' % elem.name

    def fresh(self, base, facts=None):
        a = z3.Const(fresh_name(base + '.arr'),
                     z3.ArraySort(z3.IntSort(), self.elem.sort()))
        if FIXED_SEQ_LEN[0] is not None:
            # refutation mode: concrete length, symbolic elements
            return SSeq(z3.IntVal(FIXED_SEQ_LEN[0]), a, self.elem)
        n = z3.Int(fresh_name(base + '.len'))
        if facts is not None:
            facts.append(n >= 0)
        return SSeq(n, a, self.elem)


FIXED_SEQ_LEN = [None]


class TOpt(T):
    """None or inner; the interpreter splits on it at function entry."""

    def __init__(self, inner):
        self.inner = inner
        self.name = 'Opt[%s]' % inner.name


class TMap(T):
    def __init__(self, key, val):
        self.key, self.val = key, val
        self.name = 'Map[%s,%s]' % (key.name, val.name)

    def fresh(self, base, facts=None):
        dom = z3.Const(fresh_name(base + '.dom'),
                       z3.ArraySort(self.key.sort(), z3.BoolSort()))
        val = z3.Const(fresh_name(base + '.val'),
                       z3.ArraySort(self.key.sort(), self.val.sort()))
        return SMap(dom, val, self.key, self.val)


class TSet(T):
    def __init__(self, elem):
        self.elem = elem
        self.name = 'Set[%s]' % elem.name

    def fresh(self, base, facts=None):
        a = z3.Const(fresh_name(base + '.set'),
                     z3.ArraySort(self.elem.sort(), z3.BoolSort()))
        return SSet(a, self.elem)


class TFunc(T):
    """A callback (lambda / delegate): uninterpreted function Val* -> ret."""

    def __init__(self, arity=1, ret=None):
        self.arity = arity
        self.ret = ret or TVal
        self.name = 'Func/%d' % arity

    def fresh(self, base, facts=None):
        return SFunc(fresh_name(base), self.arity, self.ret)


class TypeErrorSym(Exception):
    """The encoder met a value it cannot type: reported as UNDECIDED."""


class Unsupported(Exception):
    """Construct outside the supported subset: reported as UNDECIDED."""


# --------------------------------------------------------------- values ----

class Sym:
    pass


class SInt(Sym):
    def __init__(self, t):
        self.t = t

    def __repr__(self):
        return 'SInt(%s)' % self.t


class SBool(Sym):
    def __init__(self, t):
        self.t = t

    def __repr__(self):
        return 'SBool(%s)' % self.t


class SReal(Sym):
    def __init__(self, t):
        self.t = t

    def __repr__(self):
        return 'SReal(%s)' % self.t


class SStr(Sym):
    def __init__(self, t):
        self.t = t

    def __repr__(self):
        return 'SStr(%s)' % self.t


class SVal(Sym):
    def __init__(self, t):
        self.t = t

    def __repr__(self):
        return 'SVal(%s)' % self.t


class SSeq(Sym):
    """element k (0 <= k < length) is arr[off + k*step]."""

    def __init__(self, length, arr, elem, off=None, step=1, kind='tuple'):
        self.length = length if z3.is_expr(length) else z3.IntVal(length)
        self.arr = arr
        self.elem = elem
        self.off = z3.IntVal(0) if off is None else off
        self.step = step
        self.kind = kind        # python class the value has: tuple|list|iter

    def at(self, k):
        k = k if z3.is_expr(k) else z3.IntVal(k)
        if self.step == 1:
            return z3.Select(self.arr, z3.simplify(self.off + k))
        return z3.Select(self.arr, z3.simplify(self.off + k * self.step))

    def get(self, k):
        return self.elem.wrap(self.at(k))

    def __repr__(self):
        return 'SSeq(len=%s)' % self.length


class SIter(Sym):
    """A one-shot iterator: the underlying sequence and how many elements
    have been pulled so far (mutable: `pos` advances). A lazy view over
    another iterator (islice) forwards its pulls to the parent."""

    def __init__(self, seq, pos=None, parent=None, lo=None):
        self.seq = seq
        self._pos = z3.IntVal(0) if pos is None else pos
        self.parent = parent
        self.parent_base = parent.pos if parent is not None else None
        self.lo = lo if lo is not None else z3.IntVal(0)

    @property
    def pos(self):
        return self._pos

    @pos.setter
    def pos(self, new):
        self._pos = new
        if self.parent is not None:
            # pulling the k-th element of the view pulls lo + k elements of
            # the parent (nothing while the view is untouched)
            self.parent.pos = z3.simplify(z3.If(
                new > 0, self.parent_base + self.lo + new, self.parent_base))

    def remaining(self):
        return seq_slice(self.seq, self.pos, None)

    def __repr__(self):
        return 'SIter(pos=%s)' % self.pos


class TIter(T):
    def __init__(self, elem):
        self.elem = elem
        self.name = 'Iter[%s]' % elem.name

    def fresh(self, base, facts=None):
        q = TSeq(self.elem).fresh(base, facts)
        q.kind = 'iter'
        return SIter(q)


class SMap(Sym):
    def __init__(self, dom, val, key_t, val_t):
        self.dom, self.val, self.key_t, self.val_t = dom, val, key_t, val_t

    def has(self, k):
        return z3.Select(self.dom, self.key_t.unwrap(k))

    def get(self, k):
        return self.val_t.wrap(z3.Select(self.val, self.key_t.unwrap(k)))

    def __repr__(self):
        return 'SMap'


class SSet(Sym):
    """A set as its characteristic array (mutable cell: `arr` is replaced
    by add/update)."""

    def __init__(self, arr, elem):
        self.arr, self.elem = arr, elem

    def has(self, v):
        return z3.Select(self.arr, self.elem.unwrap(v))

    def __repr__(self):
        return 'SSet'


def empty_set(elem):
    return SSet(z3.K(elem.sort(), z3.BoolVal(False)), elem)


py_in = z3.Function('py.in', Val, Val, z3.BoolSort())    # item in container
fl = z3.Function('fl', z3.RealSort(), z3.RealSort())     # float rounding


class SFunc(Sym):
    """Opaque callable. Each application is an uninterpreted term and is
    appended to the interpreter's ghost call log."""

    def __init__(self, name, arity, ret):
        self.name, self.arity, self.ret = name, arity, ret
        self._decls = {}

    def decl(self, n):
        if n not in self._decls:
            self._decls[n] = z3.Function(self.name + '/%d' % n,
                                         *([Val] * n + [self.ret.sort()]))
        return self._decls[n]

    def apply(self, args):
        ts = [TVal.unwrap(a) for a in args]
        if not ts:
            return self.ret.wrap(z3.Const(self.name + '/0', self.ret.sort()))
        return self.ret.wrap(self.decl(len(ts))(*ts))

    def __repr__(self):
        return 'SFunc(%s)' % self.name


# ------------------------------------------------ boxing into sort Val ----

box_int = z3.Function('box_int', z3.IntSort(), Val)
box_str = z3.Function('box_str', z3.StringSort(), Val)
box_bool = z3.Function('box_bool', z3.BoolSort(), Val)
box_real = z3.Function('box_real', z3.RealSort(), Val)
unbox_int = z3.Function('unbox_int', Val, z3.IntSort())
unbox_str = z3.Function('unbox_str', Val, z3.StringSort())
unbox_bool = z3.Function('unbox_bool', Val, z3.BoolSort())
NONE_VAL = z3.Const('None', Val)
truthy_fn = z3.Function('truthy', Val, z3.BoolSort())
# tag: 0 none, 1 bool, 2 int, 3 float, 4 str, 5 other
tag_fn = z3.Function('tag', Val, z3.IntSort())
_named_consts = {}


def named_const(name):
    """A distinguished opaque object (e.g. utils.NO_VALUE)."""
    if name not in _named_consts:
        _named_consts[name] = z3.Const('obj:' + name, Val)
    return _named_consts[name]


def box_axioms():
    """Ground facts about None and the named opaque singletons."""
    ax = [tag_fn(NONE_VAL) == 0, z3.Not(truthy_fn(NONE_VAL))]
    names = list(_named_consts.values())
    for c in names:
        ax.append(tag_fn(c) == 5)
        ax.append(truthy_fn(c))
    if len(names) > 1:
        ax.append(z3.Distinct(*names))
    return ax


def box_instances(formulas):
    """Instances of the boxing axioms (injectivity via unbox, tag,
    truthiness) for every box_* application occurring in the formulas.
    The axioms are per-term, so term instantiation is complete for them and
    keeps the query quantifier-free."""
    seen, out, done = set(), [], set()
    todo = list(formulas)
    while todo:
        x = todo.pop()
        i = x.get_id()
        if i in seen:
            continue
        seen.add(i)
        if z3.is_quantifier(x):
            todo.append(x.body())
            continue
        if z3.is_app(x):
            nm = x.decl().name() if x.num_args() == 1 else None
            if nm in ('box_int', 'box_str', 'box_bool', 'box_real') and \
                    not _has_bound_var(x):
                a = x.arg(0)
                if nm == 'box_int':
                    out += [unbox_int(x) == a, tag_fn(x) == 2,
                            truthy_fn(x) == (a != 0)]
                elif nm == 'box_str':
                    out += [unbox_str(x) == a, tag_fn(x) == 4,
                            truthy_fn(x) == (z3.Length(a) > 0)]
                elif nm == 'box_bool':
                    out += [unbox_bool(x) == a, tag_fn(x) == 1,
                            truthy_fn(x) == a]
                else:
                    out += [tag_fn(x) == 3, truthy_fn(x) == (a != 0)]
            todo.extend(x.children())
    return out


def _has_bound_var(t):
    todo, seen = [t], set()
    while todo:
        x = todo.pop()
        if x.get_id() in seen:
            continue
        seen.add(x.get_id())
        if z3.is_var(x):
            return True
        todo.extend(x.children())
    return False


def box(v):
    if v is None:
        return NONE_VAL
    if isinstance(v, bool):
        return box_bool(z3.BoolVal(v))
    if isinstance(v, int):
        return box_int(z3.IntVal(v))
    if isinstance(v, str):
        return box_str(z3.StringVal(v))
    if isinstance(v, SVal):
        return v.t
    if isinstance(v, SInt):
        return box_int(v.t)
    if isinstance(v, SStr):
        return box_str(v.t)
    if isinstance(v, SBool):
        return box_bool(v.t)
    if isinstance(v, SReal):
        return box_real(v.t)
    if isinstance(v, Opaque):
        return named_const(v.name)
    if hasattr(v, 'as_val'):
        return v.as_val()
    if isinstance(v, SSet) and v.elem is TVal:
        # a symbolic set as an opaque value: membership is its array
        f = z3.Function('box.set', z3.ArraySort(Val, z3.BoolSort()), Val)
        t = f(v.arr)
        x = z3.Const(fresh_name('m'), Val)
        PENDING_AXIOMS.append(z3.ForAll(
            [x], py_in(t, x) == z3.Select(v.arr, x),
            patterns=[py_in(t, x)]))
        return t
    if type(v).__name__ in ('Model', 'SFunc', 'ClassRef', 'ModuleRef'):
        return named_const('callable:' + v.name)
    if type(v).__name__ == 'FuncRef':
        return named_const('func@%s:%s' % (v.qualname, getattr(
            v.node, 'lineno', 0)))
    raise TypeErrorSym('cannot box %r' % (v,))


class Opaque:
    """A concrete but uninterpreted singleton object (NO_VALUE, a class...)."""

    def __init__(self, name):
        self.name = name

    def __repr__(self):
        return '<%s>' % self.name


# ------------------------------------------------------------ operations ----

def is_sym(v):
    return isinstance(v, Sym)


def to_int_term(v):
    return TInt.unwrap(v)


def type_of(v):
    """Static type descriptor of a (symbolic or concrete) value."""
    if isinstance(v, (SBool, bool)):
        return TBool
    if isinstance(v, (SInt, int)):
        return TInt
    if isinstance(v, (SReal, float)):
        return TReal
    if isinstance(v, (SStr, str)):
        return TStr
    if isinstance(v, SSeq):
        return TSeq(v.elem)
    if isinstance(v, SVal) or v is None:
        return TVal
    return None


def floor_div(a, b):
    """Python // on mathematical ints (b != 0 is the caller's obligation).
    SMT-LIB div rounds so that the remainder is non-negative; Python floors."""
    q = a / b          # z3 Int '/' is SMT div
    r = a - q * b
    return z3.If(z3.And(r != 0, b < 0), q - 1, q)


def py_mod(a, b):
    return a - floor_div(a, b) * b


def clamp_index(i, n):
    """Python slice-bound normalisation for step 1."""
    return z3.If(i < 0, z3.If(i + n < 0, z3.IntVal(0), i + n),
                 z3.If(i > n, n, i))


def str_slice(s, lo, hi):
    """s[lo:hi]; lo/hi are z3 Int terms or None."""
    n = z3.Length(s)
    a = z3.IntVal(0) if lo is None else clamp_index(lo, n)
    b = n if hi is None else clamp_index(hi, n)
    return z3.SubString(s, a, z3.If(b - a < 0, z3.IntVal(0), b - a))


def seq_slice(q, lo, hi):
    n = q.length
    a = z3.IntVal(0) if lo is None else clamp_index(lo, n)
    b = n if hi is None else clamp_index(hi, n)
    ln = z3.If(b - a < 0, z3.IntVal(0), b - a)
    if q.step != 1:
        raise Unsupported('slice of a strided sequence')
    return SSeq(z3.simplify(ln), q.arr, q.elem, z3.simplify(q.off + a),
                kind=q.kind)


def seq_concat(a, b):
    if a.elem.sort() != b.elem.sort():
        raise TypeErrorSym('concat of different element sorts')
    k = z3.Int(fresh_name('k'))
    arr = z3.Lambda([k], z3.If(k < a.length, a.at(k), b.at(k - a.length)))
    return SSeq(z3.simplify(a.length + b.length), arr, a.elem, kind=a.kind)


def seq_append(a, v):
    if a.step != 1:
        raise Unsupported('append to strided sequence')
    arr = z3.Store(a.arr, z3.simplify(a.off + a.length), a.elem.unwrap(v))
    return SSeq(z3.simplify(a.length + 1), arr, a.elem, a.off, kind=a.kind)


def seq_from_items(items, elem, kind='tuple'):
    arr = z3.K(z3.IntSort(), elem.unwrap(items[0]) if items
               else z3.Const(fresh_name('dflt'), elem.sort()))
    for i, it in enumerate(items):
        arr = z3.Store(arr, i, elem.unwrap(it))
    return SSeq(z3.IntVal(len(items)), arr, elem, kind=kind)


def seq_eq(a, b):
    """Extensional equality of two sequences as a formula."""
    if isinstance(a, (tuple, list)):
        a = seq_from_items(list(a), b.elem)
    if isinstance(b, (tuple, list)):
        b = seq_from_items(list(b), a.elem)
    k = z3.Int(fresh_name('k'))
    return z3.And(a.length == b.length,
                  z3.ForAll([k], z3.Implies(z3.And(0 <= k, k < a.length),
                                            a.at(k) == b.at(k))))


def seq_map(q, fn, elem_out):
    """[fn(x) for x in q] with fn : term -> term (pure)."""
    k = z3.Int(fresh_name('k'))
    arr = z3.Lambda([k], fn(q.at(k)))
    return SSeq(q.length, arr, elem_out, kind='tuple')


def seq_reverse(q):
    k = z3.Int(fresh_name('k'))
    arr = z3.Lambda([k], q.at(q.length - 1 - k))
    return SSeq(q.length, arr, q.elem, kind=q.kind)


def seq_contains(q, v):
    k = z3.Int(fresh_name('k'))
    return z3.Exists([k], z3.And(0 <= k, k < q.length,
                                 q.at(k) == q.elem.unwrap(v)))


def truth(v):
    """Truthiness of v as a z3 Bool term (or Python bool when concrete)."""
    if isinstance(v, SBool):
        return v.t
    if isinstance(v, SInt):
        return v.t != 0
    if isinstance(v, SReal):
        return v.t != 0
    if isinstance(v, SStr):
        return z3.Length(v.t) > 0
    if isinstance(v, SSeq):
        return v.length > 0
    if isinstance(v, SVal):
        return truthy_fn(v.t)
    if isinstance(v, (SFunc, Opaque)):
        return True
    if isinstance(v, SSet):
        # non-empty: differs from the empty characteristic array
        return v.arr != z3.K(v.elem.sort(), z3.BoolVal(False))
    if is_sym(v):
        raise Unsupported('truthiness of %r' % (v,))
    return bool(v)


def as_bool_term(x):
    return x if z3.is_expr(x) else z3.BoolVal(bool(x))


def equal(a, b):
    """a == b as z3 Bool / Python bool (Python semantics on modelled kinds)."""
    if isinstance(a, SFunc) or isinstance(b, SFunc):
        return a is b
    if not is_sym(a) and not is_sym(b) and not isinstance(a, Opaque) \
            and not isinstance(b, Opaque):
        return a == b
    if isinstance(a, Opaque) or isinstance(b, Opaque):
        if isinstance(a, Opaque) and isinstance(b, Opaque):
            return a.name == b.name
        o, other = (a, b) if isinstance(a, Opaque) else (b, a)
        if isinstance(other, SVal):
            return other.t == named_const(o.name)
        return False
    ta, tb = type_of(a), type_of(b)
    if isinstance(a, SSet) and isinstance(b, SSet):
        return a.arr == b.arr           # array extensionality
    if isinstance(a, SSet) or isinstance(b, SSet):
        return False
    if isinstance(a, SSeq) or isinstance(b, SSeq):
        if isinstance(a, (SSeq, tuple, list)) and \
                isinstance(b, (SSeq, tuple, list)):
            return seq_eq(a, b)
        return False
    num = (TInt, TBool, TReal)
    if ta in num and tb in num:
        if TReal in (ta, tb):
            return TReal.unwrap(a) == TReal.unwrap(b)
        return TInt.unwrap(a) == TInt.unwrap(b)
    if ta is TStr and tb is TStr:
        return TStr.unwrap(a) == TStr.unwrap(b)
    if ta is TVal or tb is TVal:
        return box(a) == box(b)
    if ta is not None and tb is not None and ta is not tb:
        return False
    raise Unsupported('== on %r, %r' % (a, b))


def compare(op, a, b):
    """Ordering comparison on numbers or strings."""
    ta, tb = type_of(a), type_of(b)
    num = (TInt, TBool, TReal)
    if ta in num and tb in num:
        if TReal in (ta, tb):
            x, y = TReal.unwrap(a), TReal.unwrap(b)
        else:
            x, y = TInt.unwrap(a), TInt.unwrap(b)
        return {'<': x < y, '<=': x <= y, '>': x > y, '>=': x >= y}[op]
    if ta is TStr and tb is TStr:
        x, y = TStr.unwrap(a), TStr.unwrap(b)
        lt, le = z3.StrLT if hasattr(z3, 'StrLT') else None, None
        if op == '<':
            return x < y
        if op == '<=':
            return x <= y
        if op == '>':
            return y < x
        return y <= x
    if isinstance(a, SVal) and isinstance(b, SVal):
        # ordering of two untyped values: uninterpreted (may also raise
        # TypeError in Python - not modelled)
        f = z3.Function('py.lt', Val, Val, z3.BoolSort())
        g = z3.Function('py.le', Val, Val, z3.BoolSort())
        return {'<': f(a.t, b.t), '<=': g(a.t, b.t), '>': f(b.t, a.t),
                '>=': g(b.t, a.t)}[op]
    raise Unsupported('%s on %r, %r' % (op, a, b))
