"""Path-wise symbolic executor over the real source AST.

One Interp object executes ONE path of one function; the explorer in
verify.py re-runs it with a growing list of branch decisions until every
feasible path has been covered. Loops are cut by the invariants given in the
sidecar contract; calls go to sidecar contracts, trusted models, callback
parameters, or (repo helpers without a contract) are inlined.
"""
import ast
import z3

from . import sym as S
from .sym import (SInt, SBool, SStr, SReal, SVal, SSeq, SMap, SFunc, Sym,
                  Opaque, TInt, TBool, TStr, TReal, TVal, TSeq, Unsupported,
                  TypeErrorSym)


# ------------------------------------------------------------- signals ----

class ReturnSig(Exception):
    def __init__(self, value):
        self.value = value


class RaiseSig(Exception):
    def __init__(self, exc):
        self.exc = exc


class BreakSig(Exception):
    pass


class ContinueSig(Exception):
    pass


class CutPath(Exception):
    """This path ends here (loop cut, infeasible branch, assume false)."""


class ExcVal:
    """A raised exception instance: class name + constructor args."""

    def __init__(self, cls, args=(), line=None):
        self.cls = cls          # ClassRef
        self.args = args
        self.line = line

    def __repr__(self):
        return '%s%r' % (self.cls.name, tuple(self.args))


class ClassRef:
    def __init__(self, name, bases=(), module=None, node=None):
        self.name, self.bases, self.module, self.node = name, bases, module, node

    def mro_names(self, world):
        seen, todo = [], [self]
        while todo:
            c = todo.pop(0)
            if c.name in seen:
                continue
            seen.append(c.name)
            for b in c.bases:
                cr = world.class_by_name(b, c.module)
                if cr is not None:
                    todo.append(cr)
        return seen

    def __repr__(self):
        return '<class %s>' % self.name


class FuncRef:
    """A function of the repository: module + AST node + defining frame."""

    def __init__(self, module, node, qualname, closure=None, self_obj=None,
                 owner=None):
        self.module, self.node, self.qualname = module, node, qualname
        self.closure, self.self_obj = closure, self_obj
        self.owner = owner          # ClassRef the method was found in

    def __repr__(self):
        return '<func %s.%s>' % (self.module.name, self.qualname)


class LazyGen:
    """A generator expression bound to a name: evaluated (once) at the first
    use of the name - every consumer in the code under contract drains it."""

    def __init__(self, interp, node, fr):
        self.interp, self.node, self.fr = interp, node, fr
        self.done, self.val = False, None
        # (the outermost iterable is evaluated when the generator is made)
        self.src = (interp.eval(node.generators[0].iter, fr),) if len(
            node.generators) == 1 else None

    def force(self):
        if not self.done:
            self.val = self.interp.comprehension(self.node, self.fr, 'gen',
                                                 src=self.src)
            self.done = True
        return self.val


class ModuleRef:
    def __init__(self, name):
        self.name = name

    def __repr__(self):
        return '<module %s>' % self.name


class Model:
    """A trusted model of a builtin / library callable."""

    def __init__(self, name, fn, needs_interp=False):
        self.name, self.fn, self.needs_interp = name, fn, needs_interp

    def __repr__(self):
        return '<model %s>' % self.name


class MList:
    """A Python list of symbolic length (mutable cell around an SSeq)."""

    def __init__(self, seq):
        self.seq = seq

    def __repr__(self):
        return 'MList(%r)' % self.seq


class BoundMethod:
    def __init__(self, obj, name):
        self.obj, self.name = obj, name


class Frame:
    def __init__(self, parent=None, module=None):
        self.vars = {}
        self.parent = parent
        self.module = module if module is not None else (
            parent.module if parent else None)
        self.nonlocals = set()

    def lookup(self, name):
        f = self
        while f is not None:
            if name in f.vars:
                return f.vars[name]
            f = f.parent
        raise KeyError(name)

    def has(self, name):
        f = self
        while f is not None:
            if name in f.vars:
                return True
            f = f.parent
        return False

    def assign(self, name, value):
        if name in getattr(self, 'globals_declared', ()):
            self.world_state[(self.module.name, name)] = value
            return
        if name in self.nonlocals:
            f = self.parent
            while f is not None:
                if name in f.vars:
                    f.vars[name] = value
                    return
                f = f.parent
        self.vars[name] = value


BUILTIN_EXC = {}
for _n in ('BaseException', 'Exception', 'ValueError', 'TypeError',
           'IndexError', 'KeyError', 'LookupError', 'AttributeError',
           'StopIteration', 'ZeroDivisionError', 'ArithmeticError',
           'AssertionError', 'RuntimeError', 'OverflowError',
           'UnicodeDecodeError', 'UnicodeEncodeError', 'UnicodeError',
           'NotImplementedError', 'MemoryError', 'RecursionError'):
    _c = getattr(__import__('builtins'), _n)
    BUILTIN_EXC[_n] = ClassRef(_n, tuple(b.__name__ for b in _c.__bases__
                                          if b is not object), 'builtins')


class Interp:
    def __init__(self, world, path, spec=False):
        self.world = world      # World: repo modules, contracts, models
        self.path = path        # Path: decisions, pc, solver, obligations
        self.spec = spec        # spec mode: pure, merging, no bounds checks
        self.depth = 0
        self.out = None         # ghost output sequence of a generator
        self.calls = []         # ghost call log of callback applications
        self.fn_stack = []
        self.current_frame = None
        self.ghost_vars = {}    # extra names visible to contract expressions
        self.calls_ghost = None
        self.ncalls = {}        # ghost: callback name -> number of its calls
        for nm in getattr(world, 'alloc_sigs', ()):
            self.ncalls[nm] = z3.IntVal(0)
        self.yield_hooks = []

    # ----------------------------------------------------- branching ----

    def branch(self, cond):
        """Decide a possibly symbolic condition; forks in the explorer."""
        if isinstance(cond, bool):
            return cond
        if z3.is_expr(cond):
            c = z3.simplify(cond)
            if z3.is_true(c):
                return True
            if z3.is_false(c):
                return False
            if self.spec:
                raise Unsupported('branch on symbolic value in spec mode')
            return self.path.decide(c)
        return bool(cond)

    def truth(self, v):
        if hasattr(v, 'py_truth'):
            return v.py_truth()
        if isinstance(v, (MList,)):
            return v.seq.length > 0
        if isinstance(v, (FuncRef, ClassRef, ModuleRef, Model, ExcVal)):
            return True
        return S.truth(v)

    def raise_(self, cls_name, *args, node=None):
        cls = self.world.class_by_name(cls_name, None)
        raise RaiseSig(ExcVal(cls, args, getattr(node, 'lineno', None)))

    # --------------------------------------------------- expressions ----

    def eval(self, node, fr):
        m = getattr(self, 'e_' + type(node).__name__, None)
        if m is None:
            raise Unsupported('expression %s at line %s' % (
                type(node).__name__, getattr(node, 'lineno', '?')))
        return m(node, fr)

    def e_Constant(self, node, fr):
        return node.value

    def e_Name(self, node, fr):
        if node.id in getattr(fr, 'globals_declared', ()):
            return self.world.global_name(fr.module, node.id, self)
        try:
            v = fr.lookup(node.id)
            if isinstance(v, LazyGen):
                v = v.force()
            return v
        except KeyError:
            pass
        return self.world.global_name(fr.module, node.id, self)

    def e_Tuple(self, node, fr):
        out = []
        for e in node.elts:
            if isinstance(e, ast.Starred):
                v = self.eval(e.value, fr)
                out.extend(self.concrete_items(v))
            else:
                out.append(self.eval(e, fr))
        return tuple(out)

    def e_List(self, node, fr):
        return list(self.e_Tuple(node, fr))

    def e_Set(self, node, fr):
        return set(self.e_Tuple(node, fr))

    def e_Dict(self, node, fr):
        if not node.keys and getattr(self.world, 'symbolic_dicts', False) \
                and not self.spec:
            # `{}` that will be filled under symbolic keys: an (empty)
            # symbolic map Val -> Val
            from .world import SMapCell
            return SMapCell(S.SMap(z3.K(S.Val, z3.BoolVal(False)),
                                   z3.K(S.Val, S.NONE_VAL), TVal, TVal))
        d = {}
        for k, v in zip(node.keys, node.values):
            if k is None:
                raise Unsupported('dict unpacking')
            kk = self.eval(k, fr)
            if S.is_sym(kk) and not isinstance(kk, SVal):
                raise Unsupported('symbolic key in dict literal')
            d[kk] = self.eval(v, fr)
        return d

    def e_JoinedStr(self, node, fr):
        raise Unsupported('f-string')

    def concrete_items(self, v):
        if isinstance(v, (tuple, list)):
            return list(v)
        if isinstance(v, SSeq) and z3.is_int_value(z3.simplify(v.length)):
            n = z3.simplify(v.length).as_long()
            return [v.get(i) for i in range(n)]
        if isinstance(v, MList):
            return self.concrete_items(v.seq)
        if isinstance(v, S.SIter):
            rest = v.remaining()
            n = z3.simplify(rest.length)
            if z3.is_int_value(n):
                items = [rest.get(i) for i in range(n.as_long())]
                v.pos = z3.simplify(v.seq.length)   # drained
                return items
        if type(v).__name__ in ('dict_keyiterator', 'dict_valueiterator',
                                'dict_itemiterator', 'tuple_iterator',
                                'list_iterator', 'dict_keys', 'dict_values',
                                'dict_items'):
            return list(v)
        raise Unsupported('need a sequence of concrete length, got %r' % (v,))

    def e_UnaryOp(self, node, fr):
        v = self.eval(node.operand, fr)
        if isinstance(node.op, ast.Not):
            t = self.truth(v)
            if isinstance(t, bool):
                return not t
            return SBool(z3.Not(t))
        if isinstance(node.op, ast.USub):
            if isinstance(v, SInt):
                return SInt(-v.t)
            if isinstance(v, SReal):
                return SReal(-v.t)
            if isinstance(v, SBool):
                return SInt(-TInt.unwrap(v))
            if not S.is_sym(v):
                return -v
        if isinstance(node.op, ast.Invert) and isinstance(v, (SInt, int)) \
                and not isinstance(v, bool):
            return SInt(-TInt.unwrap(v) - 1) if S.is_sym(v) else ~v
        if isinstance(node.op, ast.UAdd):
            if isinstance(v, (SInt, SReal)) or not S.is_sym(v):
                return v if S.is_sym(v) else +v
        m = self.world.binop_model(type(node.op).__name__, v, None, self)
        if m is not NotImplemented:
            return m
        if isinstance(node.op, (ast.USub, ast.UAdd)) and isinstance(v, SVal):
            # an opaque value: some number (its negation uninterpreted) or
            # not a number at all (TypeError)
            from . import models
            tag = S.tag_fn(v.t)
            if self.branch(z3.Or(tag == 1, tag == 2, tag == 3)):
                if isinstance(node.op, ast.UAdd):
                    return v
                return models.apply_uf('py.neg', (v,), 'Val')
            self.raise_('TypeError', 'bad operand type for unary op',
                        node=node)
        raise Unsupported('unary %s on %r' % (type(node.op).__name__, v))

    def e_BoolOp(self, node, fr):
        is_and = isinstance(node.op, ast.And)
        if self.spec:
            terms = []
            for e in node.values:
                t = self.truth(self.eval(e, fr))
                if isinstance(t, bool):
                    if is_and and not t:
                        return SBool(z3.And(*terms + [z3.BoolVal(False)])) \
                            if terms else False
                    if not is_and and t:
                        return SBool(z3.Or(*terms + [z3.BoolVal(True)])) \
                            if terms else True
                    continue
                terms.append(t)
            if not terms:
                return is_and
            return SBool(z3.And(*terms) if is_and else z3.Or(*terms))
        v = None
        for i, e in enumerate(node.values):
            v = self.eval(e, fr)
            if i == len(node.values) - 1:
                return v
            t = self.branch(self.truth(v))
            if is_and and not t:
                return v
            if not is_and and t:
                return v
        return v

    def e_IfExp(self, node, fr):
        c = self.truth(self.eval(node.test, fr))
        if isinstance(c, bool) or (z3.is_expr(c) and (
                z3.is_true(z3.simplify(c)) or z3.is_false(z3.simplify(c)))):
            c = self.branch(c)
            return self.eval(node.body if c else node.orelse, fr)
        if self.spec:
            a = self.eval(node.body, fr)
            b = self.eval(node.orelse, fr)
            return self.merge(c, a, b)
        if self.branch(c):
            return self.eval(node.body, fr)
        return self.eval(node.orelse, fr)

    def merge(self, c, a, b):
        """ite(c, a, b) on values."""
        if not S.is_sym(a) and not S.is_sym(b) and type(a) is type(b) \
                and a == b:
            return a
        if isinstance(a, SSeq) and isinstance(b, SSeq):
            if a.step != 1 or b.step != 1:
                raise Unsupported('merge strided sequences')
            return SSeq(z3.If(c, a.length, b.length),
                        z3.If(c, a.arr, b.arr), a.elem,
                        z3.If(c, a.off, b.off), kind=a.kind)
        if isinstance(a, (tuple, list)) and isinstance(b, (tuple, list)) \
                and len(a) == len(b):
            return type(a)(self.merge(c, x, y) for x, y in zip(a, b))
        ta, tb = S.type_of(a), S.type_of(b)
        if ta is None or tb is None:
            raise Unsupported('merge of %r and %r' % (a, b))
        if ta is tb:
            return ta.wrap(z3.If(c, ta.unwrap(a), ta.unwrap(b)))
        if {ta, tb} <= {TInt, TBool}:
            return SInt(z3.If(c, TInt.unwrap(a), TInt.unwrap(b)))
        if {ta, tb} <= {TInt, TBool, TReal}:
            return SReal(z3.If(c, TReal.unwrap(a), TReal.unwrap(b)))
        return SVal(z3.If(c, S.box(a), S.box(b)))

    def e_Compare(self, node, fr):
        left = self.eval(node.left, fr)
        result = None
        for op, rn in zip(node.ops, node.comparators):
            right = self.eval(rn, fr)
            r = self.compare1(op, left, right, node)
            if result is None:
                result = r
            else:
                a, b = S.as_bool_term(self.truth(result)), \
                    S.as_bool_term(self.truth(r))
                result = SBool(z3.And(a, b))
            if len(node.ops) > 1 and not self.spec:
                t = self.truth(result)
                if not isinstance(t, bool):
                    t2 = z3.simplify(t)
                    if z3.is_false(t2):
                        return False
                elif not t:
                    return False
            left = right
        if isinstance(result, SBool):
            s = z3.simplify(result.t)
            if z3.is_true(s):
                return True
            if z3.is_false(s):
                return False
        return result

    def compare1(self, op, a, b, node):
        name = type(op).__name__
        if name in ('Is', 'IsNot'):
            r = self.identical(a, b)
            if name == 'IsNot':
                r = (not r) if isinstance(r, bool) else z3.Not(r)
            return r if isinstance(r, bool) else SBool(r)
        if name in ('Eq', 'NotEq'):
            r = self.world.eq_model(a, b, self)
            if name == 'NotEq':
                r = (not r) if isinstance(r, bool) else z3.Not(r)
            return r if isinstance(r, bool) else SBool(r)
        if name in ('In', 'NotIn'):
            r = self.contains(b, a)
            if name == 'NotIn':
                r = (not r) if isinstance(r, bool) else z3.Not(r)
            return r if isinstance(r, bool) else SBool(r)
        sym = {'Lt': '<', 'LtE': '<=', 'Gt': '>', 'GtE': '>='}[name]
        if not S.is_sym(a) and not S.is_sym(b):
            try:
                return {'<': a < b, '<=': a <= b, '>': a > b,
                        '>=': a >= b}[sym]
            except TypeError:
                self.raise_('TypeError', node=node)
        m = self.world.binop_model(sym, a, b, self)
        if m is not NotImplemented:
            return m
        if isinstance(a, S.SSet) and isinstance(b, S.SSet) and \
                a.elem is b.elem:
            # subset order on characteristic arrays
            v = z3.Const(S.fresh_name('e'), a.elem.sort())
            x, y = z3.Select(a.arr, v), z3.Select(b.arr, v)
            sub = z3.ForAll([v], z3.Implies(x, y))
            sup = z3.ForAll([v], z3.Implies(y, x))
            return SBool({'<=': sub, '>=': sup,
                          '<': z3.And(sub, a.arr != b.arr),
                          '>': z3.And(sup, a.arr != b.arr)}[sym])
        return SBool(S.compare(sym, a, b))

    def identical(self, a, b):
        if a is None or b is None:
            o = b if a is None else a
            if o is None:
                return True
            if isinstance(o, SVal):
                return o.t == S.NONE_VAL
            return False
        if isinstance(a, Opaque) or isinstance(b, Opaque):
            return S.equal(a, b)
        if isinstance(a, bool) or isinstance(b, bool):
            # `x is True`
            k, o = (a, b) if isinstance(a, bool) else (b, a)
            if isinstance(o, bool):
                return o is k
            if isinstance(o, SBool):
                return o.t if k else z3.Not(o.t)
            if isinstance(o, SVal):
                return o.t == S.box(k)
            return False
        if isinstance(a, SVal) and isinstance(b, SVal):
            return a.t == b.t
        if a is b:
            return True
        if isinstance(a, ClassRef) and isinstance(b, ClassRef):
            # one class, however many references to it were resolved
            if a.node is not None or b.node is not None:
                return a.node is b.node
            return a.name == b.name and getattr(
                a.module, 'name', a.module) == getattr(
                    b.module, 'name', b.module)
        if isinstance(a, SVal) and hasattr(b, 'as_val'):
            return a.t == b.as_val()
        if isinstance(b, SVal) and hasattr(a, 'as_val'):
            return b.t == a.as_val()
        if not S.is_sym(a) and not S.is_sym(b):
            return a is b
        raise Unsupported('`is` on %r, %r' % (a, b))

    def contains(self, container, item):
        m = self.world.binop_model('in', container, item, self)
        if m is not NotImplemented:
            return m.t if isinstance(m, SBool) else m
        if type(container).__name__ == 'ObjVal':
            if container.cls.name == 'FrozenDict' and '_d' in \
                    container.fields:
                # the Mapping mixin: membership is membership in the storage
                return self.contains(container.fields['_d'], item)
        if isinstance(container, MList):
            container = container.seq
        if isinstance(container, SSeq):
            return S.seq_contains(container, item)
        if isinstance(container, SStr) or (isinstance(container, str)
                                           and isinstance(item, SStr)):
            return z3.Contains(TStr.unwrap(container), TStr.unwrap(item))
        if isinstance(container, S.SSet):
            return container.has(item)
        if isinstance(container, SVal):
            return S.py_in(container.t, S.box_any(item))
        if isinstance(container, SMap):
            return container.has(item)
        if type(container).__name__ == 'SMapCell':
            return container.m.has(item)
        if isinstance(container, (tuple, list, set, frozenset)):
            terms = []
            for x in container:
                r = self.world.eq_model(item, x, self)
                if isinstance(r, bool):
                    if r:
                        return True
                    continue
                terms.append(r)
            return z3.Or(*terms) if terms else False
        if isinstance(container, dict):
            if S.is_sym(item):
                terms = [S.as_bool_term(S.equal(item, k)) for k in container]
                return z3.Or(*terms) if terms else False
            if not self.spec:
                self.world.check_hashable(item, self)
            return item in container
        if isinstance(container, str) and isinstance(item, str):
            return item in container
        m = self.world.binop_model('in', container, item, self)
        if m is not NotImplemented:
            return m
        raise Unsupported('`in` on %r' % (container,))

    def e_BinOp(self, node, fr):
        a = self.eval(node.left, fr)
        b = self.eval(node.right, fr)
        return self.binop(type(node.op).__name__, a, b, node)

    def binop(self, op, a, b, node=None):
        if not S.is_sym(a) and not S.is_sym(b) and not isinstance(
                a, (MList, Opaque)) and not isinstance(b, (MList, Opaque)):
            try:
                if op == 'Add':
                    return a + b
                if op == 'Sub':
                    return a - b
                if op == 'Mult':
                    return a * b
                if op == 'FloorDiv':
                    return a // b
                if op == 'Mod':
                    return a % b
                if op == 'Div':
                    return a / b
                if op == 'Pow':
                    return a ** b
                if op in ('BitOr', 'BitAnd', 'BitXor', 'LShift', 'RShift') \
                        and isinstance(a, int) and isinstance(b, int):
                    import operator
                    return {'BitOr': operator.or_, 'BitAnd': operator.and_,
                            'BitXor': operator.xor,
                            'LShift': operator.lshift,
                            'RShift': operator.rshift}[op](a, b)
            except ZeroDivisionError:
                self.raise_('ZeroDivisionError', node=node)
            except TypeError:
                m = self.world.binop_model(op, a, b, self)
                if m is not NotImplemented:
                    return m
                self.raise_('TypeError', node=node)
        m = self.world.binop_model(op, a, b, self)
        if m is not NotImplemented:
            return m
        if isinstance(a, S.SSet) and isinstance(b, S.SSet) and \
                a.elem is b.elem and op in ('Sub', 'BitOr', 'BitAnd',
                                            'BitXor'):
            # set algebra on characteristic arrays (a fresh set)
            v = z3.Const(S.fresh_name('e'), a.elem.sort())
            x, y = z3.Select(a.arr, v), z3.Select(b.arr, v)
            body = {'Sub': z3.And(x, z3.Not(y)), 'BitOr': z3.Or(x, y),
                    'BitAnd': z3.And(x, y), 'BitXor': z3.Xor(x, y)}[op]
            return S.SSet(z3.Lambda([v], body), a.elem)
        ta, tb = S.type_of(a), S.type_of(b)
        num = (TInt, TBool, TReal)
        if isinstance(a, MList):
            a = a.seq
        if isinstance(b, MList):
            b = b.seq
        if op == 'Mult' and (isinstance(a, (SSeq, SStr, str)) or isinstance(
                b, (SSeq, SStr, str))) and (ta is TInt or tb is TInt
                                            or ta is TBool or tb is TBool):
            q, k = (a, b) if not isinstance(a, (SInt, int, SBool)) else (b, a)
            kt = TInt.unwrap(k)
            rep = z3.If(kt < 0, z3.IntVal(0), kt)
            if isinstance(q, SSeq):
                j = z3.Int(S.fresh_name('k'))
                ln = q.length
                arr = z3.Lambda([j], q.at(S.py_mod(j, z3.If(ln == 0, 1,
                                                           ln))))
                return SSeq(z3.simplify(ln * rep), arr, q.elem, kind=q.kind)
            # string repetition: characterised by its length only
            r = z3.String(S.fresh_name('rep'))
            self.path.assume(z3.Length(r) == z3.Length(TStr.unwrap(q)) * rep)
            return SStr(r)
        if op == 'Add' and (isinstance(a, SSeq) or isinstance(b, SSeq)):
            if isinstance(a, (tuple, list)):
                if not a:
                    return b
                a = S.seq_from_items(list(a), b.elem)
            if isinstance(b, (tuple, list)):
                if not b:
                    return a
                b = S.seq_from_items(list(b), a.elem)
            return S.seq_concat(a, b)
        if ta is TStr and tb is TStr and op == 'Add':
            return SStr(z3.Concat(TStr.unwrap(a), TStr.unwrap(b)))
        if ta in num and tb in num:
            if TReal in (ta, tb) or op == 'Div':
                # float arithmetic: the exact real result, rounded by an
                # UNINTERPRETED rounding function fl (A2'): equalities that
                # hold only in exact arithmetic are not provable
                x, y = TReal.unwrap(a), TReal.unwrap(b)
                fl = S.fl if not self.spec else (lambda t: t)
                if op == 'Add':
                    return SReal(fl(x + y))
                if op == 'Sub':
                    return SReal(fl(x - y))
                if op == 'Mult':
                    return SReal(fl(x * y))
                if op == 'Div':
                    if not self.spec and self.branch(y == 0):
                        self.raise_('ZeroDivisionError', node=node)
                    return SReal(fl(x / y))
                if op in ('FloorDiv', 'Mod'):
                    if not self.spec and self.branch(y == 0):
                        self.raise_('ZeroDivisionError', node=node)
                    q = z3.ToReal(z3.ToInt(x / y))
                    return SReal(fl(q) if op == 'FloorDiv'
                                 else fl(x - q * y))
                raise Unsupported('real %s' % op)
            x, y = TInt.unwrap(a), TInt.unwrap(b)
            if op in ('BitAnd', 'BitOr', 'BitXor', 'LShift', 'RShift') \
                    and TReal not in (ta, tb):
                # two's-complement operations on unbounded integers are
                # uninterpreted (operator and operand order are decided; the
                # values are cross-checked natively); a negative shift count
                # raises ValueError
                if op in ('LShift', 'RShift') and not self.spec and \
                        self.branch(y < 0):
                    self.raise_('ValueError', 'negative shift count',
                                node=node)
                f = z3.Function('int.' + op, z3.IntSort(), z3.IntSort(),
                                z3.IntSort())
                return SInt(f(x, y))
            if op == 'Pow' and TReal not in (ta, tb):
                f = z3.Function('int.Pow', z3.IntSort(), z3.IntSort(),
                                z3.IntSort())
                if not self.spec and self.branch(y < 0):
                    raise Unsupported('int ** negative int (a float)')
                return SInt(f(x, y))
            if op == 'Add':
                return SInt(x + y)
            if op == 'Sub':
                return SInt(x - y)
            if op == 'Mult':
                return SInt(x * y)
            if op in ('FloorDiv', 'Mod'):
                if not self.spec and self.branch(y == 0):
                    self.raise_('ZeroDivisionError', node=node)
                return SInt(S.floor_div(x, y) if op == 'FloorDiv'
                            else S.py_mod(x, y))
        raise Unsupported('binary %s on %r, %r' % (op, a, b))

    def e_Subscript(self, node, fr):
        obj = self.eval(node.value, fr)
        if isinstance(node.slice, ast.Slice):
            lo = self.eval(node.slice.lower, fr) if node.slice.lower else None
            hi = self.eval(node.slice.upper, fr) if node.slice.upper else None
            st = self.eval(node.slice.step, fr) if node.slice.step else None
            return self.slice(obj, lo, hi, st, node)
        idx = self.eval(node.slice, fr)
        return self.index(obj, idx, node)

    def slice(self, obj, lo, hi, st, node=None):
        if st is not None and st != 1:
            if st == -1 and lo is None and hi is None:
                if isinstance(obj, (tuple, list, str)):
                    return obj[::-1]
                if isinstance(obj, SSeq):
                    return S.seq_reverse(obj)
            raise Unsupported('slice step')
        if isinstance(obj, MList):
            return MList(self.slice(obj.seq, lo, hi, st, node))
        sym_bounds = S.is_sym(lo) or S.is_sym(hi)
        if isinstance(obj, (str, tuple, list)) and not sym_bounds:
            return obj[lo:hi]
        l = None if lo is None else TInt.unwrap(lo)
        h = None if hi is None else TInt.unwrap(hi)
        if isinstance(obj, (SStr, str)):
            return SStr(S.str_slice(TStr.unwrap(obj), l, h))
        if isinstance(obj, (tuple, list)):
            if not obj:
                return obj
            obj = S.seq_from_items(list(obj), TVal if any(
                S.type_of(x) is not S.type_of(obj[0]) for x in obj)
                else S.type_of(obj[0]))
        if isinstance(obj, SSeq):
            return S.seq_slice(obj, l, h)
        m = self.world.binop_model('slice', obj, (lo, hi), self)
        if m is not NotImplemented:
            return m
        if isinstance(obj, SVal):
            # a slice of an opaque value (bytes ...): uninterpreted
            from . import models
            return models.apply_uf('py.getslice', (
                obj, SInt(l) if l is not None else None,
                SInt(h) if h is not None else None), 'Val')
        raise Unsupported('slice of %r' % (obj,))

    def index(self, obj, idx, node=None):
        if isinstance(obj, MList):
            obj = obj.seq
        if isinstance(obj, dict):
            if S.is_sym(idx):
                # the very key object the dict was built with
                for k2, v2 in obj.items():
                    if k2 is idx or (hasattr(k2, 't') and hasattr(idx, 't')
                                     and z3.is_expr(k2.t) and z3.is_expr(
                                         idx.t) and k2.t.eq(idx.t)):
                        return v2
                # symbolic key into a concrete dict: case split on the keys
                for k2, v2 in obj.items():
                    if S.is_sym(k2):
                        continue
                    if self.branch(S.as_bool_term(S.equal(idx, k2))):
                        return v2
                if self.spec:
                    return TVal.fresh('undef')
                self.raise_('KeyError', idx, node=node)
            if idx not in obj:
                self.raise_('KeyError', idx, node=node)
            return obj[idx]
        if type(obj).__name__ == 'SMapCell':
            obj = obj.m
        if isinstance(obj, SMap):
            if not self.spec and not self.branch(obj.has(idx)):
                self.raise_('KeyError', idx, node=node)
            return obj.get(idx)
        if isinstance(obj, (tuple, list, str)) and not S.is_sym(idx):
            try:
                return obj[idx]
            except IndexError:
                if self.spec:
                    # undefined term: only harmless under a false guard
                    return TVal.fresh('undef')
                self.raise_('IndexError', node=node)
        if isinstance(obj, (tuple, list)):
            # symbolic index into concrete tuple: case split
            n = len(obj)
            i = TInt.unwrap(idx)
            for k in range(-n, n):
                if self.branch(i == k):
                    return obj[k]
            self.raise_('IndexError', node=node)
        if isinstance(obj, (SStr, str)):
            s = TStr.unwrap(obj)
            i = TInt.unwrap(idx)
            n = z3.Length(s)
            if not self.spec:
                if not self.branch(z3.And(i >= -n, i < n)):
                    self.raise_('IndexError', node=node)
            j = z3.If(i < 0, i + n, i)
            return SStr(z3.SubString(s, j, 1))
        if isinstance(obj, SSeq):
            i = TInt.unwrap(idx)
            n = obj.length
            if self.spec:
                return obj.get(i)
            if not self.branch(z3.And(i >= -n, i < n)):
                self.raise_('IndexError', node=node)
            if self.branch(i >= 0):
                return obj.get(i)
            return obj.get(i + n)
        m = self.world.binop_model('index', obj, idx, self)
        if m is not NotImplemented:
            return m
        if type(obj).__name__ == 'ObjVal' and self.world.find_method(
                obj.cls, '__getitem__') is not None:
            return self.call(self.world.attr_model(obj, '__getitem__', self),
                             [idx], {}, node)
        if isinstance(obj, SVal):
            # item read on an opaque object: uninterpreted, logged
            from . import models
            r = models.apply_uf('py.getitem', (obj, idx), 'Val')
            self.calls.append(('getitem', (obj, idx), r))
            return r
        raise Unsupported('index into %r' % (obj,))

    def e_Attribute(self, node, fr):
        obj = self.eval(node.value, fr)
        return self.getattr(obj, node.attr, node)

    def getattr(self, obj, name, node=None):
        if isinstance(obj, ModuleRef):
            return self.world.module_attr(obj.name, name, self)
        if type(obj).__name__ in ('module', 'SimpleNamespace'):
            return getattr(obj, name)
        if isinstance(obj, (SFunc, ClassRef)) and name == 'name':
            return obj.name
        if isinstance(obj, ClassRef) and obj.name == 'object' and \
                name == '__sizeof__':
            # object.__sizeof__(x): the basic size of the instance, >= 0
            def basic_size(x):
                from . import models
                r = models.apply_uf('object.__sizeof__', (x,), 'Int')
                self.path.assume(TInt.unwrap(r) >= 0)
                return r
            return Model('object.__sizeof__', basic_size)
        if isinstance(obj, FuncRef) and name == 'name' and self.spec:
            return obj.qualname         # (contracts only) which function
        if isinstance(obj, FuncRef) and name == 'decos' and self.spec:
            return getattr(obj, 'decos', ())
        if isinstance(obj, FuncRef) and name == 'closure_vars':
            out = {}
            f = obj.closure
            while f is not None:
                for k, v in f.vars.items():
                    out.setdefault(k, v)
                f = f.parent
            return out
        if isinstance(obj, S.SIter) and name in ('seq', 'pos'):
            return obj.seq if name == 'seq' else SInt(obj.pos)
        r = self.world.attr_model(obj, name, self)
        if r is not NotImplemented:
            return r
        if name in (getattr(type(obj), 'pyvc_attrs', None) or ()):
            return getattr(obj, name)
        if isinstance(obj, (str, SStr, tuple, list, dict, set, SSeq, MList,
                            SMap, frozenset, S.SSet)):
            return BoundMethod(obj, name)
        if isinstance(obj, SVal):
            if name in self.world.opaque_attrs:
                return self.world.opaque_attrs[name](obj, self)
            if name in self.world.opaque_sigs:
                return BoundMethod(obj, name)
            if getattr(self.world, 'opaque_attr_default', False) and \
                    not hasattr(str, name) and not name.startswith('__'):
                # a data attribute of an opaque object: an uninterpreted
                # function of the object and of the number of effectful
                # calls logged so far (any logged call may have changed it)
                from . import models
                self.world.trusted_used.add(
                    'opaque attribute .%s read as a function of (object, '
                    'call-log length)' % name)
                return models.apply_uf('attr.' + name,
                                       (obj, len(self.calls)), 'Val')
            if hasattr(str, name) and not name.startswith('__'):
                # a str method on an untyped value: a str has it; None /
                # bool / int / float raise AttributeError; anything else is
                # outside the encoding
                tg = S.tag_fn(obj.t)
                if self.branch(tg == 4):
                    return BoundMethod(SStr(S.unbox_str(obj.t)), name)
                if self.branch(z3.And(tg >= 0, tg <= 3)):
                    self.raise_('AttributeError', node=node)
                # any other object: the attribute is looked up ON IT - an
                # effect on a (possibly host) object, logged like getattr()
                from . import models
                r = models.apply_uf('py.getattr', (obj, name), 'Val')
                self.calls.append(('getattr', (obj, name), r))
                return r
        if isinstance(obj, Opaque) and name in ('sub', 'subn'):
            # a module-level compiled pattern (opaque global): substitution
            # is SOME string function of its arguments
            from . import models
            pat = obj.name

            def re_sub(repl, text, *rest):
                r = models.apply_uf('re.sub:' + pat, (
                    repl if isinstance(repl, (str, S.SStr)) else 0, text),
                    'Str')
                return r
            return Model('re.sub', re_sub)
        if type(obj).__name__ in ('SMapCell', 'WriteLog', 'SetMapCell',
                                  'Bucket'):
            return BoundMethod(obj, name)
        if isinstance(obj, ExcVal):
            if name in ('start', 'end') and any(
                    n.startswith('Unicode') for n in obj.cls.mro_names(
                        self.world)):
                # UnicodeError.start / .end: 0 <= start <= end
                cache = obj.__dict__.setdefault('_attrs', {})
                if not cache:
                    a, b = TInt.fresh('exc.start'), TInt.fresh('exc.end')
                    self.path.assume(z3.And(a.t >= 0, a.t <= b.t))
                    cache['start'], cache['end'] = a, b
                return cache[name]
            if name in ('object', 'reason', 'encoding'):
                cache = obj.__dict__.setdefault('_attrs2', {})
                if name not in cache:
                    cache[name] = TVal.fresh('exc.' + name)
                return cache[name]
            return BoundMethod(obj, name)
        raise Unsupported('attribute .%s of %r' % (name, obj))

    def e_Lambda(self, node, fr):
        return FuncRef(fr.module, node, '<lambda>', closure=fr)

    def e_Call(self, node, fr):
        fn = self.eval(node.func, fr)
        args = []
        for a in node.args:
            if isinstance(a, ast.Starred):
                sv = self.eval(a.value, fr)
                if isinstance(sv, SVal) and isinstance(fn, SVal):
                    # f(*opaque) on an opaque callable: the argument pack is
                    # passed on as one uninterpreted `star` value
                    from . import models
                    args.append(models.apply_uf('py.star', (sv,), 'Val'))
                else:
                    args.extend(self.concrete_items(sv))
            else:
                args.append(self.eval(a, fr))
        kwargs = {}
        for k in node.keywords:
            if k.arg is None:
                d = self.eval(k.value, fr)
                if isinstance(d, SVal) and isinstance(fn, SVal):
                    kwargs['**'] = d
                    continue
                if not isinstance(d, dict):
                    raise Unsupported('** of non-concrete dict')
                kwargs.update(d)
            else:
                kwargs[k.arg] = self.eval(k.value, fr)
        self.current_frame = fr
        return self.call(fn, args, kwargs, node)

    def call(self, fn, args, kwargs, node=None):
        if isinstance(fn, Model):
            from . import models as _m
            _m._CUR[0] = self
            try:
                if fn.needs_interp:
                    return fn.fn(self, node, *args, **kwargs)
                return fn.fn(*args, **kwargs)
            finally:
                self.drain_axioms()
        if isinstance(fn, SFunc):
            if kwargs:
                raise Unsupported('keyword call of callback')
            r = fn.apply(args)
            self.calls.append((fn.name, tuple(args), r))
            if not self.spec and getattr(self, 'callback_exc', None):
                # a callback (lambda operand) may raise - in particular any
                # exception the function under verification is prepared to
                # CATCH somewhere: a handler must not take an operand's
                # error for one of the function's own
                for exc_name in sorted(self.callback_exc):
                    flag = z3.Bool(S.fresh_name('operand_raises_' + exc_name))
                    if self.branch(flag):
                        cls = self.world.class_by_name(exc_name, None)
                        ev = ExcVal(cls, ('raised by operand %s' % fn.name,),
                                    getattr(node, 'lineno', None))
                        ev.from_callback = True
                        raise RaiseSig(ev)
            if not self.spec:
                self.ncalls[fn.name] = z3.simplify(self.ncalls.get(
                    fn.name, z3.IntVal(0)) + 1)
            return r
        if isinstance(fn, BoundMethod):
            try:
                return self.world.method_model(fn.obj, fn.name, args, kwargs,
                                               self, node)
            finally:
                self.drain_axioms()
        if isinstance(fn, FuncRef):
            return self.call_func(fn, args, kwargs, node)
        if isinstance(fn, ClassRef):
            return self.world.construct(fn, args, kwargs, self, node)
        if type(fn).__name__ == 'ObjVal':
            m = self.world.attr_model(fn, '__call__', self)
            if isinstance(m, FuncRef):
                return self.call_func(m, args, kwargs, node)
        if isinstance(fn, SVal):
            # call of an opaque callable object: uninterpreted, logged
            from . import models
            sym = 'call'
            extra = ()
            if kwargs and not all(isinstance(k, str) for k in kwargs):
                # computed keyword names: names and values, as written
                sym += '$**'
                extra = tuple(x for k in kwargs for x in (k, kwargs[k]))
            elif kwargs:
                sym += '$' + '$'.join(sorted(kwargs))
                extra = tuple(kwargs[k] for k in sorted(kwargs))
            r = models.apply_uf(sym, (fn,) + tuple(args) + extra, 'Val')
            self.calls.append((sym, (fn,) + tuple(args) + extra, r))
            return r
        if callable(fn) and not S.is_sym(fn):
            # concrete python callable given by the contract environment
            return fn(*args, **kwargs)
        raise Unsupported('call of %r' % (fn,))

    def drain_axioms(self):
        while S.PENDING_AXIOMS:
            self.path.assume(S.PENDING_AXIOMS.pop())

    def bind_params(self, fn, args, kwargs, fr):
        a = fn.node.args
        params = [p.arg for p in a.posonlyargs + a.args]
        defaults = a.defaults
        args = list(args)
        if fn.self_obj is not None:
            args = [fn.self_obj] + args
        nd = len(params) - len(defaults)
        for i, p in enumerate(params):
            if i < len(args):
                fr.vars[p] = args[i]
            elif p in kwargs:
                fr.vars[p] = kwargs.pop(p)
            elif i >= nd:
                dfr = Frame(module=fn.module)
                if fn.closure is not None:
                    dfr.parent = fn.closure
                fr.vars[p] = self.eval(defaults[i - nd], dfr)
            else:
                self.raise_('TypeError', 'missing argument %s' % p)
        if a.vararg:
            fr.vars[a.vararg.arg] = tuple(args[len(params):])
        elif len(args) > len(params):
            self.raise_('TypeError', 'too many positional arguments')
        for p, d in zip(a.kwonlyargs, a.kw_defaults):
            if p.arg in kwargs:
                fr.vars[p.arg] = kwargs.pop(p.arg)
            elif d is not None:
                fr.vars[p.arg] = self.eval(d, Frame(module=fn.module))
            else:
                raise Unsupported('missing kw-only %s' % p.arg)
        if a.kwarg:
            fr.vars[a.kwarg.arg] = dict(kwargs)
        elif kwargs:
            self.raise_('TypeError', 'unexpected keyword arguments')

    def call_func(self, fn, args, kwargs, node=None):
        c = self.world.contract_for(fn)
        if c is not None and not self.spec and (
                fn.node not in self.fn_stack or getattr(
                    self.world, 'recursive_contracts', False)):
            # (a recursive call goes to the function's own contract only
            # when the world asks for it: induction hypothesis, partial
            # correctness)
            return self.world.apply_contract(c, fn, args, kwargs, self, node)
        if self.depth > 12:
            raise Unsupported('inlining depth')
        fr = Frame(parent=fn.closure, module=fn.module)
        fr.world_state = self.world.module_state
        fr.method_owner = fn.owner
        fr.method_self = fn.self_obj
        kwargs = dict(kwargs)
        self.bind_params(fn, args, kwargs, fr)
        if isinstance(fn.node, ast.Lambda):
            self.depth += 1
            try:
                return self.eval(fn.node.body, fr)
            finally:
                self.depth -= 1
        if _is_generator(fn.node):
            return self.world.run_generator(fn, fr, self, node)
        self.depth += 1
        self.fn_stack.append(fn.node)
        try:
            self.exec_block(fn.node.body, fr)
        except ReturnSig as r:
            return r.value
        finally:
            self.fn_stack.pop()
            self.depth -= 1
        return None

    def e_GeneratorExp(self, node, fr):
        return self.comprehension(node, fr, 'gen')

    def e_ListComp(self, node, fr):
        return self.comprehension(node, fr, 'list')

    def e_SetComp(self, node, fr):
        return self.comprehension(node, fr, 'set')

    def e_DictComp(self, node, fr):
        if len(node.generators) != 1:
            raise Unsupported('nested comprehension')
        g = node.generators[0]
        items = self.concrete_items(self.eval(g.iter, fr))
        out = {}
        for x in items:
            f2 = Frame(parent=fr)
            self.assign_target(g.target, x, f2)
            if all(self.branch(self.truth(self.eval(c, f2)))
                   for c in g.ifs):
                k = self.eval(node.key, f2)
                if S.is_sym(k):
                    raise Unsupported('symbolic key in dict comprehension')
                out[k] = self.eval(node.value, f2)
        return out

    def comprehension(self, node, fr, kind, src=None):
        if len(node.generators) != 1:
            raise Unsupported('nested comprehension')
        g = node.generators[0]
        if src is None:
            src = self.eval(g.iter, fr)
        else:
            src = src[0]
        if kind == 'gen' and isinstance(src, S.SVal) and not g.ifs:
            # a generator expression over an opaque iterable: lazy, nothing
            # is walked when it is created
            from . import models
            self.world.trusted_used.add('generator expression over an '
                                        'opaque iterable (T-lazy)')
            r = models.apply_uf('genexp:%d' % node.lineno, (src,), 'Val')
            self.calls.append(('genexp', (src,), r))
            rt = S.TVal.unwrap(r)
            self.path.assume(models.isinst_fn('Iterable')(rt))
            self.path.assume(models.isinst_fn('Iterator')(rt))
            return r
        it = self.world.iter_spec(src, self)
        n = z3.simplify(it.length) if z3.is_expr(it.length) else it.length
        lazy_view = kind == 'gen' and isinstance(src, S.SIter) and \
            not g.ifs and not (isinstance(n, int) or z3.is_int_value(n))
        if isinstance(src, S.SIter) and not lazy_view and \
                getattr(it, 'consume', None) is not None:
            # (a generator expression over a one-shot iterator of known
            # length is still evaluated at once here: its consumers in the
            # code under contract all drain it)
            it.consume(it.length)
        if isinstance(n, int) or z3.is_int_value(n):
            n = n if isinstance(n, int) else n.as_long()
            out = []
            for k in range(n):
                f2 = Frame(parent=fr)
                self.assign_target(g.target, it.item(k), f2)
                ok = True
                for cond in g.ifs:
                    if not self.branch(self.truth(self.eval(cond, f2))):
                        ok = False
                        break
                if ok:
                    out.append(self.eval(node.elt, f2))
            if kind == 'set':
                return set(out)
            return out if kind == 'list' else tuple(out)
        if g.ifs:
            raise Unsupported('filtering comprehension over symbolic length')
        # map over a symbolic-length sequence: element-wise lambda array
        k = z3.Int(S.fresh_name('k'))
        f2 = Frame(parent=fr)
        self.assign_target(g.target, it.item(k), f2)
        was = self.spec
        self.spec = True
        ncalls = len(self.calls)
        try:
            body = self.eval(node.elt, f2)
        except Unsupported:
            # the element expression is not one term (it branches on the
            # element): the image stays uninterpreted
            from . import models
            del self.calls[ncalls:]
            self.world.trusted_used.add('comprehension: image of a '
                                        'branching element uninterpreted')
            body = models.apply_uf('comp.image:%d' % node.lineno,
                                   (it.item(k),), 'Val')
        finally:
            self.spec = was
        t = S.type_of(body)
        if t is None or isinstance(t, TSeq):
            raise Unsupported('comprehension element %r' % (body,))
        arr = z3.Lambda([k], t.unwrap(body))
        if lazy_view:
            # a generator expression over a one-shot iterator: a lazy view,
            # pulling it pulls the parent
            view = SSeq(it.length, arr, t, kind='iter')
            return S.SIter(view, parent=src)
        return SSeq(it.length, arr, t,
                    kind='list' if kind == 'list' else 'tuple')

    # ---------------------------------------------------- statements ----

    def exec_block(self, stmts, fr):
        for s in stmts:
            self.exec(s, fr)

    def exec(self, node, fr):
        m = getattr(self, 's_' + type(node).__name__, None)
        if m is None:
            raise Unsupported('statement %s at line %s' % (
                type(node).__name__, getattr(node, 'lineno', '?')))
        return m(node, fr)

    def s_Expr(self, node, fr):
        if isinstance(node.value, ast.Constant):
            return          # docstring
        if isinstance(node.value, (ast.Yield, ast.YieldFrom)):
            return self.world.do_yield(node.value, fr, self)
        self.eval(node.value, fr)

    def s_Pass(self, node, fr):
        pass

    def s_Global(self, node, fr):
        fr.globals_declared = getattr(fr, 'globals_declared', set()) | set(
            node.names)

    def s_Nonlocal(self, node, fr):
        fr.nonlocals.update(node.names)

    def s_Assign(self, node, fr):
        if isinstance(node.value, ast.Yield):
            raise Unsupported('yield expression value')
        if isinstance(node.value, ast.GeneratorExp) and len(
                node.targets) == 1 and isinstance(node.targets[0], ast.Name):
            # `g = (f(x) for x in xs)`: nothing runs until g is used - the
            # elements (and their effects) are evaluated at its first use
            fr.assign(node.targets[0].id, LazyGen(self, node.value, fr))
            return
        v = self.eval(node.value, fr)
        for t in node.targets:
            self.assign_target(t, v, fr)

    def s_AnnAssign(self, node, fr):
        if node.value is not None:
            self.assign_target(node.target, self.eval(node.value, fr), fr)

    def assign_target(self, t, v, fr):
        if isinstance(t, ast.Name):
            fr.assign(t.id, v)
        elif isinstance(t, (ast.Tuple, ast.List)):
            items = self.unpack(v, len(t.elts), t)
            for e, x in zip(t.elts, items):
                self.assign_target(e, x, fr)
        elif isinstance(t, ast.Subscript):
            obj = self.eval(t.value, fr)
            if isinstance(t.slice, ast.Slice):
                lo = self.eval(t.slice.lower, fr) if t.slice.lower else None
                hi = self.eval(t.slice.upper, fr) if t.slice.upper else None
                if isinstance(obj, list) and t.slice.step is None and \
                        not S.is_sym(lo) and not S.is_sym(hi):
                    # a concrete list with concrete bounds: Python's own
                    # slice assignment
                    obj[lo:hi] = self.concrete_items(v)
                    return
                raise Unsupported('slice assignment')
            idx = self.eval(t.slice, fr)
            self.setitem(obj, idx, v, t)
        elif isinstance(t, ast.Attribute):
            obj = self.eval(t.value, fr)
            self.world.setattr_model(obj, t.attr, v, self, t)
        else:
            raise Unsupported('assignment target %s' % type(t).__name__)

    def unpack(self, v, n, node):
        """Tuple unpacking with the arity obligation made explicit."""
        if isinstance(v, (tuple, list)):
            if len(v) != n:
                self.raise_('ValueError', 'unpack arity', node=node)
            return list(v)
        if isinstance(v, (SSeq, MList)):
            q = v.seq if isinstance(v, MList) else v
            if not self.branch(q.length == n):
                self.raise_('ValueError', 'unpack arity', node=node)
            return [q.get(i) for i in range(n)]
        r = self.world.unpack_model(v, n, self, node)
        if r is not NotImplemented:
            return r
        raise Unsupported('unpack of %r' % (v,))

    def setitem(self, obj, idx, v, node=None):
        if isinstance(obj, dict):
            if S.is_sym(idx) and not isinstance(idx, SVal):
                raise Unsupported('symbolic key store into concrete dict')
            # an opaque key is stored under its own identity: such a dict is
            # only ever built and compared entry-wise, never searched
            if isinstance(idx, SVal) and not self.spec:
                from . import models
                h = models.uf('py.hashable', S.Val, z3.BoolSort())(idx.t)
                if not self.branch(h):
                    self.raise_('TypeError', 'unhashable type', node=node)
            obj[idx] = v
            return
        if isinstance(obj, list) and not S.is_sym(idx):
            try:
                obj[idx] = v
            except IndexError:
                self.raise_('IndexError', node=node)
            return
        if isinstance(obj, MList):
            q = obj.seq
            i = TInt.unwrap(idx)
            if not self.branch(z3.And(i >= -q.length, i < q.length)):
                self.raise_('IndexError', node=node)
            j = z3.If(i < 0, i + q.length, i)
            if q.step != 1:
                raise Unsupported('store into strided list')
            obj.seq = SSeq(q.length, z3.Store(q.arr, q.off + j,
                                              q.elem.unwrap(v)),
                           q.elem, q.off, kind='list')
            return
        r = self.world.setitem_model(obj, idx, v, self, node)
        if r is not NotImplemented:
            return
        if type(obj).__name__ == 'ObjVal' and self.world.find_method(
                obj.cls, '__setitem__') is not None:
            # obj[k] = v on an instance of a repository class: its own
            # __setitem__
            self.call(self.world.attr_model(obj, '__setitem__', self),
                      [idx, v], {}, node)
            return
        raise Unsupported('item store into %r' % (obj,))

    def s_AugAssign(self, node, fr):
        cur = self.eval(_load(node.target), fr)
        v = self.eval(node.value, fr)
        opn = type(node.op).__name__
        if isinstance(cur, list) and opn == 'Add':
            cur.extend(self.concrete_items(v))
            return
        if isinstance(cur, MList) and opn == 'Add':
            self.world.method_model(cur, 'extend', [v], {}, self, node)
            return
        self.assign_target(node.target, self.binop(opn, cur, v, node), fr)

    def s_Delete(self, node, fr):
        for t in node.targets:
            if isinstance(t, ast.Subscript):
                obj = self.eval(t.value, fr)
                idx = self.eval(t.slice, fr)
                self.world.delitem_model(obj, idx, self, t)
            elif isinstance(t, ast.Name):
                fr.vars.pop(t.id, None)
            else:
                raise Unsupported('del target')

    def s_Return(self, node, fr):
        raise ReturnSig(None if node.value is None
                        else self.eval(node.value, fr))

    def s_If(self, node, fr):
        # if-conversion of the idiom `if c: s.add(x)` on a symbolic set
        if not node.orelse and len(node.body) == 1 and isinstance(
                node.body[0], ast.Expr) and isinstance(
                    node.body[0].value, ast.Call) and isinstance(
                        node.body[0].value.func, ast.Attribute) and \
                node.body[0].value.func.attr == 'add' and isinstance(
                    node.body[0].value.func.value, ast.Name) and fr.has(
                        node.body[0].value.func.value.id) and isinstance(
                            fr.lookup(node.body[0].value.func.value.id),
                            S.SSet) and len(node.body[0].value.args) == 1:
            st = fr.lookup(node.body[0].value.func.value.id)
            c = self.truth(self.eval(node.test, fr))
            if not isinstance(c, bool):
                x = st.elem.unwrap(self.eval(node.body[0].value.args[0], fr))
                st.arr = z3.Store(st.arr, x, z3.Or(c, z3.Select(st.arr, x)))
                return
        if self.branch(self.truth(self.eval(node.test, fr))):
            self.exec_block(node.body, fr)
        else:
            self.exec_block(node.orelse, fr)

    def s_Assert(self, node, fr):
        if not self.branch(self.truth(self.eval(node.test, fr))):
            self.raise_('AssertionError', node=node)

    def s_Raise(self, node, fr):
        if node.exc is None:
            cur = fr.lookup('__active_exception__') \
                if fr.has('__active_exception__') else None
            if cur is None:
                raise Unsupported('bare raise outside handler')
            raise RaiseSig(cur)
        v = self.eval(node.exc, fr)
        if isinstance(v, ClassRef):
            v = ExcVal(v, (), node.lineno)
        if not isinstance(v, ExcVal):
            raise Unsupported('raise of %r' % (v,))
        v.line = node.lineno
        raise RaiseSig(v)

    def s_With(self, node, fr):
        # context managers of opaque objects (locks ...): enter / exit are
        # logged effects, the body runs, exceptions are not suppressed
        for item in node.items:
            cm = self.eval(item.context_expr, fr)
            if not isinstance(cm, SVal):
                raise Unsupported('with %r' % (cm,))
            self.calls.append(('with.enter', (cm,), None))
            if item.optional_vars is not None:
                self.assign_target(item.optional_vars, cm, fr)
        self.exec_block(node.body, fr)

    def s_Try(self, node, fr):
        if node.finalbody:
            raise Unsupported('try/finally')
        try:
            self.exec_block(node.body, fr)
        except RaiseSig as r:
            for h in node.handlers:
                if h.type is None or self.exc_matches(
                        r.exc, self.eval(h.type, fr)):
                    if h.name:
                        fr.assign(h.name, r.exc)
                    fr.vars['__active_exception__'] = r.exc
                    self.exec_block(h.body, fr)
                    return
            raise
        else:
            self.exec_block(node.orelse, fr)

    def exc_matches(self, exc, cls):
        classes = cls if isinstance(cls, tuple) else (cls,)
        mro = exc.cls.mro_names(self.world)
        for c in classes:
            if not isinstance(c, ClassRef):
                raise Unsupported('except %r' % (c,))
            if c.name in mro:
                return True
        return False

    def s_FunctionDef(self, node, fr):
        f = FuncRef(fr.module, node, node.name, closure=fr)
        # the declarations stacked on a nested def: (last name of the
        # decorator, its evaluated arguments), outermost first - what the
        # function is registered AS is part of what is registered
        decos = []
        for d in node.decorator_list:
            fn = d.func if isinstance(d, ast.Call) else d
            args = ()
            if isinstance(d, ast.Call):
                try:
                    args = tuple(self.eval(a, fr) for a in d.args)
                except Unsupported:
                    args = None
            decos.append((ast.unparse(fn).split('.')[-1], args))
        f.decos = tuple(decos)
        fr.assign(node.name, f)

    def s_ClassDef(self, node, fr):
        fr.assign(node.name, self.world.local_class(node, fr, self))

    def s_Break(self, node, fr):
        raise BreakSig()

    def s_Continue(self, node, fr):
        raise ContinueSig()

    def s_While(self, node, fr):
        self.world.exec_loop(self, node, fr)

    def s_For(self, node, fr):
        self.world.exec_loop(self, node, fr)


def _is_generator(fnode):
    for n in ast.walk(fnode):
        if isinstance(n, (ast.Yield, ast.YieldFrom)):
            # ignore yields of nested defs
            return _owner_of(fnode, n) is fnode
    return False


def _owner_of(root, target):
    """Innermost function node under root that contains target."""
    owner = root
    stack = [(root, root)]
    while stack:
        node, own = stack.pop()
        for ch in ast.iter_child_nodes(node):
            o = own
            if isinstance(ch, (ast.FunctionDef, ast.Lambda)) and ch is not root:
                o = ch
            if ch is target:
                return o if not isinstance(ch, (ast.FunctionDef,
                                                ast.Lambda)) else own
            stack.append((ch, o))
    return owner


def _load(target):
    t = ast.parse(ast.unparse(target), mode='eval').body
    return t
