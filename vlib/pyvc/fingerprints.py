"""Fingerprints of the local variables of a function: how each name is first
bound. Recorded for the tree the contracts were written against
(contracts/_fingerprints.json, tools/gen_fingerprints.py); when an invariant
mentions a local that no longer exists, the local of the current function
that is FIRST BOUND THE SAME WAY (and did not exist before) is taken to be
the renamed one - provided there is exactly one."""
import ast
import json
import os


def of_function(fnode):
    """-> {name: fingerprint}; nested functions / classes are not entered."""
    out = {}

    def targets(t, fp):
        if isinstance(t, ast.Name):
            out.setdefault(t.id, fp)
        elif isinstance(t, (ast.Tuple, ast.List)):
            for i, e in enumerate(t.elts):
                targets(e, fp + '#%d' % i)

    def walk(body):
        for n in body:
            if isinstance(n, (ast.FunctionDef, ast.ClassDef,
                              ast.AsyncFunctionDef)):
                continue
            if isinstance(n, ast.Assign):
                for t in n.targets:
                    targets(t, 'assign:' + ast.unparse(n.value))
            elif isinstance(n, ast.AnnAssign) and n.value is not None:
                targets(n.target, 'assign:' + ast.unparse(n.value))
            elif isinstance(n, ast.AugAssign):
                pass
            elif isinstance(n, (ast.For, ast.AsyncFor)):
                targets(n.target, 'for:' + ast.unparse(n.iter))
            elif isinstance(n, ast.With):
                for item in n.items:
                    if item.optional_vars is not None:
                        targets(item.optional_vars,
                                'with:' + ast.unparse(item.context_expr))
            for fld in ('body', 'orelse', 'finalbody', 'handlers'):
                sub = getattr(n, fld, None)
                if isinstance(sub, list):
                    walk([x for x in sub if isinstance(x, ast.AST)])
    walk(fnode.body)
    return out


_TABLE = [None]


def baseline():
    if _TABLE[0] is None:
        p = os.path.join(os.path.dirname(os.path.dirname(os.path.dirname(
            os.path.abspath(__file__)))), 'contracts', '_fingerprints.json')
        try:
            _TABLE[0] = json.load(open(p))
        except (IOError, OSError, ValueError):
            _TABLE[0] = {}
    return _TABLE[0]


def renamed_locals(target, fnode, wanted):
    """wanted: names an invariant mentions. -> {old name: new name} for those
    that were locals of the baseline function, are gone now, and have exactly
    one new local bound the same way (renamings inside the binding
    expressions are followed to a fixpoint)."""
    base = baseline().get(target) or {}
    now = of_function(fnode)
    params = {a.arg for a in fnode.args.posonlyargs + fnode.args.args +
              fnode.args.kwonlyargs}
    alias = {}
    for _ in range(4):
        changed = False
        for old in wanted:
            if old in alias or old in now or old in params or \
                    old not in base:
                continue
            fp = base[old]
            # the binding expression itself may mention renamed locals
            for o, n in alias.items():
                fp = _rename(fp, o, n)
            cands = [n for n, f in now.items()
                     if f == fp and n not in base]
            if len(cands) == 1:
                alias[old] = cands[0]
                changed = True
        if not changed:
            break
    return alias


def _rename(fp, old, new):
    kind, _, text = fp.partition(':')
    suffix = ''
    if '#' in text and text.rsplit('#', 1)[1].isdigit():
        text, _, k = text.rpartition('#')
        suffix = '#' + k
    try:
        tree = ast.parse(text, mode='eval')
    except SyntaxError:
        return fp
    for n in ast.walk(tree):
        if isinstance(n, ast.Name) and n.id == old:
            n.id = new
    return kind + ':' + ast.unparse(tree) + suffix
