"""Contracts and the per-function verification driver."""
import ast
import itertools
import time
import traceback
import z3

from . import sym as S
from .sym import (SInt, SBool, SStr, SReal, SVal, SSeq, SMap, SFunc, Opaque,
                  TInt, TBool, TStr, TReal, TVal, TSeq, TOpt, TMap, TFunc,
                  Unsupported, TypeErrorSym)
from .interp import (Interp, Frame, FuncRef, MList, ReturnSig, RaiseSig,
                     CutPath, BreakSig, ContinueSig, ExcVal, _is_generator)
from .path import Path, Budget, Obligation
from .world import World, find_function, SMapCell


class Contract:
    """Sidecar contract of one repository function (see /verif/contracts)."""

    def __init__(self, target, params=None, requires=(), ensures=(),
                 raises=None, loops=(), result=None, serves=(), yields=None,
                 env=None, note='', name=None, self_obj=None, cases=None,
                 budget=None, skip_self=False, native=None,
                 native_scope=None, always_raises=False, track_pulls=None,
                 track_slices=False, track_calls=False, gen_form=None, invoke_result=False,
                 after=None):
        self.target = target
        self.params = params or {}
        self.requires = list(requires)
        self.ensures = list(ensures)
        self.raises = raises            # None: no exception may escape
        self.may_raise = bool(raises)
        self.loops = list(loops)
        self.result = result
        self.serves = tuple(serves)
        self.yields = yields or TVal
        self.env = env or {}
        self.note = note
        self.name = name or target.split('.', 2)[-1] if target else name
        self.short = name or '.'.join(target.split('.')[-2:])
        self.module = None
        self.qualname = None
        self.fn_node = None
        self.self_obj = self_obj
        self.cases = cases
        self.budget = budget
        self.native = native
        if native_scope is not None:
            self.native_scope = native_scope
        self.always_raises = always_raises
        self.track_pulls = track_pulls
        self.track_slices = track_slices
        # alternative clauses used when the target turns out to be written
        # as a generator function (ensures over out / pulls instead of over
        # the returned lazy object): dict(ensures=, track_pulls=, loops=)
        self.gen_form = gen_form
        self.track_calls = track_calls
        # the function returns a callable (a delegate / thunk): call it with
        # no arguments right after the body and state the ensures over the
        # whole call log and the delegate's result
        self.invoke_result = invoke_result
        # scenario driver: Python source of `def after(result, ...)` that is
        # executed (symbolically, like repository code) on the value the
        # target returned - e.g. a sequence of method calls on the object a
        # factory function built; its return value becomes `result`
        self.after = after

    def param_order(self, fn):
        a = fn.node.args
        names = [p.arg for p in a.posonlyargs + a.args + a.kwonlyargs]
        if a.vararg:
            names.append(a.vararg.arg)
        if a.kwarg:
            names.append(a.kwarg.arg)
        return names

    def resolve(self, world):
        parts = self.target.split('.')
        for i in range(len(parts) - 1, 0, -1):
            mod = '.'.join(parts[:i])
            if world.is_repo_module(mod):
                self.module = world.module(mod)
                self.qualname = '.'.join(parts[i:])
                self.fn_node = find_function(self.module, self.qualname)
                if self.fn_node is None and self.qualname.count('.') == 1:
                    # the class no longer defines the method itself: what
                    # runs is the one it inherits - the contract is about
                    # `Class.method` whoever implements it
                    import ast as _ast
                    cname, mname = self.qualname.split('.')
                    try:
                        cls = world.class_by_name(cname, self.module)
                        owner, node = world.find_method(cls, mname)
                    except Exception:   # noqa
                        owner, node = None, None
                    if isinstance(node, _ast.FunctionDef) and \
                            owner is not None and owner.module is not None \
                            and not isinstance(owner.module, str):
                        self.module = owner.module
                        self.qualname = owner.name + '.' + mname
                        self.fn_node = node
                        self.inherited_from = owner.name
                if self.fn_node is None:
                    raise LookupError('function %s not found in %s' % (
                        self.qualname, mod))
                if self.gen_form and _is_generator(self.fn_node) and \
                        not getattr(self, '_gen_applied', False):
                    self._gen_applied = True
                    self.ensures = list(self.gen_form.get('ensures', ()))
                    self.loops = list(self.gen_form.get('loops', ()))
                    self.track_pulls = self.gen_form.get('track_pulls')
                    self.track_calls = self.gen_form.get('track_calls', False)
                    self.short += '/generator-form'
                return self
        raise LookupError('module of %s not found' % self.target)


class FunctionReport:
    def __init__(self, contract):
        self.contract = contract
        self.obligations = []
        self.undecided = []         # messages
        self.paths = 0
        self.seconds = 0.0
        self.trusted = []
        self.inlined = []
        self.error = None

    @property
    def ok(self):
        return not self.undecided and not self.error and all(
            o.status == 'proved' for o in self.obligations)

    def failed(self):
        return [o for o in self.obligations if o.status == 'failed']

    def unknown(self):
        return [o for o in self.obligations if o.status == 'unknown']

    def to_json(self):
        c = self.contract
        return dict(
            function=c.target, file=c.module.path if c.module else None,
            sha256=c.module.sha256 if c.module else None,
            lines=[c.fn_node.lineno, c.fn_node.end_lineno]
            if c.fn_node else None,
            paths=self.paths, seconds=round(self.seconds, 3),
            obligations=[o.to_json() for o in self.obligations],
            undecided=self.undecided, error=self.error,
            trusted=sorted(self.trusted), inlined=sorted(self.inlined))


def _variants(params):
    """Split Opt[T] parameters into the None case and the T case."""
    names = list(params)
    choices = []
    for n in names:
        t = params[n]
        if isinstance(t, TOpt):
            choices.append([('none', None), ('some', t.inner)])
        else:
            choices.append([('', t)])
    for combo in itertools.product(*choices):
        tag = ','.join('%s=%s' % (n, c[0]) for n, c in zip(names, combo)
                       if c[0])
        yield tag, {n: c[1] for n, c in zip(names, combo)}


def make_param(name, t, path):
    """Instantiate a parameter description into a symbolic value."""
    if isinstance(t, S.T):
        facts = []
        v = t.fresh(name, facts)
        for f in facts:
            path.assume(f)
        if isinstance(v, SSeq):
            path.symbols[name] = {'len': v.length, 'at': v.at}
        elif isinstance(v, SMap):
            v = SMapCell(v) if getattr(t, 'mutable', False) else v
        elif isinstance(v, S.SIter):
            path.symbols[name] = {'len': v.seq.length, 'at': v.seq.at}
        elif isinstance(v, SFunc):
            pass
        elif hasattr(v, 't'):
            path.symbols[name] = v.t
        return v
    if callable(t) and getattr(t, 'is_factory', False):
        return t(name, path)
    return t        # concrete value


def verify_function(world, contract, budget=None, tier='quick'):
    budget = contract.budget or budget or Budget()
    rep = FunctionReport(contract)
    t0 = time.time()
    try:
        contract.resolve(world)
    except LookupError as e:
        rep.undecided.append('anchor: %s' % e)
        rep.seconds = time.time() - t0
        return rep
    world.current_contract = contract
    from contracts import _util
    _util.obj.world = world
    world.trusted_used = set()
    world.inlined = set()
    from .path import OutOfTime
    import copy as _copy
    budget = _copy.copy(budget)
    budget.deadline = time.time() + budget.wall_s
    try:
        for tag, params in _variants(contract.params):
            _explore(world, contract, params, tag, budget, rep)
    except OutOfTime:
        rep.undecided.append('time budget (%d s) exhausted after %d paths'
                             % (budget.wall_s, rep.paths))
    except Exception as e:      # checker crash: reported, never a violation
        rep.error = '%s: %s\n%s' % (type(e).__name__, str(e)[:300],
                                    traceback.format_exc(limit=8)[-1500:])
    rep.trusted = sorted(world.trusted_used)
    rep.inlined = sorted(world.inlined)
    rep.seconds = time.time() - t0
    # merge duplicate obligations (same name on different paths)
    merged = {}
    for o in rep.obligations:
        k = o.name
        if k not in merged:
            merged[k] = o
            o.count = 1
        else:
            m = merged[k]
            m.count += 1
            m.seconds += o.seconds
            rank = {'failed': 2, 'unknown': 1, 'proved': 0}
            if rank[o.status] > rank[m.status]:
                o.count, o.seconds = m.count, m.seconds
                merged[k] = o
    rep.obligations = list(merged.values())
    world.current_contract = None
    return rep


def _explore(world, c, params, tag, budget, rep):
    work = [[]]
    first = True
    axioms = S.box_axioms() + list(world.extra_axioms(c)) \
        if hasattr(world, 'extra_axioms') else S.box_axioms()
    while work:
        prefix = work.pop()
        rep.paths += 1
        if budget.deadline is not None and time.time() > budget.deadline:
            from .path import OutOfTime
            raise OutOfTime()
        if rep.paths > budget.max_paths:
            rep.undecided.append('path budget (%d) exhausted' %
                                 budget.max_paths)
            return
        path = Path(prefix, budget, axioms)
        it = Interp(world, path)
        try:
            _run_path(world, c, params, tag, it, path, rep, first)
        except Unsupported as e:
            msg = ('unsupported: %s' % e)[:400]
            if msg not in rep.undecided:
                rep.undecided.append(msg)
        except TypeErrorSym as e:
            msg = ('encoder typing: %s' % e)[:400]
            if msg not in rep.undecided:
                rep.undecided.append(msg)
        first = False
        rep.obligations.extend(path.obligations)
        work.extend(path.alts)


def _run_path(world, c, params, tag, it, path, rep, first):
    fnode = c.fn_node
    fn = FuncRef(c.module, fnode, c.qualname)
    fr = Frame(module=c.module)
    fr.world_state = world.module_state
    if '.' in c.qualname and '<locals>' not in c.qualname:
        cname = c.qualname.split('.')[-2]
        ent = c.module.top.get(cname)
        if ent and isinstance(ent[-1], ast.ClassDef):
            fr.method_owner = world.class_ref(c.module, ent[-1])
            fr.method_self = None
    world.module_state.clear()
    # bind parameters
    env = {}
    for name, t in params.items():
        env[name] = make_param(name, t, path)
    for name, v in c.env.items():
        val = v(name, path) if getattr(v, 'is_factory', False) else v
        if not name.startswith('global:'):
            it.ghost_vars['old_' + name] = val
        if name.startswith('global:'):
            world.module_state[(c.module.name, name[7:])] = val
            it.ghost_vars['G_' + name[7:]] = val
        else:
            fr.vars[name] = val
    a = fnode.args
    formal = [p.arg for p in a.posonlyargs + a.args] + \
        [p.arg for p in a.kwonlyargs]
    if a.vararg:
        formal.append(a.vararg.arg)
    if a.kwarg:
        formal.append(a.kwarg.arg)
    nd = len(a.args) - len(a.defaults)
    for i, p in enumerate(formal):
        if p in env:
            fr.vars[p] = env[p]
        elif i < len(a.args) and i >= nd:
            fr.vars[p] = it.eval(a.defaults[i - nd], Frame(module=c.module))
        elif p in [k.arg for k in a.kwonlyargs]:
            j = [k.arg for k in a.kwonlyargs].index(p)
            if a.kw_defaults[j] is None:
                raise Unsupported('no value for parameter %s' % p)
            fr.vars[p] = it.eval(a.kw_defaults[j], Frame(module=c.module))
        elif a.vararg and p == a.vararg.arg:
            fr.vars[p] = ()
        elif a.kwarg and p == a.kwarg.arg:
            fr.vars[p] = {}
        else:
            # a parameter the contract does not mention: any value at all
            fr.vars[p] = make_param(p, TVal, path)
    it.ghost_vars.update(path.ghost)
    if getattr(fr, 'method_owner', None) is not None and 'self' in env:
        fr.method_self = env['self']
    for name in env:
        if name not in formal:
            it.ghost_vars[name] = env[name]     # ghost parameter
        # (a plain dict / list argument is snapshot: the body may consume it)
        it.ghost_vars['old_' + name] = (
            dict(env[name]) if type(env[name]) is dict else
            list(env[name]) if type(env[name]) is list else env[name])
    if c.track_pulls:
        # ghost: how many source elements had been pulled at each yield
        src = env.get(c.track_pulls) or fr.vars.get(c.track_pulls)
        pulls = MList(SSeq(z3.IntVal(0), z3.K(z3.IntSort(), z3.IntVal(0)),
                           TInt, kind='list'))
        it.ghost_vars['pulls'] = pulls
        it.ghost_vars['SRC'] = src
        it.yield_hooks.append(lambda it_, v, pulls=pulls, src=src: setattr(
            pulls, 'seq', S.seq_append(pulls.seq, SInt(src.pos))))
    if getattr(c, 'track_calls', False):
        # ghost: how long the call log was at each yield
        ycalls = MList(SSeq(z3.IntVal(0), z3.K(z3.IntSort(), z3.IntVal(0)),
                            TInt, kind='list'))
        it.ghost_vars['ycalls'] = ycalls
        it.yield_hooks.append(lambda it_, v, ycalls=ycalls: setattr(
            ycalls, 'seq', S.seq_append(ycalls.seq,
                                        SInt(z3.IntVal(len(it_.calls))))))
    if c.track_slices:
        # ghost: offset and length of every yielded sequence (slices of a
        # list): yoff[k], ylen[k]; -1 for a yielded non-sequence
        def mk():
            return MList(SSeq(z3.IntVal(0), z3.K(z3.IntSort(), z3.IntVal(0)),
                              TInt, kind='list'))
        yoff, ylen = mk(), mk()
        it.ghost_vars['yoff'], it.ghost_vars['ylen'] = yoff, ylen

        def hook(it_, v, yoff=yoff, ylen=ylen):
            q = v.seq if isinstance(v, MList) else v
            if isinstance(q, SSeq):
                o, n = SInt(z3.simplify(q.off)), SInt(z3.simplify(q.length))
            elif isinstance(q, (tuple, list)):
                o, n = SInt(z3.IntVal(-1)), SInt(z3.IntVal(len(q)))
            else:
                o, n = SInt(z3.IntVal(-1)), SInt(z3.IntVal(-1))
            yoff.seq = S.seq_append(yoff.seq, o)
            ylen.seq = S.seq_append(ylen.seq, n)
        it.yield_hooks.append(hook)
    old = Frame(module=c.module)
    old.vars.update(fr.vars)
    for nm, v in list(fr.vars.items()) + [
            (k[1], v) for k, v in world.module_state.items()
            if k[0] == c.module.name]:
        if isinstance(v, SMapCell):
            old.vars['OLD_' + nm] = v.m
        elif isinstance(v, MList):
            old.vars['OLD_' + nm] = v.seq
        elif type(v).__name__ == 'ObjVal':
            for fld, fv in v.fields.items():
                if isinstance(fv, SMapCell):
                    old.vars['OLD_' + fld] = fv.m
                elif isinstance(fv, MList):
                    old.vars['OLD_' + fld] = fv.seq
                elif hasattr(fv, 'snapshot'):
                    old.vars['OLD_' + fld] = fv.snapshot()
                elif isinstance(fv, S.SSet):
                    old.vars['OLD_' + fld] = S.SSet(fv.arr, fv.elem)
                else:
                    old.vars.setdefault('OLD_' + fld, fv)
    old.vars.update(it.ghost_vars)
    old.vars.update(world.spec_helpers(it))
    for r in c.requires:
        path.assume(S.as_bool_term(it.truth(world.spec_eval(it, r, old))))
    it.drain_axioms()
    if first:
        ok = path.feasible()
        ob = Obligation('%s:vacuity%s' % (c.short, ':' + tag if tag else ''),
                        'vacuity', fnode.lineno,
                        'proved' if ok else 'failed', 0.0, 'z3',
                        detail=None if ok else 'requires are contradictory')
        path.obligations.append(ob)
        if not ok:
            return
    gen = _is_generator(fnode)
    if gen:
        it.out = MList(SSeq(z3.IntVal(0), z3.K(
            z3.IntSort(), z3.Const(S.fresh_name('d'), c.yields.sort())),
            c.yields, kind='iter'))
    it.fn_stack.append(fnode)
    # exception classes this function catches somewhere (see Interp.call)
    handled = set()
    for n in ast.walk(fnode):
        if isinstance(n, ast.ExceptHandler) and n.type is not None:
            for t in (n.type.elts if isinstance(n.type, ast.Tuple)
                      else [n.type]):
                nm = ast.unparse(t).split('.')[-1]
                if nm in ('IndexError', 'KeyError', 'ValueError', 'TypeError',
                          'AttributeError', 'LookupError', 'StopIteration',
                          'ArithmeticError', 'ZeroDivisionError', 'Exception',
                          'RuntimeError', 'OverflowError'):
                    handled.add(nm)
    it.callback_exc = handled
    outcome, value = 'return', None
    try:
        try:
            it.exec_block(fnode.body, fr)
        except ReturnSig as r:
            value = r.value
            if c.invoke_result:
                post_made = value
                value = it.call(value, [], {}, fnode)
                it.ghost_vars['DELEGATE'] = post_made
            if c.after:
                dnode = ast.parse(c.after).body[0]
                dfr = Frame(module=c.module)
                dfr.vars.update(it.ghost_vars)
                drv = FuncRef(c.module, dnode, 'after', closure=dfr)
                it.ghost_vars['MADE'] = value
                value = it.call(drv, [value], {}, fnode)
    except RaiseSig as r:
        outcome, value = 'raise', r.exc
    except CutPath:
        return
    except (BreakSig, ContinueSig):
        raise Unsupported('break/continue outside loop')
    finally:
        it.fn_stack.pop()
    post = Frame(parent=old)
    post.vars['result'] = value
    if gen:
        post.vars['out'] = it.out.seq
    post.vars['calls'] = tuple(it.calls)
    for k, v in fr.vars.items():
        post.vars.setdefault('LOCAL_' + k, v)
    for (mod, nm), v in world.module_state.items():
        if mod == c.module.name:
            post.vars['NEW_' + nm] = v
    post.vars.update(it.ghost_vars)
    sfx = ':' + tag if tag else ''
    if outcome == 'return' and getattr(c, 'cover_mode', False):
        ok = path.feasible()
        path.obligations.append(Obligation(
            '%s:cover-path' % c.short, 'cover', fnode.lineno,
            'failed' if ok else 'proved', 0.0, 'z3'))
        return
    if outcome == 'return':
        for j, e in enumerate(c.ensures):
            try:
                g = world.spec_eval(it, e, post)
            except RaiseSig as rs:
                # the postcondition is not even well-defined in this state
                ob = path.prove(False, '%s:post:%d%s' % (c.short, j + 1, sfx),
                                'post', fnode.lineno, assume_after=False)
                ob.text = e
                ob.detail = 'postcondition raised %r in this state' % (
                    rs.exc,)
                continue
            it.drain_axioms()
            ob = path.prove(it.truth(g), '%s:post:%d%s' % (c.short, j + 1,
                                                           sfx),
                            'post', fnode.lineno, assume_after=False)
            ob.text = e
    elif getattr(value, 'from_callback', False):
        # an operand's own exception reaching the caller untouched is what
        # every function may do (no obligation)
        return
    else:
        exc = value
        allowed = None
        for nm in exc.cls.mro_names(world):
            if c.raises and nm in c.raises:
                allowed = c.raises[nm]
                break
        name = '%s:raises:%s:%s%s' % (c.short, exc.cls.name, exc.line, sfx)
        if allowed is None:
            ob = path.prove(False, name, 'raises', exc.line,
                            assume_after=False)
            ob.text = 'no %s may escape' % exc.cls.name
            ob.detail = 'unexpected %s raised at line %s' % (exc.cls.name,
                                                             exc.line)
        else:
            post.vars['raised'] = exc
            g = world.spec_eval(it, allowed, post) \
                if isinstance(allowed, str) else allowed
            ob = path.prove(it.truth(g), name, 'raises', exc.line,
                            assume_after=False)
            ob.text = '%s only if %s' % (exc.cls.name, allowed)
