"""Wrap a sidecar Contract into a check Unit (prove, cover, replay, bound)."""
import copy
import time

from .. import core
from . import sym as S
from .sym import (TInt, TBool, TStr, TReal, TVal, TSeq, TOpt, TMap, TFunc)
from .verify import Contract, verify_function
from .world import World
from .path import Budget
from .interp import _is_generator


def _desc(t):
    if t is TInt:
        return dict(kind='int', big=BIG[0])
    if t is TBool:
        return dict(kind='bool')
    if t is TStr:
        return dict(kind='str')
    if t is TVal:
        return dict(kind='val')
    if isinstance(t, TSeq):
        d = _desc(t.elem)
        if d is None:
            return None
        return dict(kind='seq', elem=d, **({'as': t.native_as} if getattr(
            t, 'native_as', None) else {}))
    if isinstance(t, S.TSet):
        d = _desc(t.elem)
        return None if d is None else dict(kind='set', elem=d)
    if isinstance(t, S.TMap):
        dk, dv = _desc(t.key), _desc(t.val)
        if dk is None or dv is None:
            return None
        return dict(kind='map', key=dk, val=dv,
                    mutable=bool(getattr(t, 'mutable', False)))
    if type(t).__name__ == 'tuple_of':
        d = _desc(t.t)
        return None if d is None else dict(kind='tupleof', elem=d, n=t.n)
    if isinstance(t, tuple) and all(_desc(x) is not None for x in t):
        return dict(kind='tuple', items=[_desc(x) for x in t])
    if isinstance(t, S.TIter):
        d = _desc(t.elem)
        return None if d is None else dict(kind='seq', elem=d, **{'as':
                                                                   'iter'})
    if isinstance(t, TOpt):
        d = _desc(t.inner)
        return None if d is None else dict(kind='opt', inner=d)
    if isinstance(t, TFunc):
        return dict(kind='func')
    if isinstance(t, (int, str, bool, type(None))):
        return dict(kind='const', value=t)
    return None


BIG = [False]


def native_params(c):
    if getattr(c, 'native', None) is False:
        return None
    BIG[0] = bool(getattr(c, 'native_bigints', False))
    texts = ' '.join(list(c.ensures) + list(c.requires) + [
        v for v in (c.raises or {}).values() if isinstance(v, str)])
    # ghost call logs, solver-level functions and symbolic-only helpers have
    # no native twin
    import re as _re
    for tok in (r'\bcalls\b', 'LOCAL_', r'ufn\(', r'sizeof\(', 'yoff', 'ylen',
                'MADE', 'NEW_', 'G__', 'DELEGATE'):
        if _re.search(tok, texts) and getattr(c, 'native', None) is None:
            return None
    out = {}
    for n, t in c.params.items():
        d = (getattr(c, 'native', None) or {}).get(n) or _desc(t)
        if d is None:
            return None
        out[n] = d
    return out


def contract_unit(c, tier='quick', probe=False, world_setup=None):
    """Unit that proves contract c on the real source."""
    def run(ctx):
        world = World(ctx.repo)
        if world_setup:
            world_setup(world)
        budget = Budget(prove_ms=20000 if ctx.tier == 'quick' else 120000,
                        max_paths=400 if ctx.tier == 'quick' else 2000)
        if ctx.tier != 'quick':
            budget.wall_s = 3000     # thorough: the largest shapes need it
        rep = verify_function(world, c, budget)
        out = []
        fn = c.target
        for o in rep.obligations:
            out.append(core.ob(o.name, o.status, o.kind, o.backend, o.seconds,
                               detail=o.detail, model=o.model, function=fn,
                               text=getattr(o, 'text', None), line=o.line,
                               probe=probe))
        for msg in rep.undecided:
            out.append(core.ob('%s:undecided' % c.short, 'unknown',
                               'encoding', detail=msg, function=fn,
                               probe=probe))
        if rep.error:
            out.append(core.ob('%s:checker' % c.short, 'error', 'encoding',
                               detail=rep.error, function=fn))
        # refutation mode: an inductive obligation that failed or is unknown
        # says nothing yet about the property; unroll the loops for small
        # concrete lengths (exact execution, no invariants) and look for an
        # input that violates the top-level contract itself
        shaky = [o for o in out if o['status'] in ('failed', 'unknown')
                 and o['kind'] != 'vacuity']
        definite = [o for o in out if o['status'] == 'failed'
                    and o['kind'] in ('post', 'raises')]
        # (also when the symbolic run left the encoding because a length
        # was symbolic: the unrolled runs have concrete lengths)
        no_inv = any(o['status'] == 'unknown' and o['kind'] == 'encoding'
                     for o in out)
        if shaky and (c.loops or no_inv) and not probe and not definite:
            rbudget = Budget(branch_ms=1000, prove_ms=3000, max_paths=80,
                             wall_s=40)
            for k in (0, 1, 2, 3):
                c3 = copy.copy(c)
                c3.loops = []
                S.FIXED_SEQ_LEN[0] = k
                try:
                    rep3 = verify_function(_mk(ctx, world_setup), c3,
                                           rbudget)
                finally:
                    S.FIXED_SEQ_LEN[0] = None
                # only DEFINITE counterexamples count: a model of a finite
                # instantiation of recursive axioms (`candidate`) refutes
                # nothing
                bad = [o for o in rep3.obligations if o.status == 'failed'
                       and o.kind in ('post', 'raises')
                       and 'ground-inst' not in (o.backend or '')]
                for o in bad:
                    out.append(core.ob(
                        '%s:refuted@len=%d' % (o.name, k), 'failed', o.kind,
                        o.backend, o.seconds, model=o.model, function=fn,
                        text=getattr(o, 'text', None),
                        detail='loops unrolled for sequences of length %d: '
                               'the top-level contract itself is violated'
                               % k, line=o.line))
                if bad:
                    break
        # cover: the normal-return postcondition point must be reachable
        if not probe and not getattr(c, 'always_raises', False) \
                and not rep.error and not rep.undecided:
            c2 = copy.copy(c)
            c2.cover_mode = True
            rep2 = verify_function(_mk(ctx, world_setup), c2, budget)
            reach = any(o.kind == 'cover' and o.status == 'failed'
                        for o in rep2.obligations)
            out.append(core.ob('%s:cover' % c.short,
                               'proved' if reach else 'failed', 'vacuity',
                               'z3', 0.0, function=fn,
                               text='normal return is reachable under the '
                                    'requires (ensures False must fail)',
                               detail=None if reach else
                               'postcondition point unreachable: vacuous'))
        # replay of failed obligations, bounded cross-check
        np = native_params(c) if c.fn_node is not None else None
        failed = [o for o in out if o['status'] == 'failed'
                  and o.get('model') and o['kind'] in ('post', 'raises')]
        jobs = []
        is_gen = bool(c.fn_node is not None and _is_generator(c.fn_node))
        if np is not None:
            for i, o in enumerate(failed):
                args = {n: o['model'].get(n) for n in np
                        if n in (o['model'] or {})}
                if len(args) != len([n for n in np
                                     if np[n]['kind'] != 'const']) \
                        or any(v == '?' for v in args.values()):
                    continue
                for n in np:
                    if np[n]['kind'] == 'const':
                        args[n] = np[n]['value']
                jobs.append(dict(mode='replay', id='replay:%d' % i,
                                 target=c.target, params=np, args=args,
                                 requires=c.requires, ensures=c.ensures,
                                 raises=c.raises, is_gen=is_gen,
                                 track_pulls=c.track_pulls,
                                 seq_result=getattr(c, 'native_seq', False)))
            scope = getattr(c, 'native_scope', 2 if ctx.tier == 'quick'
                            else 3)
            if not probe:
                jobs.append(dict(mode='bounded', id='bounded',
                                 target=c.target, params=np,
                                 requires=c.requires, ensures=c.ensures,
                                 raises=c.raises, is_gen=is_gen, scope=scope,
                                 track_pulls=c.track_pulls,
                                 seq_result=getattr(c, 'native_seq', False),
                                 max_cases=4000 if ctx.tier == 'quick'
                                 else 60000))
        if jobs:
            res = core.native_jobs(jobs, ctx.repo)
            for r in res:
                if r.get('id', '').startswith('replay:'):
                    failed[int(r['id'].split(':')[1])]['replay'] = r
                elif r.get('id') == 'bounded':
                    st = {'ok': 'proved', 'failed': 'failed'}.get(
                        r.get('status'), 'error')
                    bo = core.ob(
                        '%s:bounded' % c.short, st, 'bounded', 'cpython',
                        0.0, function=fn, bounded=True,
                        text='all inputs of scope %d satisfying requires '
                             '(%s cases, %s checked)' % (
                                 scope, r.get('cases'), r.get('checked')),
                        detail=r.get('detail'), model=r.get('input'))
                    if st == 'failed':
                        bo['replay'] = dict(status='failed',
                                            input=r.get('input'),
                                            detail=r.get('detail'))
                    out.append(bo)
        # a failed deductive obligation whose replay does not confirm it and
        # whose bounded twin passes is suspicious: keep it failed (the model
        # may lie outside the enumerated scope) but say so.
        return dict(
            obligations=out,
            functions=[dict(function=fn, file=rep.to_json()['file'],
                            sha256=rep.to_json()['sha256'],
                            lines=rep.to_json()['lines'],
                            paths=rep.paths)],
            trusted=rep.trusted,
            assumptions=(['inlined callee (verified against its body, not a '
                          'contract): ' + x for x in rep.inlined]))

    def _mk(ctx, setup):
        w = World(ctx.repo)
        if setup:
            setup(w)
        return w
    return core.Unit('pyvc:' + c.short, run, backend='pyvc+z3')
