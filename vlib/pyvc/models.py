"""Trusted models of Python builtins and library functions (DESIGN.md s.3:
T-str, T-seq, T-map, T-lazy, T-conv).  Each model is an *assumed* contract;
every name that a verification actually used is listed in the evidence."""
import z3

from . import sym as S
from .sym import (SInt, SBool, SStr, SReal, SVal, SSeq, SMap, SFunc, Opaque,
                  TInt, TBool, TStr, TReal, TVal, TSeq, Unsupported)
from .interp import (Model, MList, BoundMethod, FuncRef, ClassRef, ExcVal,
                     ModuleRef)

# uninterpreted string functions (T-str): meaning is CPython's, not modelled
_upper = z3.Function('str_upper', z3.StringSort(), z3.StringSort())
_lower = z3.Function('str_lower', z3.StringSort(), z3.StringSort())
_strip = z3.Function('str_strip', z3.StringSort(), S.Val, z3.IntSort(),
                     z3.StringSort())
_py_str = z3.Function('py_str', S.Val, z3.StringSort())
_is_inst = {}


def isinst_fn(clsname):
    if clsname not in _is_inst:
        _is_inst[clsname] = z3.Function('is_' + clsname, S.Val, z3.BoolSort())
    return _is_inst[clsname]


UF = {}


def uf(name, *sorts):
    """Named uninterpreted function (spec-level abstraction); overloads of
    one name on different sorts are distinct symbols."""
    key = (name, tuple(str(x) for x in sorts))
    if key not in UF:
        first = not any(k[0] == name for k in UF)
        sym = name if first else '%s$%s' % (name, '_'.join(key[1][:-1]))
        UF[key] = z3.Function(sym, *sorts)
    return UF[key]


def _ival(v):
    return TInt.unwrap(v)


def _concrete_len(n):
    if isinstance(n, int):
        return n
    n = z3.simplify(n)
    if z3.is_int_value(n):
        return n.as_long()
    return None


_CUR = [None]       # the interpreter currently executing (for models that
                    # need to branch but are called without it)


def install(world):
    m = world.models

    def reg(name, fn, needs_interp=False):
        m[name] = Model(name, fn, needs_interp)

    # ------------------------------------------------------ builtins ----
    def b_len(it, node, x):
        if isinstance(x, MList):
            x = x.seq
        if isinstance(x, SSeq):
            return SInt(x.length)
        if isinstance(x, SStr):
            return SInt(z3.Length(x.t))
        if isinstance(x, (tuple, list, str, dict, set, frozenset)):
            return len(x)
        r = world.attr_model(x, '__len__', it)
        if r is not NotImplemented:
            return it.call(r, [], {}, node)
        if isinstance(x, SVal):
            world.trusted_used.add('len(opaque)')
            # a class object has no len()
            if not it.spec and it.branch(isinst_fn('type')(x.t)):
                it.raise_('TypeError', 'object of type type has no len()',
                          node=node)
            return SInt(uf('py_len', S.Val, z3.IntSort())(x.t))
        raise Unsupported('len of %r' % (x,))
    reg('len', b_len, True)

    def b_issubclass(it, node, a, b):
        if isinstance(a, SVal) and isinstance(b, SVal):
            world.trusted_used.add('issubclass(opaque, opaque) '
                                   'uninterpreted')
            # arg 1 must be a class; arg 2 a class or a tuple of classes
            if not it.spec:
                if not it.branch(isinst_fn('type')(a.t)):
                    it.raise_('TypeError', 'issubclass() arg 1 must be a '
                              'class', node=node)
                if not it.branch(z3.Or(isinst_fn('type')(b.t),
                                       isinst_fn('tuple')(b.t))):
                    it.raise_('TypeError', 'issubclass() arg 2 must be a '
                              'class or tuple of classes', node=node)
            return SBool(uf('py.issubclass', S.Val, S.Val, z3.BoolSort())(
                a.t, b.t))
        raise Unsupported('issubclass(%r, %r)' % (a, b))
    reg('issubclass', b_issubclass, True)

    def b_isinstance(it, node, x, cls):
        classes = cls if isinstance(cls, tuple) else (cls,)
        terms = []
        for c in classes:
            r = isinstance_one(world, it, x, c)
            if r is True:
                return True
            if r is False:
                continue
            terms.append(r)
        if not terms:
            return False
        return SBool(z3.Or(*terms))
    reg('isinstance', b_isinstance, True)

    def b_range(*a):
        a = list(a)
        if len(a) == 1:
            lo, hi, st = 0, a[0], 1
        elif len(a) == 2:
            lo, hi, st = a[0], a[1], 1
        else:
            lo, hi, st = a
        if not any(S.is_sym(x) for x in (lo, hi, st)):
            return tuple(range(lo, hi, st))
        if st != 1:
            raise Unsupported('range with symbolic bounds and step')
        l, h = _ival(lo), _ival(hi)
        n = z3.If(h - l < 0, z3.IntVal(0), h - l)
        k = z3.Int(S.fresh_name('k'))
        return SSeq(z3.simplify(n), z3.Lambda([k], l + k), TInt,
                    kind='range')
    reg('range', b_range)

    def b_enumerate(it, node, x, start=0):
        sp = world.iter_spec(x, it)
        from .world import IterSpec
        out = IterSpec(sp.length, lambda k: (
            (start + k) if isinstance(k, int) and not S.is_sym(start)
            else SInt(_ival(start) + (k if z3.is_expr(k) else z3.IntVal(k))),
            sp.item(k)), source=sp.source)
        if hasattr(sp, 'consume'):
            out.consume = sp.consume
        return out
    reg('enumerate', b_enumerate, True)

    _zip_uf = [None]

    def b_zip(it, node, *xs):
        if xs and all(isinstance(x, SVal) for x in xs):
            return _zip_uf[0](it, node, *xs)    # opaque iterables: T-lazy
        from .world import IterSpec
        inf = [x for x in xs if isinstance(x, InfSeq)]
        fin = [x for x in xs if not isinstance(x, InfSeq)]
        if inf and fin:
            # endless operands (itertools.count ...) do not bound the zip
            fsp = [world.iter_spec(x, it) for x in fin]
            n = fsp[0].length
            for sp in fsp[1:]:
                a, b = n, sp.length
                if isinstance(a, int) and isinstance(b, int):
                    n = min(a, b)
                else:
                    a = a if z3.is_expr(a) else z3.IntVal(a)
                    b = b if z3.is_expr(b) else z3.IntVal(b)
                    n = z3.If(a < b, a, b)
            finite = iter(fsp)

            def item(k, xs=xs, fsp=fsp):
                out, j = [], 0
                for x in xs:
                    if isinstance(x, InfSeq):
                        out.append(x.item(it, k, node))
                    else:
                        out.append(fsp[j].item(k))
                        j += 1
                return tuple(out)
            sp = IterSpec(n, item)
            srcs = [f.source for f in fsp if getattr(f, 'consume', None)]
            cons = [f.consume for f in fsp if getattr(f, 'consume', None)]
            if cons:
                sp.consume = lambda m: [c(m) for c in cons]
            return sp
        sps = [world.iter_spec(x, it) for x in xs]
        n = sps[0].length
        for sp in sps[1:]:
            a, b = n, sp.length
            if isinstance(a, int) and isinstance(b, int):
                n = min(a, b)
            else:
                a = a if z3.is_expr(a) else z3.IntVal(a)
                b = b if z3.is_expr(b) else z3.IntVal(b)
                n = z3.If(a < b, a, b)
        return IterSpec(n, lambda k: tuple(sp.item(k) for sp in sps))
    reg('zip', b_zip, True)

    def b_tuple(it, node, x=()):
        if isinstance(x, MList):
            x = x.seq
        if isinstance(x, S.SIter):
            rest = x.remaining()
            x.pos = x.seq.length
            return SSeq(rest.length, rest.arr, rest.elem, rest.off,
                        kind='tuple')
        if isinstance(x, SSeq):
            return SSeq(x.length, x.arr, x.elem, x.off, x.step, kind='tuple')
        if isinstance(x, (tuple, list)):
            return tuple(x)
        sp = world.iter_spec(x, it)
        n = _concrete_len(sp.length)
        if n is not None:
            return tuple(sp.item(k) for k in range(n))
        if isinstance(x, SStr):
            k = z3.Int(S.fresh_name('k'))
            return SSeq(z3.Length(x.t), z3.Lambda(
                [k], z3.SubString(x.t, k, 1)), TStr)
        if isinstance(x, SVal) and isinstance(sp.source, SSeq):
            q = sp.source
            return SSeq(q.length, q.arr, q.elem, q.off, kind='tuple')
        raise Unsupported('tuple() of %r' % (x,))
    reg('tuple', b_tuple, True)

    def b_list(it, node, x=()):
        if isinstance(x, MList):
            x = x.seq
        if isinstance(x, S.SIter):
            rest = x.remaining()
            x.pos = x.seq.length
            return MList(SSeq(rest.length, rest.arr, rest.elem, rest.off,
                              kind='list'))
        if isinstance(x, SSeq):
            return MList(SSeq(x.length, x.arr, x.elem, x.off, x.step,
                              kind='list'))
        if isinstance(x, (tuple, list)):
            return list(x)
        sp = world.iter_spec(x, it)
        n = _concrete_len(sp.length)
        if n is not None:
            return [sp.item(k) for k in range(n)]
        if isinstance(x, SVal) and isinstance(sp.source, SSeq):
            q = sp.source
            return MList(SSeq(q.length, q.arr, q.elem, q.off, kind='list'))
        raise Unsupported('list() of %r' % (x,))
    reg('list', b_list, True)

    def b_dict(it, node, x=None, **kw):
        if x is None:
            return dict(kw)
        if isinstance(x, (tuple, list)) and all(
                isinstance(p, tuple) and len(p) == 2 for p in x):
            if any(S.is_sym(k) for k, _ in x):
                if kw:
                    raise Unsupported('dict() with symbolic key and **kw')
                return b_dict(it, node, PairStream(list(x)))
            d = {}
            for k, v in x:
                d[k] = v
            d.update(kw)
            return d
        if isinstance(x, dict):
            d = dict(x)
            d.update(kw)
            return d
        from .world import SMapCell
        if isinstance(x, SMapCell):
            return SMapCell(x.m)
        if isinstance(x, SMap):
            return SMapCell(x)
        if isinstance(x, PairStream):
            empty = SMap(z3.K(S.Val, z3.BoolVal(False)),
                         z3.K(S.Val, S.NONE_VAL), TVal, TVal)
            return x.into(SMapCell(empty))
        raise Unsupported('dict() of %r' % (x,))
    reg('dict', b_dict, True)

    def b_set(it, node, x=()):
        if isinstance(x, (tuple, list, set, frozenset, str)):
            if not it.spec and not x and getattr(
                    world, 'symbolic_sets', False):
                return S.empty_set(TVal)
            if not it.spec and isinstance(x, (tuple, list)):
                for e in x:
                    if isinstance(e, SVal):
                        h = uf('py.hashable', S.Val, z3.BoolSort())(e.t)
                        if not it.branch(h):
                            it.raise_('TypeError', 'unhashable type',
                                      node=node)
            return set(x)
        if isinstance(x, SVal):
            # set(opaque iterable): membership through py.in
            v = z3.Const(S.fresh_name('e'), S.Val)
            return S.SSet(z3.Lambda([v], S.py_in(x.t, v)), TVal)
        raise Unsupported('set() of %r' % (x,))
    reg('set', b_set, True)

    def b_str(x=''):
        if isinstance(x, (SStr, str)):
            return x
        if isinstance(x, SInt):
            return SStr(z3.If(x.t >= 0, z3.IntToStr(x.t),
                              z3.Concat(z3.StringVal('-'),
                                        z3.IntToStr(-x.t))))
        if isinstance(x, SVal):
            world.trusted_used.add('str(opaque)')
            return SStr(_py_str(x.t))
        if not S.is_sym(x):
            return str(x)
        raise Unsupported('str() of %r' % (x,))
    reg('str', b_str)

    m_int_module = None
    digits_fn = uf('conv.all_digits', z3.StringSort(), z3.BoolSort())

    def b_int(x=0, base=None):
        if base is not None:
            return _b_int_base(x, base)
        if isinstance(x, (SStr, str)) and S.is_sym(x):
            # T-conv: int(s) succeeds iff s is decimal digits and has at
            # most 4300 of them (sys.get_int_max_str_digits)
            it = _CUR[0]
            ok = z3.And(digits_fn(x.t), z3.Length(x.t) >= 1,
                        z3.Length(x.t) <= 4300)
            world.trusted_used.add('T-conv: int(str) iff decimal digits, '
                                   '<= 4300 of them')
            if it is not None and not it.spec and not it.branch(ok):
                it.raise_('ValueError', 'invalid literal for int()')
            return SInt(z3.StrToInt(x.t))
        return _b_int(x)

    def _b_int_base(x, base):
        if not S.is_sym(x) and not S.is_sym(base):
            return int(x, base)
        if base != 16 or not isinstance(x, SStr):
            raise Unsupported('int(%r, %r)' % (x, base))
        # T-conv: int(s, 16) succeeds when s is hex digits (CPython accepts
        # a few more spellings - sign, 0x, blanks, underscores: undetermined
        # here), raises ValueError otherwise; 0 <= value < 16 ** len(s)
        it = _CUR[0]
        hexd = z3.Plus(z3.Union(z3.Range('0', '9'), z3.Range('a', 'f'),
                                z3.Range('A', 'F')))
        strict = z3.InRe(x.t, hexd)
        maybe = uf('conv.int16_ok', z3.StringSort(), z3.BoolSort())(x.t)
        world.trusted_used.add('T-conv: int(str, 16)')
        if it is not None and not it.spec and not it.branch(
                z3.Or(strict, maybe)):
            it.raise_('ValueError', 'invalid literal for int()')
        v = uf('conv.int16', z3.StringSort(), z3.IntSort())(x.t)
        if it is not None:
            n = z3.Length(x.t)
            # every character contributes at most one hex digit
            it.path.assume(z3.And(
                z3.Implies(strict, v >= 0),
                *[z3.Implies(n == k, z3.And(v < 16 ** k, v > -16 ** k))
                  for k in range(0, 17)]))
        return SInt(v)

    def b_chr(x):
        if not S.is_sym(x):
            return chr(x)
        it = _CUR[0]
        n = TInt.unwrap(x)
        if it is not None and not it.spec:
            if it.branch(z3.Or(n > 2 ** 31 - 1, n < -2 ** 31)):
                it.raise_('OverflowError', 'Python int too large to convert '
                          'to C int')
            if it.branch(z3.Or(n < 0, n > 0x10FFFF)):
                it.raise_('ValueError', 'chr() arg not in range(0x110000)')
        r = uf('py.chr', z3.IntSort(), z3.StringSort())(n)
        if it is not None:
            it.path.assume(z3.Length(r) == 1)
        return SStr(r)
    reg('chr', b_chr)

    def _b_int(x=0):
        if isinstance(x, (SInt, int)) and not isinstance(x, bool):
            return x
        if isinstance(x, SBool):
            return SInt(TInt.unwrap(x))
        if isinstance(x, SReal):
            # truncation toward zero of the (rounded) float value: the
            # rounding fl stays in place - int(fl(x)) is NOT trunc(x)
            t = x.t
            return SInt(z3.If(t >= 0, z3.ToInt(t), -z3.ToInt(-t)))
        raise Unsupported('int() of %r' % (x,))
    reg('int', b_int)

    def b_bool(it, node, x=False):
        t = it.truth(x)
        return t if isinstance(t, bool) else SBool(t)
    reg('bool', b_bool, True)

    def b_abs(x):
        if isinstance(x, SInt):
            return SInt(z3.If(x.t < 0, -x.t, x.t))
        if isinstance(x, SReal):
            return SReal(z3.If(x.t < 0, -x.t, x.t))
        return abs(x)
    reg('abs', b_abs)

    def b_minmax(is_min):
        def f(*xs, **kw):
            if kw:
                raise Unsupported('min/max with key')
            if len(xs) == 1:
                xs = tuple(xs[0])
            if not any(S.is_sym(x) for x in xs):
                return min(xs) if is_min else max(xs)
            cur = xs[0]
            for x in xs[1:]:
                a, b = TInt.unwrap(cur), TInt.unwrap(x)
                cur = SInt(z3.If((b < a) if is_min else (b > a), b, a))
            return cur
        return f
    reg('min', b_minmax(True))
    reg('max', b_minmax(False))

    def b_sum(x, start=0):
        items = list(x)
        cur = start
        for v in items:
            if S.is_sym(cur) or S.is_sym(v):
                cur = SInt(TInt.unwrap(cur) + TInt.unwrap(v))
            else:
                cur = cur + v
        return cur
    reg('sum', b_sum)

    def b_callable(x):
        if isinstance(x, (FuncRef, SFunc, Model, BoundMethod, ClassRef)):
            return True
        if isinstance(x, SVal):
            return SBool(isinst_fn('callable')(x.t))
        return False
    reg('callable', b_callable)

    def b_hasattr(x, name):
        if isinstance(x, SVal):
            return SBool(uf('has_' + name, S.Val, z3.BoolSort())(x.t))
        if isinstance(x, SFunc):
            return False if name == '__unwrapped__' else True
        raise Unsupported('hasattr on %r' % (x,))
    reg('hasattr', b_hasattr)

    def b_setattr(it, node, o, name, value):
        if isinstance(o, SVal):
            # writing a member of an opaque (host) object: a logged effect
            it.calls.append(('setattr', (o, name, value), None))
            return None
        if isinstance(name, str) and type(o).__name__ == 'ObjVal':
            o.fields[name] = value
            return None
        raise Unsupported('setattr(%r, %r)' % (o, name))
    reg('setattr', b_setattr, True)

    def b_getattr(it, node, o, name, *default):
        if isinstance(o, SVal):
            # reading a member of an opaque (host) object: a logged effect
            r = apply_uf('py.getattr', (o, name), 'Val')
            it.calls.append(('getattr', (o, name) + tuple(default), r))
            if default:
                return r
            return r
        if isinstance(name, str):
            return it.getattr(o, name, node)
        raise Unsupported('getattr(%r, %r)' % (o, name))
    reg('getattr', b_getattr, True)

    def b_iter(it, node, x):
        if isinstance(x, (dict, tuple, list, set, frozenset, str)):
            return iter(x)
        if isinstance(x, MList):
            x = x.seq
        if isinstance(x, SSeq) and x.kind != 'iter':
            return S.SIter(SSeq(x.length, x.arr, x.elem, x.off, x.step,
                                kind='iter'))
        if isinstance(x, SSeq):
            return S.SIter(x)
        if type(x).__name__ == 'ObjVal':
            # the iterator protocol of a repository class
            m = world.attr_model(x, '__iter__', it)
            if isinstance(m, FuncRef):
                return it.call(m, [], {}, node)
        return x
    reg('iter', b_iter, True)

    def b_next(it, node, x, *d):
        if isinstance(x, S.SIter):
            # pull one element, or StopIteration when exhausted
            if it.branch(x.pos < x.seq.length):
                v = x.seq.get(x.pos)
                x.pos = z3.simplify(x.pos + 1)
                return v
            if d:
                return d[0]
            it.raise_('StopIteration', node=node)
        if type(x).__name__ == 'ObjVal':
            m = world.attr_model(x, '__next__', it)
            if isinstance(m, FuncRef):
                if not d:
                    return it.call(m, [], {}, node)
                from .interp import RaiseSig
                try:
                    return it.call(m, [], {}, node)
                except RaiseSig as r:
                    if 'StopIteration' in r.exc.cls.mro_names(world):
                        return d[0]
                    raise
        if hasattr(x, '__next__') and not S.is_sym(x):
            try:
                return next(x)
            except StopIteration:
                if d:
                    return d[0]
                it.raise_('StopIteration', node=node)
        if isinstance(x, SVal):
            # advancing an opaque iterator: a logged effect; it yields an
            # (uninterpreted) element or is exhausted
            r = apply_uf('py.next', (x, len(it.calls)), 'Val')
            it.calls.append(('next', (x,), r))
            done = z3.Bool(S.fresh_name('exhausted'))
            if it.branch(done):
                if d:
                    return d[0]
                it.raise_('StopIteration', node=node)
            return r
        raise Unsupported('next()')
    reg('next', b_next, True)

    def insp_pred(nm):
        def f(x):
            if isinstance(x, SVal):
                return SBool(uf('inspect.' + nm, S.Val, z3.BoolSort())(x.t))
            raise Unsupported('inspect.%s(%r)' % (nm, x))
        return f
    # unicodedata: T-conv - SOME string / name / category, uninterpreted (a
    # normal form is in general a different sequence of code points)
    world.lib[('unicodedata',)] = True
    world.lib[('unicodedata', 'normalize')] = Model(
        'unicodedata.normalize', lambda form, s: SStr(apply_uf(
            'unicodedata.normalize', (form, s), 'Str').t))
    world.lib[('unicodedata', 'category')] = Model(
        'unicodedata.category', lambda c: SStr(apply_uf(
            'unicodedata.category', (c,), 'Str').t))
    # math.isfinite / isnan / isinf: floats are reals here (A2': no inf, no
    # NaN), so every number is finite - but the CALL is logged, so that a
    # type that starts to look at finiteness is seen to do so
    def m_isfinite(it, node, x):
        it.calls.append(('math.isfinite', (x,), True))
        return True
    world.lib[('math', 'isfinite')] = Model('math.isfinite', m_isfinite, True)
    # threading locks: opaque objects; `with lock:` runs its body
    for nm in ('Lock', 'RLock'):
        world.lib[('threading', nm)] = Model(
            'threading.' + nm, (lambda n: lambda: apply_uf(
                'threading.' + n, (len(_CUR[0].calls) if _CUR[0] else 0,),
                'Val'))(nm))
    world.lib[('threading',)] = True
    world.lib[('inspect',)] = True
    for nm in ('isgenerator', 'isgeneratorfunction', 'isfunction',
               'ismethod', 'isclass', 'iscoroutine'):
        world.lib[('inspect', nm)] = Model('inspect.' + nm, insp_pred(nm))

    def _quant_seq(x, forall):
        # all()/any() over a sequence of symbolic length: a quantifier
        k = z3.Int(S.fresh_name('k'))
        body = S.as_bool_term(S.truth(x.get(k)))
        rng = z3.And(k >= 0, k < x.length)
        return SBool(z3.ForAll([k], z3.Implies(rng, body)) if forall
                     else z3.Exists([k], z3.And(rng, body)))

    def b_all(it, node, x):
        if isinstance(x, MList):
            x = x.seq
        if isinstance(x, SSeq) and not z3.is_int_value(
                z3.simplify(x.length)):
            return _quant_seq(x, True)
        items = it.concrete_items(x) if not isinstance(x, (tuple, list)) \
            else x
        terms = [S.as_bool_term(it.truth(t)) for t in items]
        return SBool(z3.And(*terms)) if terms else True
    reg('all', b_all, True)

    def b_any(it, node, x):
        if isinstance(x, MList):
            x = x.seq
        if isinstance(x, SSeq) and not z3.is_int_value(
                z3.simplify(x.length)):
            return _quant_seq(x, False)
        items = it.concrete_items(x) if not isinstance(x, (tuple, list)) \
            else x
        terms = [S.as_bool_term(it.truth(t)) for t in items]
        return SBool(z3.Or(*terms)) if terms else False
    reg('any', b_any, True)

    def b_type(x):
        if isinstance(x, tuple) or (isinstance(x, SSeq)
                                    and x.kind == 'tuple'):
            return m['tuple']
        if isinstance(x, (list, MList)) or (isinstance(x, SSeq)
                                            and x.kind == 'list'):
            return m['list']
        if isinstance(x, dict):
            return m['dict']
        if isinstance(x, frozenset):
            return m['frozenset']
        if isinstance(x, set):
            return m['set']
        from .world import ObjVal
        if isinstance(x, ObjVal):
            return x.cls
        if isinstance(x, SVal):
            return apply_uf('py.type', (x,), 'Val')
        raise Unsupported('type() of %r' % (x,))
    reg('type', b_type)
    m['type'].pytype = 'type'

    def b_super(it, node, *a):
        from .world import SuperProxy
        fr = it.current_frame
        while fr is not None and getattr(fr, 'method_owner', None) is None:
            fr = fr.parent
        if fr is None or fr.method_self is None:
            raise Unsupported('super() outside a method of a known class')
        return SuperProxy(fr.method_self, fr.method_owner)
    reg('super', b_super, True)
    reg('object', ClassRef('object', (), 'builtins'))
    m['object'] = ClassRef('object', (), 'builtins')
    def b_float(x=0.0):
        if isinstance(x, SStr):
            world.trusted_used.add('T-conv: float(str) on digits[.digits]')
            it = _CUR[0]
            ok = uf('conv.float_ok', z3.StringSort(), z3.BoolSort())(x.t)
            if it is not None and not it.spec and not it.branch(ok):
                it.raise_('ValueError', 'could not convert string to float')
            return SReal(uf('conv.str_to_float', z3.StringSort(),
                            z3.RealSort())(x.t))
        if isinstance(x, (SReal, float)):
            return x
        if isinstance(x, (SInt, SBool, int)):
            return SReal(TReal.unwrap(x))
        raise Unsupported('float() of %r' % (x,))
    reg('float', b_float)

    def b_frozenset(it, node, x=()):
        if isinstance(x, S.SSet):
            return S.SSet(x.arr, x.elem)
        if isinstance(x, str):
            return frozenset(x)
        if isinstance(x, (tuple, list, set, frozenset)):
            if getattr(world, 'symbolic_sets', False) and not it.spec:
                out = S.empty_set(TVal)
                for e in x:
                    out.arr = z3.Store(out.arr, TVal.unwrap(e),
                                       z3.BoolVal(True))
                return out
            return frozenset(x)
        if isinstance(x, SVal):
            v = z3.Const(S.fresh_name('e'), S.Val)
            return S.SSet(z3.Lambda([v], S.py_in(x.t, v)), TVal)
        raise Unsupported('frozenset() of %r' % (x,))
    reg('frozenset', b_frozenset, True)

    def b_id(x):
        # the address of the object: SOME integer (nothing else is known;
        # in particular addresses are reused once an object is freed)
        world.trusted_used.add('id(): uninterpreted integer')
        return SInt(uf('py.id', S.Val, z3.IntSort())(S.box_any(x)))
    reg('id', b_id)
    for nm in ('str', 'int', 'bool', 'float', 'tuple', 'list', 'dict', 'set',
               'frozenset'):
        m[nm].pytype = nm

    for abc_name in ('Sequence', 'MutableSequence', 'Set', 'MutableSet',
                     'Mapping', 'MutableMapping', 'Iterable', 'Iterator',
                     'Sized', 'Hashable', 'Callable', 'Generator'):
        world.lib[('collections.abc', abc_name)] = Opaque(abc_name)
    world.lib[('collections.abc',)] = True
    world.lib[('collections', 'abc')] = __import__(
        'vlib.pyvc.interp', fromlist=['x']).ModuleRef('collections.abc')
    world.lib[('collections', 'deque')] = Opaque('deque')
    # --------------------------------------------------------- sys ----
    import sys as _sys
    BASE = {'tuple': _sys.getsizeof(()), 'list': _sys.getsizeof([]),
            'str': _sys.getsizeof('')}
    PER = {'tuple': _sys.getsizeof((1, 2)) - _sys.getsizeof((1,)),
           'list': 8, 'str': _sys.getsizeof('ab') - _sys.getsizeof('a')}

    def sys_getsizeof(x, default=None):
        """T-size: own size of a sequence / ASCII string is linear in its
        length, with the constants of the running interpreter."""
        if isinstance(x, MList):
            x = x.seq
        kind = None
        if isinstance(x, SSeq) and x.kind in ('tuple', 'list'):
            kind, n = x.kind, x.length
        elif isinstance(x, (tuple, list)):
            kind, n = type(x).__name__, z3.IntVal(len(x))
        elif isinstance(x, (str, SStr)):
            kind, n = 'str', z3.Length(TStr.unwrap(x))
        if kind is not None:
            world.trusted_used.add(
                'T-size: getsizeof(%s) = %d + %d*len (this interpreter)' % (
                    kind, BASE[kind], PER[kind]))
            return SInt(z3.IntVal(BASE[kind]) + PER[kind] * n)
        world.trusted_used.add('sys.getsizeof (uninterpreted)')
        return SInt(uf('getsizeof', S.Val, z3.IntSort())(S.box_any(x)))
    world.lib[('sys', 'getsizeof')] = Model('sys.getsizeof', sys_getsizeof)

    def m_floor(x):
        if isinstance(x, SReal):
            return SInt(z3.ToInt(x.t))
        if isinstance(x, (SInt, int)):
            return x
        import math
        return math.floor(x)
    world.lib[('math', 'floor')] = Model('math.floor', m_floor)

    def b_pow(*a):
        if not any(S.is_sym(x) for x in a):
            return pow(*a)
        return apply_uf('py.pow', a, 'Val')
    reg('pow', b_pow)

    def b_round(x, nd=None):
        if not S.is_sym(x) and not S.is_sym(nd):
            return round(x) if nd is None else round(x, nd)
        if nd is None and isinstance(x, (SInt, int)):
            return x
        if nd is None and isinstance(x, SReal):
            # round(float) -> int, ties to even (exact on the float's value)
            t = x.t
            f = z3.ToInt(t)
            d = t - z3.ToReal(f)
            half = z3.RealVal('1/2')
            return SInt(z3.If(d < half, f, z3.If(
                d > half, f + 1, z3.If(f % 2 == 0, f, f + 1))))
        return apply_uf('py.round', (x, 0 if nd is None else nd), 'Val')
    reg('round', b_round)

    def b_hash(x):
        # hash(): an uninterpreted function of the VALUE (equal values, e.g.
        # equal tuples, have equal hashes)
        if not S.is_sym(x) and not isinstance(x, (tuple, list, dict)):
            try:
                return hash(x) if isinstance(x, (int, bool, type(None))) \
                    else SInt(uf('py.hash', S.Val, z3.IntSort())(
                        S.box_any(x)))
            except TypeError:
                pass
        return SInt(uf('py.hash', S.Val, z3.IntSort())(S.box_any(x)))
    reg('hash', b_hash)

    def b_hex(x):
        return apply_uf('py.hex', (x,), 'Str') if S.is_sym(x) else hex(x)
    reg('hex', b_hex)
    # --------------------------------------------------- itertools ----
    def it_islice(it, node, x, *a):
        a = list(a)
        if len(a) == 1:
            lo, hi = 0, a[0]
        else:
            lo, hi = a[0], a[1]
            if len(a) > 2 and a[2] not in (None, 1):
                raise Unsupported('islice step')
        if lo is None:
            lo = 0
        if isinstance(x, S.SIter):
            # a lazy view: nothing is pulled until the view is pulled
            rest = x.remaining()
            view = it.slice(rest, lo, hi, None, node)
            view.kind = 'iter'
            return S.SIter(view, parent=x, lo=S.clamp_index(
                TInt.unwrap(lo), rest.length))
        return it.slice(_as_seq(world, it, x), lo, hi, None, node)
    world.lib[('itertools', 'islice')] = Model('itertools.islice', it_islice,
                                               True)

    def b_map(it, node, fn, *xs):
        if len(xs) == 1 and isinstance(xs[0], InfSeq):
            src = xs[0]
            return InfSeq(lambda it2, k, nd: it2.call(
                fn, [src.item(it2, k, nd)], {}, nd))
        if len(xs) == 1 and isinstance(xs[0], S.SIter):
            # a lazy view over a one-shot iterator: the element-wise image
            # of what is left of it; pulling the view pulls the parent
            world.trusted_used.add('map (T-lazy): element-wise image')
            src = xs[0]
            q = src.remaining()
            k = z3.Int(S.fresh_name('k'))
            was = it.spec
            it.spec = True
            ncalls = len(it.calls)
            try:
                body = it.call(fn, [q.elem.wrap(q.at(k))], {}, node)
            except Unsupported:
                # the body cannot be written as one term (it branches on the
                # element): the image stays uninterpreted - nothing is known
                # about the elements of the view, only that there is one per
                # element pulled from the parent
                del it.calls[ncalls:]
                world.trusted_used.add(
                    'map (T-lazy): image of a branching body uninterpreted')
                body = apply_uf('map.image:%s:%d' % (
                    getattr(fn, 'name', type(fn).__name__),
                    getattr(node, 'lineno', 0)),
                    (q.elem.wrap(q.at(k)),), 'Val')
            finally:
                it.spec = was
            t = S.type_of(body)
            if t is None or isinstance(t, TSeq):
                raise Unsupported('map body %r' % (body,))
            view = SSeq(q.length, z3.Lambda([k], t.unwrap(body)), t,
                        kind='iter')
            return S.SIter(view, parent=src)
        if len(xs) == 1 and isinstance(xs[0], SVal):
            # map over an opaque iterable: lazy, nothing is walked now
            world.trusted_used.add('map (T-lazy, uninterpreted)')
            r = apply_uf('map:%s:%d' % (
                getattr(fn, 'name', type(fn).__name__),
                getattr(node, 'lineno', 0)), (xs[0],), 'Val')
            it.calls.append(('map', (fn, xs[0]), r))
            return r
        seqs = [_as_seq(world, it, x) for x in xs]
        if all(isinstance(q, (tuple, list)) for q in seqs):
            n = min(len(q) for q in seqs)
            return tuple(it.call(fn, [q[i] for q in seqs], {}, node)
                         for i in range(n))
        if len(seqs) == 1 and isinstance(seqs[0], SSeq):
            world.trusted_used.add('map (T-lazy): element-wise image')
            q = seqs[0]
            k = z3.Int(S.fresh_name('k'))
            was = it.spec
            it.spec = True
            try:
                body = it.call(fn, [q.elem.wrap(q.at(k))], {}, node)
            finally:
                it.spec = was
            t = S.type_of(body)
            if t is None or isinstance(t, TSeq):
                raise Unsupported('map body %r' % (body,))
            return SSeq(q.length, z3.Lambda([k], t.unwrap(body)), t,
                        kind='iter')
        raise Unsupported('map over %r' % (xs,))
    reg('map', b_map, True)

    def lazy_uf(name):
        def f(it, node, *a, **kw):
            world.trusted_used.add('%s (T-lazy, uninterpreted)' % name)
            extra = tuple(kw[k] for k in sorted(kw))
            sym = name + ''.join('$' + k for k in sorted(kw))
            r = apply_uf(sym, tuple(a) + extra, 'Val')
            it.calls.append((sym, tuple(a) + extra, r))
            return r
        return f
    def it_count(it, node, start=0, step=1):
        # itertools.count: the endless arithmetic progression (as a value:
        # the uninterpreted term it always was, logged like the other lazy
        # constructors)
        world.trusted_used.add('itertools.count (T-lazy, uninterpreted)')
        r = apply_uf('itertools.count', (start, step) if step != 1 or True
                     else (start,), 'Val')

        def item(it2, k, nd):
            kk = k if z3.is_expr(k) else None
            if kk is None and not S.is_sym(start) and not S.is_sym(step):
                return start + k * step
            return SInt(TInt.unwrap(start) + (k if z3.is_expr(k) else
                                              z3.IntVal(k)) *
                        TInt.unwrap(step))
        seq = InfSeq(item, r)
        it.calls.append(('itertools.count', (start, step), r))
        return seq
    world.lib[('itertools', 'count')] = Model('itertools.count', it_count,
                                              True)
    for nm in ('takewhile', 'dropwhile', 'cycle', 'repeat',
               'zip_longest'):
        world.lib[('itertools', nm)] = Model('itertools.' + nm,
                                             lazy_uf('itertools.' + nm), True)
    world.lib[('functools', 'reduce')] = Model(
        'functools.reduce', lazy_uf('functools.reduce'), True)
    reg('filter', lazy_uf('py.filter'), True)
    reg('reversed', lazy_uf('py.reversed'), True)
    _sorted_uf = lazy_uf('py.sorted')

    def b_sorted(it, node, x, **kw):
        if isinstance(x, (dict, set, frozenset)):
            x = list(x)
        if isinstance(x, (list, tuple)) and len(x) < 64 and not it.spec \
                and set(kw) <= {'key', 'reverse'}:
            return _stable_sort(list(x), kw.get('key'),
                                kw.get('reverse', False), it, node)
        return _sorted_uf(it, node, x, **kw)
    reg('sorted', b_sorted, True)

    _chain_uf = lazy_uf('itertools.chain')
    _zip_uf[0] = lazy_uf('py.zip')

    def it_chain(it, node, *xs):
        from .world import IterSpec
        if xs and all(isinstance(x, SVal) for x in xs):
            return _chain_uf(it, node, *xs)     # opaque iterables: T-lazy
        if any(isinstance(x, PairStream) for x in xs):
            parts = []
            for x in xs:
                pp = _pair_parts(x)
                if pp is None:
                    raise Unsupported('chain of a pair stream with %r' % (x,))
                parts += pp
            return PairStream(parts)
        cur = None
        last_iter = None
        prefix = None
        for x in xs:
            if isinstance(x, S.SIter):
                if last_iter is not None:
                    raise Unsupported('chain of two one-shot iterators')
                last_iter = x
                prefix = cur
                q = x.remaining()
            else:
                if last_iter is not None:
                    raise Unsupported('chain: sequence after an iterator')
                q = _as_seq(world, it, x)
            cur = q if cur is None else it.binop('Add', cur, q, node)
        if cur is None:
            return ()
        if last_iter is None:
            return cur
        if isinstance(cur, (tuple, list)):
            cur = S.seq_from_items(list(cur), last_iter.seq.elem)
        plen = z3.IntVal(0) if prefix is None else (
            prefix.length if isinstance(prefix, SSeq)
            else z3.IntVal(len(prefix)))
        sp = IterSpec(cur.length, lambda k: cur.get(k), source=last_iter)

        def consume(n, li=last_iter, plen=plen):
            n = n if z3.is_expr(n) else z3.IntVal(n)
            li.pos = z3.simplify(li.pos + z3.If(n - plen < 0, 0, n - plen))
        sp.consume = consume
        return sp
    world.lib[('itertools', 'chain')] = Model('itertools.chain', it_chain,
                                              True)

    # ------------------------------------------------- dispatchers ----
    world.method_models.append(lambda o, n, a, k, it, node: str_method(
        world, o, n, a, k, it, node))
    world.method_models.append(lambda o, n, a, k, it, node: seq_method(
        world, o, n, a, k, it, node))
    world.method_models.append(lambda o, n, a, k, it, node: dict_method(
        world, o, n, a, k, it, node))

    # exceptions as values: `e.wrapped` of a WrappedException is some host
    # exception (class unknown: Exception), with_traceback returns self
    def exc_attr(o, name, it):
        if isinstance(o, ExcVal) and name == 'wrapped':
            from .interp import BUILTIN_EXC
            if o.args and isinstance(o.args[0], ExcVal):
                return o.args[0]
            return ExcVal(BUILTIN_EXC['Exception'], (), o.line)
        return NotImplemented
    world.attr_models.append(exc_attr)

    def exc_method(o, n, a, k, it, node):
        if isinstance(o, ExcVal) and n == 'with_traceback':
            return o
        return NotImplemented
    world.method_models.append(exc_method)
    world.lib[('functools', 'cmp_to_key')] = Model(
        'functools.cmp_to_key', lambda f: CmpKeyMaker(f))

    def cmpkey_binop(op, a, b, it):
        if isinstance(a, CmpKey) and isinstance(b, CmpKey) and op in (
                '<', '<=', '>', '>='):
            r = it.call(a.cmp, [a.obj, b.obj], {})
            import ast as _ast
            node = {'<': _ast.Lt, '<=': _ast.LtE, '>': _ast.Gt,
                    '>=': _ast.GtE}[op]()
            return it.compare1(node, r, 0, None)
        return NotImplemented
    world.binop_models.append(cmpkey_binop)
    world.lib[('sys', 'exc_info')] = Model(
        'sys.exc_info', lambda: (None, None, None))

    def opaque_method(o, n, a, k, it, node):
        if isinstance(o, SVal) and n in world.opaque_sigs:
            return world.opaque_sigs[n](o, a, k, it)
        return NotImplemented
    world.method_models.append(opaque_method)


def _as_seq(world, it, x):
    if isinstance(x, MList):
        return x.seq
    if isinstance(x, S.SIter):
        raise Unsupported('one-shot iterator used as a sequence')
    if isinstance(x, (SSeq, tuple, list)):
        return x
    sp = world.iter_spec(x, it)
    n = _concrete_len(sp.length)
    if n is not None:
        return tuple(sp.item(k) for k in range(n))
    raise Unsupported('not a modelled sequence: %r' % (x,))


def _box_any(x):
    if isinstance(x, dict) and all(isinstance(k, str) for k in x):
        # record literal: constructor symbol named by its keys
        keys = sorted(x)
        f = uf('pydict:' + ','.join(keys), *([S.Val] * len(keys) + [S.Val]))
        return f(*[_box_any(x[k]) for k in keys]) if keys else \
            z3.Const('pydict:empty', S.Val)
    if isinstance(x, list):
        f = uf('pylist/%d' % len(x), *([S.Val] * len(x) + [S.Val]))
        return f(*[_box_any(v) for v in x]) if x else \
            z3.Const('pylist:empty', S.Val)
    if isinstance(x, tuple):
        f = uf('pytuple/%d' % len(x), *([S.Val] * len(x) + [S.Val]))
        return f(*[_box_any(v) for v in x]) if x else \
            z3.Const('pytuple:empty', S.Val)
    if isinstance(x, (SSeq, MList)):
        return TVal.unwrap(x)       # box.seq(arr, off, len)
    if isinstance(x, (list, dict)):
        return z3.Const(S.fresh_name('container'), S.Val)
    if hasattr(x, 'as_val'):
        return x.as_val()
    return S.box(x)


S.box_any = _box_any


PY_KIND = {
    # python type name -> (matches symbolic class of value)
    'str': lambda v: isinstance(v, (str, SStr)),
    'bool': lambda v: isinstance(v, (bool, SBool)),
    'int': lambda v: isinstance(v, (int, SInt, bool, SBool)),
    'float': lambda v: isinstance(v, (float, SReal)),
    'tuple': lambda v: isinstance(v, tuple) or (
        isinstance(v, SSeq) and v.kind == 'tuple'),
    'list': lambda v: isinstance(v, (list, MList)) or (
        isinstance(v, SSeq) and v.kind == 'list'),
    'dict': lambda v: isinstance(v, dict),
}
TAG_OF = {'NoneType': 0, 'bool': 1, 'int': 2, 'float': 3, 'str': 4}


def isinstance_one(world, it, x, c):
    """isinstance(x, c) -> True / False / z3 Bool."""
    name = None
    if isinstance(c, Model) and getattr(c, 'pytype', None):
        name = c.pytype
    elif isinstance(c, ClassRef):
        name = c.name
    elif isinstance(c, Opaque):
        name = c.name.split('.')[-1]
    elif isinstance(c, str):
        name = c
    if name is None:
        raise Unsupported('isinstance against %r' % (c,))
    hook = world.isinstance_hook(x, name, it) if hasattr(
        world, 'isinstance_hook') else NotImplemented
    if hook is not NotImplemented:
        return hook
    if isinstance(x, SVal):
        if name == 'object':
            return True
        if name == 'int':
            return z3.Or(S.tag_fn(x.t) == 1, S.tag_fn(x.t) == 2)
        if name in TAG_OF:
            return S.tag_fn(x.t) == TAG_OF[name]
        world.trusted_used.add('isinstance(opaque, %s) uninterpreted' % name)
        return isinst_fn(name)(x.t)
    if name == 'object':
        return True
    if x is None:
        return name == 'NoneType'
    if name in PY_KIND:
        return bool(PY_KIND[name](x))
    from .world import ObjVal
    if isinstance(x, ObjVal):
        return name in x.cls.mro_names(world)
    if isinstance(x, ExcVal):
        return name in x.cls.mro_names(world)
    if isinstance(x, (str, SStr, int, SInt, bool, SBool, float, SReal)):
        abc_ok = {'Sequence': (str, SStr), 'Iterable': (str, SStr),
                  'Hashable': (str, SStr, int, SInt, bool, SBool)}
        return isinstance(x, abc_ok.get(name, ()))
    if isinstance(x, dict):
        return name in ('Mapping', 'MutableMapping', 'Iterable', 'Sized',
                        'Collection', 'Container', 'dict')
    if isinstance(x, (set, frozenset)):
        if name in ('MutableSet', 'set'):
            return isinstance(x, set)
        return name in ('Set', 'Iterable', 'Sized', 'Collection',
                        'Container', 'frozenset', 'Hashable')
    if isinstance(x, S.SIter):
        return name in ('Iterable', 'Iterator')
    if isinstance(x, S.SFunc):
        # a callback parameter: some callable, an instance of no class of
        # the repository
        return name in ('Callable', 'Hashable')
    if isinstance(x, SMap) or type(x).__name__ == 'SMapCell':
        # a symbolic builtin dict (the mutable cell) / mapping
        return name in ('Mapping', 'Iterable', 'Sized', 'Collection',
                        'Container', 'dict', 'MutableMapping')
    if isinstance(x, S.SSet):
        return name in ('Set', 'Iterable', 'Sized', 'Collection',
                        'Container', 'frozenset', 'Hashable')
    if isinstance(x, (tuple, list, SSeq, MList)):
        kind = x.kind if isinstance(x, SSeq) else (
            'list' if isinstance(x, (list, MList)) else 'tuple')
        if name in ('Sequence', 'Iterable', 'Collection', 'Sized',
                    'Container', 'Reversible'):
            return kind in ('tuple', 'list', 'range') or name == 'Iterable'
        if name == 'MutableSequence':
            return kind == 'list'
        if name in ('Iterator', 'Generator'):
            return kind == 'iter'
        if name in ('Mapping', 'Set', 'MutableSet', 'MutableMapping'):
            return False
    raise Unsupported('isinstance(%r, %s)' % (x, name))


# ------------------------------------------------------------- str ----

def str_method(world, o, name, args, kw, it, node):
    if not isinstance(o, (str, SStr)):
        return NotImplemented
    if isinstance(o, str) and not any(_deep_sym(a) for a in args):
        if name in ('format',) and all(
                isinstance(a, (str, int, float, bool, type(None)))
                for a in list(args) + list(kw.values())):
            return o.format(*args, **kw)
        if name in ('format',):
            raise Unsupported('str.format')
    if name == 'format' and isinstance(o, str) and not kw and \
            '{{' not in o and '}}' not in o and \
            o.count('{}') == len(args) == o.count('{') == o.count('}') and \
            all(isinstance(a, (SStr, str)) for a in args):
        # a literal template with plain `{}` fields and string arguments is
        # the concatenation of its pieces
        pieces = o.split('{}')
        t = z3.StringVal(pieces[0])
        for a, rest in zip(args, pieces[1:]):
            t = z3.Concat(t, TStr.unwrap(a), z3.StringVal(rest))
        return SStr(z3.simplify(t))
    if name == 'isascii' and not args:
        if isinstance(o, str):
            return o.isascii()
        return SBool(uf('str.isascii', z3.StringSort(), z3.BoolSort())(
            TStr.unwrap(o)))
    if name == 'encode':
        # T-conv: str.encode(codec[, errors]) gives opaque bytes or raises
        # UnicodeEncodeError
        world.trusted_used.add('T-conv: str.encode() returns bytes or '
                               'raises UnicodeEncodeError')
        bad = z3.Bool(S.fresh_name('unencodable'))
        if it.branch(bad):
            it.raise_('UnicodeEncodeError', node=node)
        return apply_uf('str.encode', (o,) + tuple(args), 'Val')
    if name == 'format':
        # message formatting: an opaque string of template and arguments
        world.trusted_used.add('str.format (uninterpreted)')
        return SStr(z3.String(S.fresh_name('formatted')))
    if False:
        pass
        try:
            return getattr(o, name)(*args, **kw)
        except (ValueError, IndexError, TypeError) as e:
            it.raise_(type(e).__name__, node=node)
    s = TStr.unwrap(o)
    n = z3.Length(s)
    world.trusted_used.add('str.' + name)
    if name in ('find', 'rfind', 'index', 'rindex'):
        sub = TStr.unwrap(args[0])
        lo = _ival(args[1]) if len(args) > 1 and args[1] is not None \
            else z3.IntVal(0)
        hi = _ival(args[2]) if len(args) > 2 and args[2] is not None else n
        a, b = S.clamp_index(lo, n), S.clamp_index(hi, n)
        window = z3.SubString(s, a, z3.If(b - a < 0, 0, b - a))
        m = z3.Length(sub)
        if name in ('find', 'index'):
            # Python: find('', start) is start if start <= len else -1; with
            # clamped a this is IndexOf on the window.
            j = z3.IndexOf(window, sub, 0)
            # a > n cannot happen after clamping; but Python checks the
            # *unclamped* start > len for the empty needle
            r = z3.If(z3.And(j >= 0, z3.Not(z3.And(m == 0, lo > n))),
                      j + a, z3.IntVal(-1))
        else:
            r = _rfind(window, sub, a, lo, n)
        if name in ('index', 'rindex'):
            if it.branch(r < 0):
                it.raise_('ValueError', node=node)
        return SInt(r)
    if name in ('startswith', 'endswith'):
        pre = args[0]
        if len(args) > 1:
            raise Unsupported('startswith with range')
        opts = pre if isinstance(pre, tuple) else (pre,)
        if isinstance(pre, SSeq):
            k = z3.Int(S.fresh_name('k'))
            f = z3.PrefixOf if name == 'startswith' else z3.SuffixOf
            return SBool(z3.Exists([k], z3.And(
                0 <= k, k < pre.length, f(pre.at(k), s))))
        f = z3.PrefixOf if name == 'startswith' else z3.SuffixOf
        terms = [f(TStr.unwrap(p), s) for p in opts]
        return SBool(z3.Or(*terms)) if terms else False
    if name == 'upper':
        return SStr(_upper(s))
    if name == 'lower':
        return SStr(_lower(s))
    if name in ('strip', 'lstrip', 'rstrip'):
        chars = args[0] if args else None
        mode = {'strip': 0, 'lstrip': 1, 'rstrip': 2}[name]
        return SStr(_strip(s, S.box(chars), mode))
    if name == 'join':
        q = args[0]
        if isinstance(q, MList):
            q = q.seq
        if isinstance(q, (tuple, list)):
            parts = []
            for i, p in enumerate(q):
                if i:
                    parts.append(s)
                parts.append(TStr.unwrap(p))
            if not parts:
                return ''
            return SStr(z3.Concat(*parts) if len(parts) > 1 else parts[0])
        if isinstance(q, SVal):
            return SStr(uf('str_join_val', z3.StringSort(), S.Val,
                           z3.StringSort())(s, q.t))
        if isinstance(q, SSeq):
            return SStr(uf('str_join', z3.StringSort(),
                           z3.ArraySort(z3.IntSort(), q.elem.sort()),
                           z3.IntSort(), z3.IntSort(), z3.StringSort())(
                s, q.arr, q.off, q.length))
    if name == 'replace':
        old, new = TStr.unwrap(args[0]), TStr.unwrap(args[1])
        cnt = _ival(args[2]) if len(args) > 2 else z3.IntVal(-1)
        return SStr(uf('str_replace', z3.StringSort(), z3.StringSort(),
                       z3.StringSort(), z3.IntSort(), z3.StringSort())(
            s, old, new, cnt))
    if name in ('split', 'rsplit'):
        sep = args[0] if args else None
        cnt = _ival(args[1]) if len(args) > 1 else z3.IntVal(-1)
        f = uf('str_' + name, z3.StringSort(), S.Val, z3.IntSort(), S.Val)
        return SVal(f(s, S.box(sep), cnt))
    if name in ('isalpha', 'isdigit', 'isspace', 'isalnum', 'isupper',
                'islower'):
        return SBool(uf('str_' + name, z3.StringSort(), z3.BoolSort())(s))
    raise Unsupported('str.%s' % name)


def _deep_sym(a):
    if isinstance(a, (tuple, list)):
        return any(_deep_sym(x) for x in a)
    return S.is_sym(a) or isinstance(a, MList)


def _rfind(window, sub, a, lo, n):
    """Greatest match index of sub inside window, shifted by a; -1 if none."""
    j = z3.Int(S.fresh_name('rf'))
    m, w = z3.Length(sub), z3.Length(window)
    # defined through its characterisation with a fresh function symbol
    f = uf('str_rfind', z3.StringSort(), z3.StringSort(), z3.IntSort())
    r = f(window, sub)
    S.PENDING_AXIOMS.append(z3.And(
        r >= -1, r <= w - m,
        z3.Implies(r >= 0, z3.SubString(window, r, m) == sub),
        z3.Implies(r == -1, z3.Not(z3.Contains(window, sub))),
        z3.ForAll([j], z3.Implies(z3.And(j > r, j <= w - m, j >= 0),
                                  z3.SubString(window, j, m) != sub))))
    return z3.If(z3.And(r >= 0, z3.Not(z3.And(m == 0, lo > n))), r + a,
                 z3.IntVal(-1))




# ------------------------------------------------------- sequences ----

class PairStream:
    """The (key, value) pairs of symbolic maps and explicit pairs, in order:
    what `m.items()` and itertools.chain(...) of such produce, and what
    dict(...) / dict.update(...) consume."""
    pyvc_attrs = ()

    def __init__(self, parts):
        self.parts = parts      # SMap | (key, value)

    def into(self, cell):
        """Apply the stream to a mutable map cell, later pairs winning."""
        for p in self.parts:
            if isinstance(p, SMap):
                m = cell.m
                if p.key_t is not m.key_t or p.val_t is not m.val_t:
                    raise Unsupported('maps of different key/value types')
                k = z3.Const(S.fresh_name('k'), m.key_t.sort())
                dom = z3.Lambda([k], z3.Or(z3.Select(m.dom, k),
                                           z3.Select(p.dom, k)))
                val = z3.Lambda([k], z3.If(z3.Select(p.dom, k),
                                           z3.Select(p.val, k),
                                           z3.Select(m.val, k)))
                cell.m = SMap(dom, val, m.key_t, m.val_t)
            else:
                cell.store(p[0], p[1])
        return cell


def _pair_parts(x):
    """-> list of stream parts, or None when x is not a stream of pairs."""
    from .world import SMapCell
    if isinstance(x, PairStream):
        return list(x.parts)
    if isinstance(x, SMapCell):
        return [x.m]
    if isinstance(x, SMap):
        return [x]
    if isinstance(x, (tuple, list)) and all(
            isinstance(p, tuple) and len(p) == 2 for p in x):
        return list(x)
    return None


class CmpKey(S.Sym):
    """functools.cmp_to_key(cmp)(obj): ordered by the comparison function."""

    def __init__(self, cmp, obj):
        self.cmp, self.obj = cmp, obj


class CmpKeyMaker:
    def __init__(self, cmp):
        self.cmp = cmp
        self.name = 'cmp_to_key'

    def __call__(self, obj):
        return CmpKey(self.cmp, obj)


def _stable_sort(items, key, reverse, it, node):
    """list.sort / sorted of a short concrete list, following CPython 3.12's
    listsort step by step (count_run, then binary insertion; n < 64), so
    that the result is CPython's even when the comparison is not a
    consistent order.  Every `<` on possibly symbolic keys forks."""
    import ast as _ast
    if S.is_sym(reverse):
        raise Unsupported('sort with symbolic reverse flag')
    n = len(items)
    if n >= 64:
        raise Unsupported('sort of %d elements' % n)
    ks = [it.call(key, [x], {}, node) if key is not None else x
          for x in items]
    pairs = list(zip(ks, items))
    if reverse:
        pairs.reverse()

    def islt(a, b):
        t = it.truth(it.compare1(_ast.Lt(), a[0], b[0], node))
        return it.branch(t)
    if n >= 2:
        # count_run
        run = 2
        lo = 1
        descending = islt(pairs[1], pairs[0])
        lo = 2
        while lo < n:
            lt = islt(pairs[lo], pairs[lo - 1])
            if (descending and not lt) or (not descending and lt):
                break
            lo += 1
            run += 1
        if descending:
            pairs[:run] = pairs[:run][::-1]
        # binarysort(lo=0, hi=n, start=run)
        for start in range(run, n):
            pivot = pairs[start]
            l, r = 0, start
            while True:
                p = l + ((r - l) >> 1)
                if islt(pivot, pairs[p]):
                    r = p
                else:
                    l = p + 1
                if not l < r:
                    break
            del pairs[start]
            pairs.insert(l, pivot)
    if reverse:
        pairs.reverse()
    return [x for _, x in pairs]


class InfSeq:
    """An endless lazy sequence given by its k-th item."""

    def __init__(self, item, val=None):
        self.item, self.val = item, val

    def as_val(self):
        if self.val is None:
            raise Unsupported('endless sequence as a value')
        return self.val.t


def seq_method(world, o, name, args, kw, it, node):
    if isinstance(o, list):
        if name == 'append':
            o.append(args[0])
            return None
        if name == 'extend':
            o.extend(it.concrete_items(args[0]))
            return None
        if name == 'insert' and not S.is_sym(args[0]):
            o.insert(args[0], args[1])
            return None
        if name == 'pop' and not any(S.is_sym(a) for a in args):
            try:
                return o.pop(*args)
            except IndexError:
                it.raise_('IndexError', node=node)
        if name == 'reverse':
            o.reverse()
            return None
        if name == 'copy':
            return list(o)
        if name == 'sort' and len(o) < 64 and not args:
            # list.sort(key=, reverse=): stable insertion sort, forking on
            # each (possibly symbolic) comparison of the keys
            o[:] = _stable_sort(o, kw.get('key'), kw.get('reverse', False),
                                it, node)
            return None
    if isinstance(o, (list, tuple)) and name in ('index', 'count') and \
            len(args) == 1:
        # element-wise equality, left to right (forks on symbolic members)
        hits = 0
        for i, x in enumerate(o):
            r = world.eq_model(args[0], x, it) if (
                S.is_sym(x) or S.is_sym(args[0]) or isinstance(
                    x, (tuple, list)) or type(x).__name__ == 'ObjVal'
                or type(args[0]).__name__ == 'ObjVal') else (args[0] == x)
            if r is NotImplemented:
                raise Unsupported('%s.%s: equality of %r and %r' % (
                    type(o).__name__, name, args[0], x))
            same = r if isinstance(r, bool) else it.branch(
                S.as_bool_term(r))
            if same:
                if name == 'index':
                    return i
                hits += 1
        if name == 'index':
            it.raise_('ValueError', 'not in list', node=node)
        return hits
    if isinstance(o, MList):
        if name == 'append':
            o.seq = S.seq_append(o.seq, args[0])
            o.seq.kind = 'list'
            return None
        if name == 'extend':
            q = args[0]
            if isinstance(q, MList):
                q = q.seq
            if isinstance(q, (tuple, list)):
                for x in q:
                    o.seq = S.seq_append(o.seq, x)
            elif isinstance(q, SSeq):
                o.seq = S.seq_concat(o.seq, q)
            else:
                raise Unsupported('extend with %r' % (q,))
            o.seq.kind = 'list'
            return None
        if name == 'insert':
            i = _ival(args[0])
            n = o.seq.length
            j = S.clamp_index(i, n)
            left = S.seq_slice(o.seq, None, j)
            right = S.seq_slice(o.seq, j, None)
            mid = S.seq_from_items([args[1]], o.seq.elem)
            o.seq = S.seq_concat(S.seq_concat(left, mid), right)
            o.seq.kind = 'list'
            return None
        if name == 'copy':
            return MList(o.seq)
        raise Unsupported('list.%s on symbolic list' % name)
    if isinstance(o, S.SSet):
        if name == 'add':
            o.arr = z3.Store(o.arr, o.elem.unwrap(args[0]), z3.BoolVal(True))
            return None
        if name == 'clear' and not args:
            o.arr = z3.K(o.elem.sort(), z3.BoolVal(False))
            return None
        if name == 'update':
            x = args[0]
            v = z3.Const(S.fresh_name('e'), o.elem.sort())
            if isinstance(x, SVal):
                o.arr = z3.Lambda([v], z3.Or(z3.Select(o.arr, v),
                                             S.py_in(x.t, v)))
                return None
            if isinstance(x, S.SSet):
                o.arr = z3.Lambda([v], z3.Or(z3.Select(o.arr, v),
                                             z3.Select(x.arr, v)))
                return None
            if isinstance(x, (tuple, list, set, frozenset)):
                for e in x:
                    o.arr = z3.Store(o.arr, o.elem.unwrap(e),
                                     z3.BoolVal(True))
                return None
        if name in ('discard', 'remove') and len(args) == 1:
            e = o.elem.unwrap(args[0])
            if name == 'remove' and not it.branch(z3.Select(o.arr, e)):
                it.raise_('KeyError', args[0], node=node)
            o.arr = z3.Store(o.arr, e, z3.BoolVal(False))
            return None
        if name == 'copy':
            return S.SSet(o.arr, o.elem)
        ALG = {'union': 'BitOr', 'intersection': 'BitAnd',
               'difference': 'Sub', 'symmetric_difference': 'BitXor'}
        if name in ALG and all(isinstance(a, S.SSet) for a in args):
            cur = S.SSet(o.arr, o.elem)
            for a in args:
                cur = it.binop(ALG[name], cur, a, node)
            return cur
        if name in ('issubset', 'issuperset') and len(args) == 1 and \
                isinstance(args[0], S.SSet):
            import ast as _ast
            return it.compare1(_ast.LtE() if name == 'issubset'
                               else _ast.GtE(), o, args[0], node)
        raise Unsupported('set.%s on symbolic set' % name)
    if isinstance(o, (set, frozenset)) and name in (
            'issuperset', 'issubset', 'isdisjoint', 'union', 'intersection',
            'difference') and len(args) == 1:
        x = args[0]
        if isinstance(x, (set, frozenset, tuple, list, str)) and not any(
                S.is_sym(e) for e in (x if not isinstance(x, str) else ())):
            return getattr(o, name)(x)
        if name == 'issuperset' and isinstance(x, SStr) and all(
                isinstance(e, str) and len(e) == 1 for e in o):
            # every character of the string is one of the set's characters
            if not o:
                return SBool(z3.Length(x.t) == 0)
            alts = [z3.Re(z3.StringVal(e)) for e in sorted(o)]
            cls = z3.Union(*alts) if len(alts) > 1 else alts[0]
            return SBool(z3.InRe(x.t, z3.Star(cls)))
    if isinstance(o, set) and name == 'update' and len(args) == 1 and \
            isinstance(args[0], (tuple, list, set, frozenset)):
        for e in args[0]:
            o.add(e)
        return None
    if isinstance(o, (set,)):
        if name == 'add':
            if S.is_sym(args[0]):
                raise Unsupported('symbolic element into concrete set')
            o.add(args[0])
            return None
    return NotImplemented


def dict_method(world, o, name, args, kw, it, node):
    from .world import SMapCell
    if isinstance(o, dict):
        if any(S.is_sym(a) for a in args[:1]):
            if name == 'get':
                # symbolic key into a concrete dict: case split
                for k2, v in o.items():
                    if it.branch(S.as_bool_term(S.equal(args[0], k2))):
                        return v
                return args[1] if len(args) > 1 else None
            raise Unsupported('dict.%s with symbolic key' % name)
        if name == 'get':
            return o.get(*args)
        if name == 'items':
            return tuple(o.items())
        if name == 'keys':
            return tuple(o.keys())
        if name == 'values':
            return tuple(o.values())
        if name == 'copy':
            return dict(o)
        if name == 'pop':
            if args[0] not in o:
                if len(args) > 1:
                    return args[1]
                it.raise_('KeyError', args[0], node=node)
            return o.pop(args[0])
        if name == 'setdefault':
            return o.setdefault(*args)
        if name == 'update':
            if isinstance(args[0], dict):
                o.update(args[0])
                return None
        raise Unsupported('dict.%s' % name)
    if isinstance(o, (SMapCell, SMap)):
        m = o.m if isinstance(o, SMapCell) else o
        if name == 'get':
            d = args[1] if len(args) > 1 else None
            has = m.has(args[0])
            v = m.get(args[0])
            if it.spec:
                return it.merge(has, v, d)
            if it.branch(has):
                return v
            return d
        if name == 'pop' and isinstance(o, SMapCell):
            has = m.has(args[0])
            if it.branch(has):
                v = m.get(args[0])
                o.delete(args[0])
                return v
            if len(args) > 1:
                return args[1]
            it.raise_('KeyError', args[0], node=node)
        if name == 'copy':
            return SMapCell(m)
        if name == 'setdefault' and isinstance(o, SMapCell) and args:
            d = args[1] if len(args) > 1 else None
            if it.branch(m.has(args[0])):
                return m.get(args[0])
            o.store(args[0], d)
            return d
        if name == 'items' and not args:
            return PairStream([m])
        if name == 'update' and isinstance(o, SMapCell) and len(args) == 1:
            parts = _pair_parts(args[0])
            if parts is not None:
                PairStream(parts).into(o)
                return None
        raise Unsupported('dict.%s on symbolic dict' % name)
    return NotImplemented


# ------------------------------------------------- spec helper names ----

def spec_helpers(world, it=None):
    """Names available inside contract expressions only. Each helper gets
    the *calling* interpreter (spec mode) as its first argument."""
    def forall(it, node, dom, fn):
        return _quant(world, it, dom, fn, True)

    def exists(it, node, dom, fn):
        return _quant(world, it, dom, fn, False)

    def implies(it, node, a, b):
        ta, tb = S.as_bool_term(it.truth(a)), S.as_bool_term(it.truth(b))
        return SBool(z3.Implies(ta, tb))

    def iff(it, node, a, b):
        ta, tb = S.as_bool_term(it.truth(a)), S.as_bool_term(it.truth(b))
        return SBool(ta == tb)

    def ite(it, node, c, a, b):
        c = it.truth(c)
        if isinstance(c, bool):
            return a if c else b
        return it.merge(c, a, b)

    def truthy(it, node, x):
        t = it.truth(x)
        return t if isinstance(t, bool) else SBool(t)

    def ufn(it, node, name, *args, ret='Val'):
        return apply_uf(name, args, ret)

    def val(it, node, x):
        return SVal(S.box_any(x))

    def ncalls(it, node, f):
        # ghost: how many times callback f has been applied so far
        if f is None:
            return 0
        nm = f if isinstance(f, str) else f.name
        return SInt(it.ncalls.get(nm, z3.IntVal(0)))

    d = dict(Int='Int', Str='Str', Val='Val', val=val, forall=forall,
             ncalls=ncalls,
             sizeof=lambda it, node, x: world.lib[('sys', 'getsizeof')].fn(x), exists=exists, implies=implies, iff=iff,
             ite=ite, truthy=truthy, ufn=ufn)
    return {k: (Model(k, v, True) if callable(v) else v)
            for k, v in d.items()}


def apply_uf(name, args, ret='Val'):
    sorts = []
    terms = []
    for a in args:
        t = S.type_of(a)
        if isinstance(a, (dict, tuple)):
            terms.append(S.box_any(a))
            sorts.append(S.Val)
            continue
        if isinstance(a, S.SIter):
            q = a.seq
            terms += [q.arr, z3.simplify(q.off + a.pos),
                      z3.simplify(q.length - a.pos)]
            sorts += [q.arr.sort(), z3.IntSort(), z3.IntSort()]
            continue
        if t is None or isinstance(t, TSeq):
            if isinstance(a, (SSeq, MList)):
                q = a.seq if isinstance(a, MList) else a
                terms += [q.arr, q.off, q.length]
                sorts += [q.arr.sort(), z3.IntSort(), z3.IntSort()]
                continue
            t = TVal
        terms.append(t.unwrap(a))
        sorts.append(t.sort())
    rt = {'Val': TVal, 'Int': TInt, 'Bool': TBool, 'Str': TStr,
          'Real': TReal}[ret]
    return rt.wrap(uf(name, *(sorts + [rt.sort()]))(*terms))


def _quant(world, it, dom, fn, universal):
    """forall(range(lo, hi), lambda k: ...) / forall(Int, lambda k: ...)"""
    k = z3.Int(S.fresh_name('q'))
    guard = None
    if isinstance(dom, SSeq) and dom.kind == 'range':
        lo = z3.simplify(dom.at(0))
        guard = z3.And(k >= lo, k < lo + dom.length)
    elif isinstance(dom, tuple) and all(isinstance(x, int) for x in dom):
        body = []
        for x in dom:
            body.append(S.as_bool_term(it.truth(it.call(fn, [x], {}))))
        if not body:
            return universal
        return SBool(z3.And(*body) if universal else z3.Or(*body))
    elif dom == 'Int':
        guard = z3.BoolVal(True)
    elif dom in ('Str', 'Val'):
        t = TStr if dom == 'Str' else TVal
        v = z3.Const(S.fresh_name('q'), t.sort())
        body = S.as_bool_term(it.truth(it.call(fn, [t.wrap(v)], {})))
        return SBool(z3.ForAll([v], body) if universal
                     else z3.Exists([v], body))
    else:
        raise Unsupported('quantifier domain %r' % (dom,))
    body = S.as_bool_term(it.truth(it.call(fn, [SInt(k)], {})))
    if universal:
        return SBool(z3.ForAll([k], z3.Implies(guard, body)))
    return SBool(z3.Exists([k], z3.And(guard, body)))
