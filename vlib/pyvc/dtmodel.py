"""T-dt: assumed contract of datetime / timedelta / dateutil.tz, as symbolic
value classes.

  datetime  = (local: Int microseconds of the wall-clock reading since
               1970-01-01T00:00 *in its own zone*, off: Int microseconds of
               utcoffset, aware: Bool)
  timedelta = Int microseconds
  tzinfo    = Int microseconds of fixed offset

  instant(dt) = local - off            (aware)
  aware - aware       = instant difference;  mixing aware/naive: TypeError
  dt +/- td           = shifts local, keeps the zone
  replace(tzinfo=z)   = keeps local;   astimezone(z) keeps the instant
  fromtimestamp(s, z) has instant s;   utcoffset() is None on naive
"""
import datetime as _dt
import z3

from . import sym as S
from .sym import (SInt, SBool, SReal, SVal, Sym, TInt, TReal, TBool,
                  Unsupported)
from .interp import Model, BoundMethod, ModuleRef

US = 1000000
DAY = 86400 * US


class STd(Sym):
    def __init__(self, us):
        self.us = us

    def py_truth(self):
        return self.us != 0

    def __repr__(self):
        return 'STd(%s)' % self.us


class STz(Sym):
    def __init__(self, off):
        self.off = off

    def py_truth(self):
        return True


class SDt(Sym):
    def __init__(self, local, off, aware):
        self.local, self.off = local, off
        self.aware = aware          # python bool or z3 Bool

    def instant(self):
        return self.local - self.off

    def py_truth(self):
        return True


class TTd(S.T):
    name = 'Timedelta'

    def fresh(self, base, facts=None):
        return STd(z3.Int(S.fresh_name(base + '.us')))


class TDt(S.T):
    """aware=True/False/None(symbolic)"""

    def __init__(self, aware=True):
        self.aware = aware
        self.name = 'Datetime'

    def fresh(self, base, facts=None):
        local = z3.Int(S.fresh_name(base + '.local'))
        off = z3.Int(S.fresh_name(base + '.off'))
        aw = self.aware if self.aware is not None else z3.Bool(
            S.fresh_name(base + '.aware'))
        if facts is not None:
            # real offsets are strictly within a day
            facts.append(z3.And(off > -DAY, off < DAY))
            if self.aware is False:
                facts.append(off == 0)
        return SDt(local, off, aw)


def _i(v):
    return TInt.unwrap(v)


def _strip_fl(t):
    """Exactness assumption for offsets in seconds (whole seconds are exactly
    representable): fl(x) -> x."""
    if z3.is_app(t) and t.decl().name() == 'fl':
        return t.arg(0)
    return t


def td_from_parts(days=0, seconds=0, microseconds=0, milliseconds=0,
                  minutes=0, hours=0, weeks=0):
    parts = [(days, DAY), (seconds, US), (microseconds, 1),
             (milliseconds, 1000), (minutes, 60 * US), (hours, 3600 * US),
             (weeks, 7 * DAY)]
    total = z3.IntVal(0)
    real = None
    for v, w in parts:
        if isinstance(v, (SReal, float)):
            x = _strip_fl(TReal.unwrap(v)) * w
            real = x if real is None else real + x
        elif isinstance(v, (SInt, int, SBool)):
            total = total + _i(v) * w
        else:
            raise Unsupported('timedelta component %r' % (v,))
    if real is not None:
        # CPython rounds the fractional microseconds half-to-even; modelled
        # as an uninterpreted rounding to an integer within half a unit
        r = z3.Int(S.fresh_name('td_round'))
        S.PENDING_AXIOMS.append(z3.And(
            z3.ToReal(r) - real <= z3.RealVal('1/2'),
            real - z3.ToReal(r) <= z3.RealVal('1/2')))
        total = total + r
    return STd(z3.simplify(total))


EPOCH = _dt.datetime(1970, 1, 1)


def civil(year, month, day, hour=0, minute=0, second=0, microsecond=0):
    args = (year, month, day, hour, minute, second, microsecond)
    if not any(S.is_sym(a) for a in args):
        d = _dt.datetime(*args) - EPOCH
        return z3.IntVal((d.days * 86400 + d.seconds) * US + d.microseconds)
    f = z3.Function('dt.civil_days', z3.IntSort(), z3.IntSort(),
                    z3.IntSort(), z3.IntSort())
    return (f(_i(year), _i(month), _i(day)) * DAY + _i(hour) * 3600 * US +
            _i(minute) * 60 * US + _i(second) * US + _i(microsecond))


def install(world):
    """Register the T-dt model in a World (contracts/date_time.setup)."""
    def make_datetime(it, node, *a, **kw):
        names = ['year', 'month', 'day', 'hour', 'minute', 'second',
                 'microsecond', 'tzinfo']
        vals = dict(zip(names, a))
        vals.update(kw)
        tzinfo = vals.pop('tzinfo', None)
        local = civil(**vals)
        if tzinfo is None:
            return SDt(local, z3.IntVal(0), False)
        if isinstance(tzinfo, STz):
            return SDt(local, tzinfo.off, True)
        raise Unsupported('tzinfo %r' % (tzinfo,))
    dtc = Model('datetime.datetime', make_datetime, True)
    dtc.pytype = 'datetime'
    tdc = Model('datetime.timedelta', lambda *a, **k: td_from_parts(*a, **k))
    tdc.pytype = 'timedelta'
    world.lib[('datetime', 'datetime')] = dtc
    world.lib[('datetime', 'timedelta')] = tdc
    world.lib[('dateutil', 'tz')] = ModuleRef('dateutil.tz')
    world.lib[('dateutil.tz',)] = True
    world.lib[('dateutil', 'parser')] = ModuleRef('dateutil.parser')
    world.lib[('dateutil.parser',)] = True
    world.lib[('dateutil.tz', 'tzutc')] = Model(
        'tz.tzutc', lambda: STz(z3.IntVal(0)))

    def tzoffset(name, seconds):
        if isinstance(seconds, STd):
            return STz(seconds.us)
        if isinstance(seconds, (SReal, float)):
            x = _strip_fl(TReal.unwrap(seconds))
            return STz(z3.ToInt(x * US))
        return STz(_i(seconds) * US)
    world.lib[('dateutil.tz', 'tzoffset')] = Model('tz.tzoffset', tzoffset)

    def attr(obj, name, it):
        if isinstance(obj, Model) and obj.name == 'datetime.datetime':
            if name == 'fromtimestamp':
                return Model('datetime.fromtimestamp', fromtimestamp)
            if name in ('now', 'strptime', 'utcnow'):
                raise Unsupported('datetime.%s (clock / parser: assumed)'
                                  % name)
        if isinstance(obj, SDt):
            if name == 'tzinfo':
                if obj.aware is True:
                    return STz(obj.off)
                if obj.aware is False:
                    return None
                if it.branch(obj.aware):
                    return STz(obj.off)
                return None
            if name in ('year', 'month', 'day', 'hour', 'minute', 'second',
                        'microsecond'):
                if name == 'microsecond':
                    return SInt(S.py_mod(obj.local, z3.IntVal(US)))
                f = z3.Function('dt.' + name, z3.IntSort(), z3.IntSort())
                return SInt(f(obj.local))
            return BoundMethod(obj, name)
        if isinstance(obj, STd):
            if name == 'days':
                return SInt(S.floor_div(obj.us, z3.IntVal(DAY)))
            if name == 'seconds':
                return SInt(S.floor_div(S.py_mod(obj.us, z3.IntVal(DAY)),
                                        z3.IntVal(US)))
            if name == 'microseconds':
                return SInt(S.py_mod(obj.us, z3.IntVal(US)))
            return BoundMethod(obj, name)
        if isinstance(obj, STz):
            return BoundMethod(obj, name)
        return NotImplemented
    world.attr_models.append(attr)

    def fromtimestamp(ts, tz=None):
        if tz is None:
            raise Unsupported('fromtimestamp in the local zone')
        if isinstance(ts, (SReal, float)):
            x = _strip_fl(TReal.unwrap(ts)) * US
            r = z3.Int(S.fresh_name('ts_round'))
            S.PENDING_AXIOMS.append(z3.And(
                z3.ToReal(r) - x <= z3.RealVal('1/2'),
                x - z3.ToReal(r) <= z3.RealVal('1/2')))
            inst = r
        else:
            inst = _i(ts) * US
        return SDt(z3.simplify(inst + tz.off), tz.off, True)

    def method(o, name, args, kw, it, node):
        if isinstance(o, SDt):
            if name == 'utcoffset':
                if o.aware is True:
                    return STd(o.off)
                if o.aware is False:
                    return None
                return STd(o.off) if it.branch(o.aware) else None
            if name == 'replace':
                local, off, aware = o.local, o.off, o.aware
                for k, v in kw.items():
                    if k == 'tzinfo':
                        if v is None:
                            off, aware = z3.IntVal(0), False
                        elif isinstance(v, STz):
                            off, aware = v.off, True
                        else:
                            raise Unsupported('replace(tzinfo=%r)' % (v,))
                    elif k == 'microsecond':
                        local = local - S.py_mod(local, z3.IntVal(US)) + \
                            _i(v)
                    else:
                        f = z3.Function('dt.replace_' + k, z3.IntSort(),
                                        z3.IntSort(), z3.IntSort())
                        local = f(local, _i(v))
                return SDt(z3.simplify(local), off, aware)
            if name == 'astimezone':
                z = args[0] if args else kw.get('tz')
                if not isinstance(z, STz):
                    raise Unsupported('astimezone(%r)' % (z,))
                if o.aware is not True:
                    # a naive receiver is read as wall time of the PROCESS
                    # local zone, whose offset is whatever the host has
                    # configured: an uninterpreted function of the wall time
                    world.trusted_used.add(
                        'T-dt: astimezone() of a naive datetime uses the '
                        'process local zone (offset uninterpreted)')
                    loc = z3.Function('tz.local_offset', z3.IntSort(),
                                      z3.IntSort())
                    if isinstance(o.aware, bool):
                        off = loc(o.local)
                    elif it.branch(S.as_bool_term(o.aware)):
                        off = o.off
                    else:
                        off = loc(o.local)
                    return SDt(z3.simplify(o.local - off + z.off), z.off,
                               True)
                return SDt(z3.simplify(o.local - o.off + z.off), z.off, True)
            if name == 'timestamp' and not args:
                # POSIX seconds of the instant; a naive receiver is read as
                # wall time of the process local zone (offset uninterpreted)
                if o.aware is True:
                    inst = o.local - o.off
                else:
                    world.trusted_used.add(
                        'T-dt: timestamp() of a naive datetime uses the '
                        'process local zone (offset uninterpreted)')
                    loc = z3.Function('tz.local_offset', z3.IntSort(),
                                      z3.IntSort())
                    if isinstance(o.aware, bool):
                        inst = o.local - loc(o.local)
                    elif it.branch(S.as_bool_term(o.aware)):
                        inst = o.local - o.off
                    else:
                        inst = o.local - loc(o.local)
                return SReal(S.fl(z3.ToReal(inst) / US))
            if name in ('weekday', 'strftime', 'isoformat', 'timetuple'):
                f = z3.Function('dt.m_' + name, z3.IntSort(), S.Val)
                return SVal(f(o.local))
        if isinstance(o, STd):
            if name == 'total_seconds':
                return SReal(S.fl(z3.ToReal(o.us) / US))
        return NotImplemented
    world.method_models.append(method)

    def binop(op, a, b, it):
        if isinstance(a, SDt) and isinstance(b, STd) and op in ('Add', 'Sub'):
            d = b.us if op == 'Add' else -b.us
            return SDt(z3.simplify(a.local + d), a.off, a.aware)
        if isinstance(a, STd) and isinstance(b, SDt) and op == 'Add':
            return SDt(z3.simplify(b.local + a.us), b.off, b.aware)
        if isinstance(a, SDt) and isinstance(b, SDt):
            both = _same_awareness(a, b, it)
            if op == 'Sub':
                return STd(z3.simplify(a.instant() - b.instant()))
            sym = {'<': '<', '<=': '<=', '>': '>', '>=': '>='}.get(op)
            if sym:
                x, y = a.instant(), b.instant()
                return SBool({'<': x < y, '<=': x <= y, '>': x > y,
                              '>=': x >= y}[sym])
        if isinstance(a, STd) and isinstance(b, STd):
            if op == 'Add':
                return STd(z3.simplify(a.us + b.us))
            if op == 'Sub':
                return STd(z3.simplify(a.us - b.us))
            if op in ('<', '<=', '>', '>='):
                return SBool({'<': a.us < b.us, '<=': a.us <= b.us,
                              '>': a.us > b.us, '>=': a.us >= b.us}[op])
            if op == 'Div':
                # timedelta / timedelta is a FLOAT true division (A2')
                if not it.spec and it.branch(b.us == 0):
                    it.raise_('ZeroDivisionError')
                return SReal(S.fl(z3.ToReal(a.us) / z3.ToReal(b.us)))
            if op == 'FloorDiv':
                if not it.spec and it.branch(b.us == 0):
                    it.raise_('ZeroDivisionError')
                return SInt(S.floor_div(a.us, b.us))
            if op == 'Mod':
                if not it.spec and it.branch(b.us == 0):
                    it.raise_('ZeroDivisionError')
                return STd(S.py_mod(a.us, b.us))
        if isinstance(a, STd) and b is None and op == 'USub':
            return STd(-a.us)
        if isinstance(a, STd) and b is None and op == 'UAdd':
            return a
        if isinstance(a, (SDt, STd)) or isinstance(b, (SDt, STd)):
            if op in ('Add', 'Sub', '<', '<=', '>', '>='):
                it.raise_('TypeError', 'unsupported operand type(s)')
        return NotImplemented
    world.binop_models.append(binop)

    def _same_awareness(a, b, it):
        """aware/naive mixing raises TypeError for - and ordering."""
        for x, y in ((a, b), (b, a)):
            if x.aware is True and y.aware is False:
                it.raise_('TypeError', "can't mix offset-naive and "
                          "offset-aware datetimes")
        sym = [x for x in (a, b) if not isinstance(x.aware, bool)]
        if sym:
            aa = S.as_bool_term(a.aware)
            bb = S.as_bool_term(b.aware)
            if not it.branch(aa == bb):
                it.raise_('TypeError', "can't mix offset-naive and "
                          "offset-aware datetimes")
        return True

    def eq(a, b, it):
        if isinstance(a, STd) and isinstance(b, STd):
            return a.us == b.us
        if isinstance(a, SDt) and isinstance(b, SDt):
            aa, bb = S.as_bool_term(a.aware), S.as_bool_term(b.aware)
            # aware == naive is False; two aware compare instants; two naive
            # compare wall-clock readings
            return z3.And(aa == bb, z3.If(aa, a.instant() == b.instant(),
                                          a.local == b.local))
        if isinstance(a, STz) and isinstance(b, STz):
            return a.off == b.off
        if isinstance(a, (SDt, STd, STz)) or isinstance(b, (SDt, STd, STz)):
            if a is None or b is None:
                return False
        return NotImplemented
    world.eq_models.append(eq)

    def isinst(x, name, it):
        if isinstance(x, SDt):
            return name in ('datetime', 'date', 'object')
        if isinstance(x, STd):
            return name in ('timedelta', 'object')
        return NotImplemented
    world.isinstance_hook = isinst

    def truth_hook(v):
        return NotImplemented
    return world


def spec_functions():
    """Names for contract expressions."""
    def instant(it, node, d):
        return SInt(d.instant())

    def local(it, node, d):
        return SInt(d.local)

    def off(it, node, d):
        return SInt(d.off)

    def aware(it, node, d):
        return d.aware if isinstance(d.aware, bool) else SBool(d.aware)

    def us(it, node, t):
        # microseconds of a timespan; of a fixed-offset zone: its offset
        return SInt(t.off if isinstance(t, STz) else t.us)

    def real_us(it, node, x):
        """seconds (int/float) -> exact microseconds as a real"""
        if isinstance(x, (SReal, float)):
            return SReal(_strip_fl(TReal.unwrap(x)) * US)
        return SReal(z3.ToReal(_i(x)) * US)
    def fl(it, node, x):
        return SReal(S.fl(TReal.unwrap(x)))
    return {k: Model(k, v, True) for k, v in dict(
        instant=instant, local=local, off=off, aware=aware, us=us,
        real_us=real_us, fl=fl).items()}
