"""Model of the `dict of sets` idiom (key -> mutable set of values):

    table.setdefault(k, set()).add(v)      table.get(k, set()).discard(v)
    table[k]   k in table   del table[k]   set(filter(p, table.get(k, set())))

The table is a mutable cell around two arrays: dom : Key -> Bool (the key is
present) and rel : Key -> (Val -> Bool) (the members of its bucket). A bucket
obtained from the table is a VIEW: add/discard write through to the table, as
they do in Python, where the bucket is the very object stored in the dict.
Spec functions: bucket_has(table_or_snapshot, key, value), has_key(...)."""
import z3

from . import sym as S
from .sym import SBool, Sym, TStr, TVal, Unsupported
from .interp import Model


class SetMap(Sym):
    """Immutable value (a snapshot)."""

    def __init__(self, dom, rel, key_t):
        self.dom, self.rel, self.key_t = dom, rel, key_t


class SetMapCell(Sym):
    def __init__(self, m):
        self.m = m

    def snapshot(self):
        return self.m

    def py_truth(self):
        raise Unsupported('truth value of a dict of sets')


class Bucket(Sym):
    """The set stored under `key` (a view into the cell)."""

    def __init__(self, cell, key):
        self.cell, self.key = cell, key

    def arr(self):
        return z3.Select(self.cell.m.rel, self.key)

    def has(self, v):
        return z3.Select(self.arr(), S.box_any(v))

    def write(self, v, flag):
        m = self.cell.m
        self.cell.m = SetMap(m.dom, z3.Store(m.rel, self.key, z3.Store(
            self.arr(), S.box_any(v), z3.BoolVal(flag))), m.key_t)

    def py_truth(self):
        x = z3.Const(S.fresh_name('member'), S.Val)
        return z3.Exists([x], z3.Select(self.arr(), x))


class setmapcell:
    """Parameter factory: a dict Str -> set of Val with symbolic content."""
    is_factory = True

    def __init__(self, key=TStr):
        self.key = key

    def __call__(self, name, path):
        dom = z3.Const(S.fresh_name(name + '.dom'),
                       z3.ArraySort(self.key.sort(), z3.BoolSort()))
        rel = z3.Const(S.fresh_name(name + '.rel'), z3.ArraySort(
            self.key.sort(), z3.ArraySort(S.Val, z3.BoolSort())))
        return SetMapCell(SetMap(dom, rel, self.key))


def _arr_of(x):
    """Characteristic array of a set-like default (set(), an SSet ...)."""
    if isinstance(x, S.SSet) and x.elem is TVal:
        return x.arr
    if isinstance(x, (set, frozenset)) and not x:
        return z3.K(S.Val, z3.BoolVal(False))
    if isinstance(x, S.SSet):
        raise Unsupported('dict of sets: typed default set')
    raise Unsupported('dict of sets: default %r' % (x,))


def install(world):
    def method(o, name, args, kw, it, node):
        if isinstance(o, SetMapCell):
            m = o.m
            if name in ('get', 'setdefault') and args:
                k = m.key_t.unwrap(args[0])
                if it.branch(z3.Select(m.dom, k)):
                    return Bucket(o, k)
                d = args[1] if len(args) > 1 else None
                if name == 'get':
                    return d
                o.m = SetMap(z3.Store(m.dom, k, z3.BoolVal(True)),
                             z3.Store(m.rel, k, _arr_of(d)), m.key_t)
                return Bucket(o, k)
            if name == 'pop' and args:
                k = m.key_t.unwrap(args[0])
                if it.branch(z3.Select(m.dom, k)):
                    gone = S.SSet(z3.Select(m.rel, k), TVal)
                    o.m = SetMap(z3.Store(m.dom, k, z3.BoolVal(False)),
                                 m.rel, m.key_t)
                    return gone
                if len(args) > 1:
                    return args[1]
                it.raise_('KeyError', args[0], node=node)
            raise Unsupported('dict-of-sets method .%s' % name)
        if isinstance(o, Bucket):
            if name == 'add' and len(args) == 1:
                o.write(args[0], True)
                return None
            if name == 'discard' and len(args) == 1:
                o.write(args[0], False)
                return None
            if name == 'remove' and len(args) == 1:
                if not it.branch(o.has(args[0])):
                    it.raise_('KeyError', args[0], node=node)
                o.write(args[0], False)
                return None
            if name == 'copy' and not args:
                return S.SSet(o.arr(), TVal)
            raise Unsupported('bucket method .%s' % name)
        return NotImplemented
    world.method_models.append(method)

    def binop(op, a, b, it):
        if op == 'in' and isinstance(a, SetMapCell):
            return SBool(z3.Select(a.m.dom, a.m.key_t.unwrap(b)))
        if op == 'in' and isinstance(a, SetMap):
            return SBool(z3.Select(a.dom, a.key_t.unwrap(b)))
        if op == 'in' and isinstance(a, Bucket):
            return SBool(a.has(b))
        if op == 'index' and isinstance(a, SetMapCell):
            k = a.m.key_t.unwrap(b)
            if not it.spec and not it.branch(z3.Select(a.m.dom, k)):
                it.raise_('KeyError', b)
            return Bucket(a, k)
        return NotImplemented
    world.binop_models.append(binop)

    def delitem(obj, idx, it, node):
        if isinstance(obj, SetMapCell):
            m = obj.m
            k = m.key_t.unwrap(idx)
            if not it.branch(z3.Select(m.dom, k)):
                it.raise_('KeyError', idx, node=node)
            obj.m = SetMap(z3.Store(m.dom, k, z3.BoolVal(False)), m.rel,
                           m.key_t)
            return True
        return NotImplemented
    world.delitem_hooks = list(getattr(world, 'delitem_hooks', [])) + [
        delitem]


def spec_functions():
    def _m(t):
        return t.m if isinstance(t, SetMapCell) else t

    def bucket_has(it, node, table, key, value):
        """value is a member of the set stored under key (and key is
        present)"""
        m = _m(table)
        k = m.key_t.unwrap(key)
        return SBool(z3.And(z3.Select(m.dom, k), z3.Select(
            z3.Select(m.rel, k), S.box_any(value))))

    def has_key(it, node, table, key):
        m = _m(table)
        return SBool(z3.Select(m.dom, m.key_t.unwrap(key)))
    return dict(bucket_has=Model('bucket_has', bucket_has, True),
                has_key=Model('has_key', has_key, True))
