"""./check <ID> [--tier quick|thorough] [--replay FILE]"""
import argparse
import importlib
import json
import os
import sys
import time

from . import core


def main():
    ap = argparse.ArgumentParser()
    ap.add_argument('pid')
    ap.add_argument('--tier', default=os.environ.get('VERIF_TIER', 'quick'))
    ap.add_argument('--replay')
    ap.add_argument('--procs', type=int, default=16)
    a = ap.parse_args()
    seed = int(os.environ.get('VERIF_SEED', '0') or 0)
    t0 = time.time()
    if a.replay:
        d = json.load(open(a.replay))
        print(json.dumps(d, indent=1)[:6000])
        return 0
    try:
        mod = importlib.import_module('props.' + a.pid)
    except ImportError as e:
        print('CHECKER-ERROR no check for %s: %s' % (a.pid, e))
        return 3
    core.TIER[0] = a.tier
    ctx = core.Ctx(a.pid, a.tier, seed)
    try:
        units = mod.units(ctx)
        results = core.run_units(units, ctx, a.procs)
        post = getattr(mod, 'post', None)
        if post:
            results = post(ctx, results) or results
        return core.finish(a.pid, a.tier, seed, results, t0,
                           level=getattr(mod, 'LEVEL', 'proof'),
                           technique=getattr(mod, 'TECHNIQUE', ''),
                           extra_assumptions=getattr(mod, 'ASSUMPTIONS', ()),
                           explanation=getattr(mod, 'EXPLANATION', ''))
    except Exception as e:      # noqa
        import traceback
        print('CHECKER-ERROR %s: %s' % (type(e).__name__, e))
        traceback.print_exc()
        return 3


if __name__ == '__main__':
    sys.exit(main())
